#!/bin/bash
# Build the Coq development from files on disk only (offline). Full .vo build, never -vos.
set -e
cd "$(dirname "$0")"
export PYTHONPATH=/repo:/verif PATH=/venv/bin:$PATH FORD_DEBUGGING=1 PYTHONHASHSEED=0
for t in translate/t*.py; do
  [ -e "$t" ] && /venv/bin/python "$t"
done
cd coq
{ echo "-Q theories Ford"; find theories -name '*.v' | sort; } > _CoqProject
coq_makefile -f _CoqProject -o Makefile
timeout 1500 make -j16
if grep -rnE '\b(Admitted|admit|Axiom|Parameter|Conjecture)\b' theories --include=*.v | grep -v '^\S*:\s*[0-9]*:\s*(\*'; then
  echo "forbidden construct found" >&2; exit 1
fi
echo "setup ok"
