import argparse, importlib, json, os, sys, traceback
from harness.core import Check


def main():
    ap = argparse.ArgumentParser()
    ap.add_argument("pid")
    ap.add_argument("--tier", default=os.environ.get("VERIF_TIER", "quick"), choices=["quick", "thorough"])
    ap.add_argument("--replay")
    a = ap.parse_args()
    seed = int(os.environ.get("VERIF_SEED", "1"))
    mod = importlib.import_module("harness.props." + a.pid.lower())
    chk = Check(a.pid, a.tier, seed)
    if a.replay:
        sys.exit(mod.replay(chk, json.load(open(a.replay))))
    try:
        mod.run(chk)
    except Exception:
        chk.obligation("harness-run", False, traceback.format_exc()[-3000:])
    sys.exit(mod.finish(chk))


if __name__ == "__main__":
    main()
