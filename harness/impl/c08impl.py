"""C08 adapters: pieces of FORD's call recording run on harness inputs.

granular:  strip_paren, the regular expressions, the QUOTES_RE masking loop (copied statement for
           statement from FortranContainer.__init__ because it is inline there),
           FortranContainer._add_procedure_calls on a stub, Associations.add_batch
end-to-end: Project(...).correlate() on a rendered project with a spy on
           FortranCodeUnit._find_chain_item that snapshots the label tables at the moment the
           unit's calls are resolved.
"""
import re

from harness.impl import fordrun as F


def sf():
    import ford.sourceform as m
    return m


def strip_paren(line, d):
    import ford.utils as fu
    try:
        return fu.strip_paren(line, d)
    except Exception as e:  # noqa
        return "EXC:" + type(e).__name__


def mask(line):
    """the 'Temporarily replace all strings' loop of FortranContainer.__init__"""
    m = sf()
    strings = []
    search_from = 0
    while quote := m.QUOTES_RE.search(line[search_from:]):
        strings.append(quote.group())
        line = line[0:search_from] + m.QUOTES_RE.sub(f'"{len(strings) - 1}"', line[search_from:], count=1)
        search_from += m.QUOTES_RE.search(line[search_from:]).end(0)
    return line


def regexes(x):
    FC = sf().FortranContainer
    calls = [m["call_chain"] for m in FC.CALL_RE.finditer(x)]
    m = FC.SUBCALL_RE.search(x)
    sub = m["call_chain"] if m else None
    fm = bool(FC.FORMAT_RE.match(x))
    g = FC.ARITH_GOTO_RE.search(x)
    gt = x[: g.start()] + "goto" + x[g.end():] if g else None   # what the cascade scans in place of the statement
    e = FC.END_RE.match(x)
    ea = bool(e and e.group(1) and e.group(1).lower() == "associate")
    a = FC.ASSOCIATE_RE.match(x)
    asc = a["associations"] if a else None
    return calls, sub, (fm, ea), asc, gt, mask(x)


def add_calls(batches, calls, line):
    """_add_procedure_calls on a stub: -> list of chains, or None when anything raises"""
    out = add_calls2(batches, calls, [], line)
    return None if out is None else out[0]


def add_calls2(batches, calls, named, line):
    """_add_procedure_calls on a stub: -> (unit.calls, the candidates that end in an entry of INTRINSICS), or None"""
    m = sf()

    class Stub:
        pass
    st = Stub()
    st.calls = [list(c) for c in calls]
    if named:
        st._intrinsic_named_calls = [list(c) for c in named]
    st.SUBCALL_RE = m.FortranContainer.SUBCALL_RE
    st.CALL_RE = m.FortranContainer.CALL_RE
    try:
        a = m.Associations()
        for b in batches:
            a.add_batch(list(b))
        m.FortranContainer._add_procedure_calls(st, line, a)
        return [list(c) for c in st.calls], [list(c) for c in getattr(st, "_intrinsic_named_calls", [])]
    except Exception:  # noqa
        return None


STRIP_TYPE = re.compile(r"^(type|class)\((.*?)(?:\(.*\))?\)$", re.IGNORECASE)


def strip_type(s):
    r = STRIP_TYPE.match(s)
    return r.group(2).lower() if r else s.lower()


def obj_path(o):
    names = []
    while o is not None and getattr(o, "obj", None) != "sourcefile":
        names.append(str(getattr(o, "name", "?")).lower())
        o = getattr(o, "parent", None)
    return "@" + ".".join(reversed(names))      # never the spelling of a name


def entity_of(o):
    m = sf()
    if hasattr(o, "retvar"):
        ts = strip_type(o.retvar.full_type)
        if ts not in getattr(o, "all_types", getattr(o.parent, "all_types", {})):
            ts = "?" + ts          # the table the walk consults does not know the type: it stops there
        return ("func", obj_path(o), ts)
    if isinstance(o, m.FortranType):
        return ("type", o.name.lower())
    if isinstance(o, m.FortranVariable):
        ts = strip_type(o.full_type)
        pat = getattr(o.parent, "all_types", {})
        if pat and ts not in pat:
            ts = "?" + ts          # the table of the variable's parent does not know the type
        # a plain scalar (numeric or logical, no DIMENSION anywhere, no dummy argument): `name(...)` is then a
        # function reference for FORD
        scalar = (not o.dimension and not any(str(a).lower().startswith("dimension") for a in o.attribs)
                  and o not in getattr(o.parent, "args", [])
                  and (o.vartype in ("integer", "real", "complex", "logical") or o.vartype.startswith("double")))
        return ("var", ts, bool(pat), scalar)
    return ("proc", obj_path(o))


def labels_of(ctx, with_vars):
    """the sequence of updates get_label_item performs for context ctx"""
    m = sf()
    out = []

    def upd(d):
        for k, v in d.items():
            if isinstance(v, m.FortranBase):
                out.append((k, entity_of(v)))
            else:
                out.append((k, ("proc", "str:" + str(v))))
    upd(getattr(ctx, "all_procs", {}))
    upd({bp.name.lower(): bp for bp in getattr(ctx, "boundprocs", [])})
    upd(getattr(ctx, "all_types", {}))
    ext = ctx
    while ext := getattr(ext, "extends", None):
        if isinstance(ext, str):
            break
        out.append((ext.name.lower(), entity_of(ext)))
    upd(getattr(ctx, "all_vars", {}))
    upd({a.name.lower(): a for a in getattr(ctx, "args", [])})
    if retvar := getattr(ctx, "retvar", None):
        out.append((retvar.name.lower(), entity_of(retvar)))
    upd({v.name.lower(): v for v in getattr(ctx, "variables", []) if hasattr(v, "name")})
    return out


def snapshot(unit):
    """FORD's label tables for the unit and for every derived type it can reach, right now"""
    m = sf()
    scope = labels_of(unit, True)
    types, seen, todo = {}, set(), []

    def add_types(d):
        for t in d.values():
            if isinstance(t, m.FortranType) and id(t) not in seen:
                seen.add(id(t))
                todo.append(t)
    add_types(getattr(unit, "all_types", {}))
    for f in getattr(unit, "all_procs", {}).values():
        add_types(getattr(f, "all_types", {}) or {})
    for v in list(getattr(unit, "all_vars", {}).values()) + list(getattr(unit, "variables", [])) + \
            list(getattr(unit, "args", [])):
        add_types(getattr(getattr(v, "parent", None), "all_types", {}) or {})
    while todo:
        t = todo.pop()
        key = t.name.lower()
        if key in types:
            continue        # project-wide unique type names are a generator invariant
        types[key] = labels_of(t, False)
        add_types(getattr(t, "all_types", {}) or {})
        for v in getattr(t, "variables", []):
            add_types(getattr(getattr(v, "parent", None), "all_types", {}) or {})
    return (scope, sorted(types.items()))


def call_name(c):
    return c if isinstance(c, str) else obj_path(c)


def run_project(files, **settings):
    """-> (error or None, {unit path tuple: {"calls": [...], "tab": snapshot or None}})"""
    m = sf()
    snaps = {}
    orig = m.FortranCodeUnit._find_chain_item

    def spy(self, chain):
        if id(self) not in snaps:
            snaps[id(self)] = snapshot(self)
        return orig(self, chain)
    res = {}
    err = None
    with F.Work(files) as w:
        m.FortranCodeUnit._find_chain_item = spy
        try:
            p = F.parse_project(w.root, display=["public", "private", "protected"], dbg=False, **settings)
        except Exception as e:  # noqa
            return f"{type(e).__name__}", {}
        finally:
            m.FortranCodeUnit._find_chain_item = orig

        # the project's own top-level procedures (what an otherwise unresolved plain name falls back to)
        ext = [(proc.name.lower(), obj_path(proc)) for proc in p.procedures if getattr(proc, "parobj", "") == "sourcefile"]

        def visit(u, path):
            if hasattr(u, "calls") and isinstance(u, (m.FortranProcedure, m.FortranProgram,
                                                       m.FortranModuleProcedureImplementation)):
                tab = snaps.get(id(u))
                res[path] = {"calls": [call_name(c) for c in u.calls],
                             "tab": (tab[0], tab[1], ext) if tab else None}
            for attr in ("modules", "submodules", "programs", "functions", "subroutines", "modprocedures"):
                for c in getattr(u, attr, None) or []:
                    visit(c, path + (c.name.lower(),))
        for f in p.files:
            visit(f, ())
    return err, res
