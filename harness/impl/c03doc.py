"""Adapters for the documentation-text half of C03: the real meta_preprocessor, read_metadata
pre-step and AdmonitionPreprocessor.run on lists of lines."""


def run_meta(lines):
    """ford.utils.meta_preprocessor on a copy of the lines: (ordered [(key, [values])], body) or 'EXC:<T>'"""
    from ford.utils import meta_preprocessor
    try:
        meta, body = meta_preprocessor(list(lines))
    except Exception as e:  # noqa
        return "EXC:" + type(e).__name__
    return [(k, list(v)) for k, v in meta.items()], list(body)


def entity_fields():
    from dataclasses import fields
    from ford.settings import EntitySettings
    return [f.name for f in fields(EntitySettings)]


def run_read_metadata(lines):
    """FortranBase.read_metadata on a bare object whose doc_list is `lines`; meta.update is replaced
    by a recorder so that the split itself is observed: (ordered meta, doc_list)."""
    import ford.sourceform as sf
    import ford.utils
    from ford.settings import ProjectSettings

    class Rec:
        def __init__(self):
            self.seen = None

        def update(self, meta, parent=None):
            self.seen = [(k, list(v)) for k, v in meta.items()]

    obj = sf.FortranBase.__new__(sf.FortranBase)
    obj.doc_list = list(lines)
    obj.settings = ProjectSettings(warn=False)
    obj.obj = "proc"
    obj.name = "probe"
    obj.hierarchy = []
    rec = Rec()
    orig = sf.EntitySettings.from_project_settings
    try:
        sf.EntitySettings.from_project_settings = classmethod(lambda cls, st: rec)
        obj._set_display = lambda: None
        obj.read_metadata()
    except Exception as e:  # noqa
        return "EXC:" + type(e).__name__
    finally:
        sf.EntitySettings.from_project_settings = orig
    return rec.seen or [], list(obj.doc_list)


ERR_CODES = {"Note end marker found without start marker": 1,
             "Type of start and end marker don't match": 2,
             "Missing start of @note": 3}

_pre = None


def run_admon(lines):
    """AdmonitionPreprocessor.run on a copy: ('ok', lines) or ('err', code)."""
    global _pre
    import markdown
    from ford.md_admonition import AdmonitionPreprocessor, FordMarkdownError
    if _pre is None:
        _pre = AdmonitionPreprocessor(markdown.Markdown())
    try:
        return ("ok", list(_pre.run(list(lines))))
    except FordMarkdownError as e:
        head = str(e).split(":\n")[0]
        return ("err", ERR_CODES.get(head, 9))
    except IndexError:
        return ("err", 4)
    except Exception:  # noqa
        return ("err", 9)


def run_admon_via_markdown(text):
    """The same through a Markdown instance carrying the extension (checks the registration:
    pre-processor runs on the source lines); returns html."""
    import markdown
    from ford.md_admonition import AdmonitionExtension
    md = markdown.Markdown(extensions=[AdmonitionExtension()])
    return md.convert(text)


def run_doc_project(files):
    """Project + correlate + markdown (MetaMarkdown set up as in ford.main) on the rendered files.
    Returns ('ok', {(obj, name, parent): dict(doc=html, text=visible text, summary=html, meta={...})})
    or ('err', 'Type: message')."""
    import bs4
    from harness.impl import fordrun
    from ford._markdown import MetaMarkdown
    out = {}
    with fordrun.Work(files) as w:
        try:
            p = fordrun.parse_project(w.root, display=["public", "private", "protected"], dbg=False)
            md = MetaMarkdown(project=p)
            with fordrun.quiet():
                p.markdown(md)
        except Exception as e:  # noqa
            return "err", f"{type(e).__name__}: {e}"
        for f in p.allfiles:
            for it in f.markdownable_items:
                par = getattr(it, "parent", None)
                key = (getattr(it, "obj", None), (it.name or "").lower(),
                       (getattr(par, "name", None) or "").lower() if par is not None and getattr(it, "obj", "") != "module" else None)
                meta = {k: getattr(it.meta, k, None) for k in
                        ("author", "version", "since", "category", "license", "date", "deprecated", "display")}
                out[key] = dict(doc=it.doc, text=bs4.BeautifulSoup(it.doc or "", "html.parser").get_text(),
                                summary=it.meta.summary, meta=meta, doc_list=list(it.doc_list))
            # enumerators are not rendered through markdown: their metadata and remaining doc lines are observed
            for mod in getattr(f, "modules", []):
                for en in getattr(mod, "enums", []):
                    for v in en.variables:
                        meta = {k: getattr(v.meta, k, None) for k in
                                ("author", "version", "since", "category", "license", "date", "deprecated", "display")}
                        out[("variable", v.name.lower(), "enum")] = dict(
                            doc=None, text="\n".join(v.doc_list), summary=None, meta=meta, doc_list=list(v.doc_list))
    return "ok", out


def run_shared_decl(doc_lines, nvars, style=0, stmt="integer"):
    """One declaration of `nvars` variables documented by ONE comment, parsed by FortranSourceFile; the
    calls of read_metadata made while the variables are constructed are observed (wrappers around
    FortranBase.read_metadata and ford.utils.meta_preprocessor): for every variable, in declaration
    order, (name, doc_list the variable was given, ordered metadata found, doc_list left).
    Returns ('ok', [...]) or ('err', text)."""
    import ford.sourceform as sf
    import ford.utils
    from harness.gen.c03doc import render_decl
    from harness.impl import fordrun
    names = [f"sv{'abcdefgh'[i]}" for i in range(nvars)]
    src = ("module shm\n  implicit none\n"
           + render_decl(f"{stmt} :: {', '.join(names)}", {"lines": doc_lines}, "  ", style)
           + "end module shm\n")
    seen, cur = [], []
    orig_rm, orig_mp = sf.FortranBase.read_metadata, ford.utils.meta_preprocessor

    def spy_mp(lines):
        meta, body = orig_mp(lines)
        if cur:
            cur[-1]["meta"] = [(k, list(v)) for k, v in meta.items()]
        return meta, body

    def spy_rm(self):
        rec = {"name": getattr(self, "name", None), "obj": getattr(self, "obj", None),
               "given": list(self.doc_list), "meta": []}
        cur.append(rec)
        try:
            return orig_rm(self)
        finally:
            cur.pop()
            rec["left"] = list(self.doc_list)
            seen.append(rec)

    try:
        sf.FortranBase.read_metadata = spy_rm
        ford.utils.meta_preprocessor = spy_mp
        with fordrun.Work({"src/s.f90": src}) as w:
            fordrun.parse_project(w.root, correlate=False, display=["public", "private", "protected"], dbg=False)
    except Exception as e:  # noqa
        return "err", f"{type(e).__name__}: {e}"
    finally:
        sf.FortranBase.read_metadata = orig_rm
        ford.utils.meta_preprocessor = orig_mp
    recs = [r for r in seen if r["obj"] == "variable" and r["name"] in names]
    return "ok", [(r["name"], r["given"], r["meta"], r["left"]) for r in recs]
