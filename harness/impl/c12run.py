"""C12 adapters.

(a) traced in-process runs: the file enumeration order is forced (ford.fortran_project.find_all_files
    is replaced), every NameSelector.get_name request is attributed to the loop of the pipeline that
    issued it (the phases of coq/theories/Out/Project.v) and to the file on whose behalf it was issued.
(b) real runs of `python -m ford` in subprocesses and a recursive byte comparison of output trees.
"""
import difflib
import json
import os
import pathlib
import re
import shutil
import sys

from harness.impl import fordrun as F

N_LISTS = 12
LIST_NAMES = ["types", "absinterfaces", "procedures", "submodprocedures", "modules", "submodules", "programs",
              "blockdata", "namelists"]
# label -> ("file", k) | ("set", k): positions in Out/Project.v [pipeline]
# label -> ("file", k) | ("fixed", k) | ("idset", k): the phases of Out/Project.v [pipeline]
PH = {
    "parse": ("file", 0), "prereg-module": ("file", 45), "prereg-submodule": ("file", 46), "topo": ("idset", 0),
    "type-topo": ("idset", 2), "graph-collect": ("fixed", 4),
    "corr-set": ("fixed", 1), "corr-proc": ("file", 1), "corr-program": ("file", 2), "corr-blockdata": ("file", 3),
    "prune-set": ("fixed", 2), "prune-proc": ("file", 4), "prune-program": ("file", 5),
    "prune-blockdata": ("file", 6), "glue": ("fixed", 3), "md": ("file", 7), "mdx": ("file", 8),
    "graphs": ("idset", 1), "search-index": ("fixed", 5), "search-static": ("fixed", 6),
    "write-global": ("fixed", 7),
}
for _j in range(N_LISTS):
    PH[f"page-{_j}"] = ("file", 9 + _j)
    PH[f"rsearch-{_j}"] = ("file", 21 + _j)
    PH[f"rwrite-{_j}"] = ("file", 33 + _j)
N_SEGS = 47
N_SETS = 8
N_IDSETS = 3
# position of every phase in the pipeline (to check that the observed run walks them in that order)
PIPE = ([("file", 0), ("file", 45), ("file", 46), ("idset", 0), ("fixed", 1), ("file", 1), ("file", 2), ("file", 3),
         ("idset", 2), ("fixed", 2), ("file", 4), ("file", 5), ("file", 6), ("fixed", 3), ("file", 7), ("file", 8)]
        + [("file", 9 + j) for j in range(N_LISTS)] + [("fixed", 4), ("idset", 1), ("fixed", 5)]
        + [("file", 21 + j) for j in range(N_LISTS)] + [("fixed", 6)]
        + [("file", 33 + j) for j in range(N_LISTS)] + [("fixed", 7)])
PIPE_POS = {p: i for i, p in enumerate(PIPE)}
# id-set phases that are interleaved with other loops (the type toposorts inside container.correlate, the
# set iterations of graph construction): their requests must be repeats, so their position does not matter
FLOATING = {("idset", 1), ("idset", 2)}


class Trace:
    def __init__(self, root):
        self.root = str(root)
        self.label = "pre"
        self.file = None
        self.stage = "pre"
        self.depth = 0
        self.log = []          # (label, filekey, object id) first request per (label, file, object)
        self.seen = set()
        self.objs = {}         # id -> object (kept alive)
        self.first = []        # object ids in order of first request
        self.final = {}        # id -> ident
        self.info = {}         # id -> (dir, name, base key)
        self.unknown = []
        self.page_label = {}
        self.keep = []
        self.topo_seen = False
        self.uncovered = []

    def rel(self, p):
        try:
            return os.path.relpath(str(p), self.root)
        except Exception:  # noqa
            return str(p)

    def owner(self, item):
        try:
            sf = item.source_file
            return self.rel(sf.path)
        except Exception:  # noqa
            try:
                return self.rel(item.path)
            except Exception:  # noqa
                return "?"


def _base_key(tr, item):
    anc = []
    cur = getattr(item, "parent", None)
    n = 0
    while cur is not None and n < 12:
        anc.append((getattr(cur, "obj", "?"), str(getattr(cur, "name", "?"))))
        cur = getattr(cur, "parent", None)
        n += 1
    return (tr.owner(item), tuple(reversed(anc)), getattr(item, "obj", "?"), type(item).__name__,
            str(getattr(item, "name", "?")))


_MISSING = object()


class Instrument:
    """installs / removes the wrappers"""

    def __init__(self, tr, order, unsorted=False):
        self.tr, self.order, self.undo, self.unsorted = tr, order, [], unsorted

    def patch(self, obj, name, new):
        old = obj.__dict__[name] if isinstance(obj, type) else getattr(obj, name, _MISSING)
        self.undo.append((obj, name, old))
        setattr(obj, name, new)

    def __enter__(self):
        import ford.sourceform as sf
        import ford.fortran_project as fp
        import ford.output as fo
        import toposort as tp
        tr = self.tr

        # ---- forced enumeration order
        orig_find = fp.find_all_files

        def forced(settings):
            got = orig_find(settings)
            if self.order is None:
                res = list(got)
            else:
                by = {tr.rel(p): p for p in got}
                res = [by[o] for o in self.order if o in by] + [p for r, p in sorted(by.items()) if r not in self.order]
            tr.forced = [tr.rel(p) for p in res]
            return res
        self.patch(fp, "find_all_files", forced)
        if self.unsorted:
            # Project.__init__ iterates sorted(find_all_files(settings)) (the only use of the name in that
            # module): a module-level `sorted` that keeps the order lets the pipeline be driven through
            # every enumeration, which is what Out/Project.v idents_enum quantifies over
            self.patch(fp, "sorted", lambda it, **kw: list(it))

        # ---- the spy
        orig_get = sf.NameSelector.get_name

        def spy(sel, item):
            is_new = item not in sel._items
            r = orig_get(sel, item)
            k = id(item)
            if k not in tr.objs:
                tr.objs[k] = item
                tr.first.append(k)
                tr.info[k] = (str(item.get_dir()), str(item.name), _base_key(tr, item))
            tr.final[k] = r
            label, fkey = tr.label, tr.file
            if label == "glue" and tr.stage == "correlate" and not tr.topo_seen \
                    and getattr(item, "obj", None) in ("module", "submodule"):
                # Project.correlate: "for module in chain(self.modules, self.submodules): module.ident"
                label, fkey = f"prereg-{item.obj}", tr.owner(item)
            if label in ("docinit-other", "write-global") and fkey is None:
                # page.outfile / page.loc evaluated by the loops over the entity pages
                pg = self.docpage_on_stack(fo)
                if pg is not None and tr.page_label.get(id(pg), (None, None))[0] is not None:
                    lab_, fkey = tr.page_label[id(pg)]
                    label = ("rsearch-%d" if tr.stage == "docinit" else "rwrite-%d") % lab_
                elif label == "docinit-other":
                    # graph construction; "_ = x.ident" written in graph_all itself is its collecting loop
                    caller = sys._getframe(1).f_back
                    label = "graph-collect" if caller is not None and caller.f_code.co_name == "graph_all" \
                        else "graphs"
            if is_new and PH.get(label, ("?",))[0] == "idset":
                # the first request of an entity inside a loop whose order comes from a set of objects
                tr.uncovered.append((label, str(item.get_dir()), str(item.name), getattr(item, "obj", "?"),
                                     tr.owner(item)))
            key = (label, fkey, k)
            if key not in tr.seen:
                tr.seen.add(key)
                tr.log.append(key)
            return r
        self.patch(sf.NameSelector, "get_name", spy)

        def scoped(label_of):
            """wrap a method: the OUTERMOST call within the current stage sets label and file"""
            def deco(fn):
                def w(self_, *a, **kw):
                    if tr.depth > 0:
                        return fn(self_, *a, **kw)
                    old = (tr.label, tr.file)
                    tr.label, tr.file = label_of(self_, *a)
                    tr.depth += 1
                    try:
                        return fn(self_, *a, **kw)
                    finally:
                        tr.depth -= 1
                        tr.label, tr.file = old
                w._c12 = True
                return w
            return deco

        def staged(stage, label):
            def deco(fn):
                def w(*a, **kw):
                    old = (tr.stage, tr.label, tr.file, tr.depth)
                    tr.stage, tr.label, tr.file, tr.depth = stage, label, None, 0
                    try:
                        return fn(*a, **kw)
                    finally:
                        tr.stage, tr.label, tr.file, tr.depth = old
                return w
            return deco

        # ---- Project.__init__ loop
        def parse_label(s, ext, filename, *r):
            tr.enum.append(tr.rel(filename))      # the enumeration order as Project.__init__ walks it
            return ("parse", tr.rel(filename))
        self.patch(fp.Project, "_fortran_file", scoped(parse_label)(fp.Project.__dict__["_fortran_file"]))
        real_generic = fp.GenericSource

        def generic_source(filename, settings):      # the other branch of the same loop: extra file types
            tr.enum.append(tr.rel(filename))
            old = (tr.label, tr.file)
            tr.label, tr.file = "parse", tr.rel(filename)
            try:
                return real_generic(filename, settings)
            finally:
                tr.label, tr.file = old
        self.patch(fp, "GenericSource", generic_source)
        # ---- correlate
        self.patch(fp.Project, "correlate", staged("correlate", "glue")(fp.Project.__dict__["correlate"]))
        orig_topo = tp.toposort_flatten

        def topo(*a, **kw):
            if tr.stage == "correlate" and tr.depth == 0:
                old = tr.label
                tr.topo_seen = True
                tr.label = "topo"
                try:
                    return orig_topo(*a, **kw)
                finally:
                    tr.label = old
            if tr.stage == "correlate":
                # the toposort of a scope's derived types, inside container.correlate
                old = (tr.label, tr.file)
                tr.label, tr.file = "type-topo", None
                try:
                    return orig_topo(*a, **kw)
                finally:
                    tr.label, tr.file = old
            return orig_topo(*a, **kw)
        self.patch(tp, "toposort_flatten", topo)

        def kind_of(c):
            o = getattr(c, "obj", "?")
            if o in ("module", "submodule"):
                return "set"
            return o if o in ("proc", "program", "blockdata") else "set"

        def lab(prefix):
            def f(c, *a):
                k = kind_of(c)
                return (f"{prefix}-{k}", None if k == "set" else tr.owner(c))
            return f

        def md_label(item, *a):
            if isinstance(item, sf.GenericSource):
                return ("mdx", tr.owner(item))
            return ("md", tr.owner(item))
        for cls in [c for c in vars(sf).values() if isinstance(c, type)]:
            for meth, lf in (("correlate", lab("corr")), ("prune", lab("prune")), ("markdown", md_label)):
                if meth in cls.__dict__ and callable(cls.__dict__[meth]) and not getattr(cls.__dict__[meth], "_c12", False):
                    self.patch(cls, meth, scoped(lf)(cls.__dict__[meth]))
        self.patch(fp.Project, "markdown", staged("markdown", "glue")(fp.Project.__dict__["markdown"]))

        # ---- Documentation
        self.patch(fo.Documentation, "__init__", staged("docinit", "docinit-other")(fo.Documentation.__dict__["__init__"]))
        self.patch(fo.Documentation, "writeout", staged("writeout", "write-global")(fo.Documentation.__dict__["writeout"]))
        orig_page_init = fo.BasePage.__dict__["__init__"]

        def page_init(page, data, proj, obj=None):
            lab_ = None
            if isinstance(page, fo.DocPage):
                lab_ = self.sublist(proj, obj)
            tr.page_label[id(page)] = (lab_, tr.owner(obj) if lab_ is not None else None)
            tr.keep.append(page)
            old = (tr.label, tr.file)
            if lab_ is not None:
                tr.label, tr.file = f"page-{lab_}", tr.owner(obj)
            try:
                return orig_page_init(page, data, proj, obj)
            finally:
                tr.label, tr.file = old
        self.patch(fo.BasePage, "__init__", page_init)
        orig_html = fo.BasePage.__dict__["html"]

        def html_get(page):
            lab_, own = tr.page_label.get(id(page), (None, None))
            old = (tr.label, tr.file)
            if lab_ is not None:
                tr.label, tr.file = (("rsearch-%d" if tr.stage == "docinit" else "rwrite-%d") % lab_), own
            else:
                if tr.stage == "docinit":
                    tr.label = "search-index" if isinstance(page, fo.IndexPage) else "search-static"
                else:
                    tr.label = "write-global"
                tr.file = None
            try:
                return orig_html.fget(page)
            finally:
                tr.label, tr.file = old
        self.patch(fo.BasePage, "html", property(html_get))
        return self

    @staticmethod
    def docpage_on_stack(fo):
        f = sys._getframe(2)
        n = 0
        while f is not None and n < 14:
            for nm in ("self", "page"):
                v = f.f_locals.get(nm)
                if isinstance(v, fo.DocPage):
                    return v
            f = f.f_back
            n += 1
        return None

    def sublist(self, proj, obj):
        """index (0..11) of the project-level list whose loop in Documentation.__init__ creates the
        page of obj: found in the frame of that loop"""
        import ford.sourceform as sf
        f = sys._getframe(2)
        n = 0
        while f is not None and n < 8:
            if "entity_list" in f.f_locals and "entity_list_page_map" in f.f_locals:
                el = f.f_locals["entity_list"]
                for j, nm in enumerate(LIST_NAMES):
                    if el is getattr(proj, nm):
                        if nm == "procedures":
                            return 2 if getattr(obj, "parobj", None) == "sourcefile" else 3
                        return j if j < 2 else j + 1
                return 11 if isinstance(obj, sf.GenericSource) else 10
            f = f.f_back
            n += 1
        return None

    def __exit__(self, *a):
        for obj, name, old in reversed(self.undo):
            if old is _MISSING:
                delattr(obj, name)
            else:
                setattr(obj, name, old)


def traced_run(files, order, options=None, unsorted=False):
    """-> dict(err, enum, ents {key: (dir, name)}, final {key: ident}, segs {(k, file): [keys]},
    fixed {k: [keys]}, idsets {k: [keys]}, seq [(kind, k)] (the phases in the order they were first seen),
    unknown [labels])"""
    with F.Work(files) as w:
        tr = Trace(w.root)
        tr.enum, tr.forced = [], []
        import ford.graphs as fg
        flag = fg.graphviz_installed
        fg.graphviz_installed = False        # graphs are built (Documentation has its own flag), dot is not run
        try:
            with Instrument(tr, order, unsorted):
                data, out, err = F.full_run_inprocess(w.root, options or {})
        finally:
            fg.graphviz_installed = flag
    # stable entity keys: base key + occurrence number in order of first request
    occ, key_of = {}, {}
    for k in tr.first:
        b = tr.info[k][2]
        occ[b] = occ.get(b, 0) + 1
        key_of[k] = b + (occ[b],)
    ents = {key_of[k]: tr.info[k][:2] for k in tr.first}
    final = {key_of[k]: v for k, v in tr.final.items()}
    segs, fixed, idsets, seq, unknown = {}, {}, {}, [], []
    for label, fkey, k in tr.log:
        ph = PH.get(label)
        if ph is None:
            unknown.append(label)
            continue
        if not seq or seq[-1] != ph:
            seq.append(ph)
        if ph[0] == "file":
            segs.setdefault((ph[1], fkey), []).append(key_of[k])
        elif ph[0] == "fixed":
            fixed.setdefault(ph[1], []).append(key_of[k])
        else:
            idsets.setdefault(ph[1], []).append(key_of[k])
    return {"err": err, "log": out, "enum": tr.enum, "forced": tr.forced, "unsorted": bool(unsorted),
            "ents": ents, "final": final, "segs": segs, "fixed": fixed, "idsets": idsets,
            "seq": seq, "unknown": sorted(set(unknown)), "uncovered": sorted(set(tr.uncovered))}


def phases_in_pipeline_order(seq):
    pos = [PIPE_POS[p] for p in seq if p not in FLOATING]
    return all(a <= b for a, b in zip(pos, pos[1:]))


# ----------------------------------------------------------------------------- (b) real runs

def read_tree(root):
    root = pathlib.Path(root)
    out = {}
    if not root.exists():
        return out
    for p in sorted(root.rglob("*")):
        if p.is_symlink() or p.is_file():
            out[str(p.relative_to(root))] = p.read_bytes()
        elif p.is_dir() and not any(p.iterdir()):
            out[str(p.relative_to(root)) + "/"] = b""
    return out


def run_env(seed):
    e = {"PYTHONPATH": os.environ.get("PYTHONPATH", ""), "FORD_DEBUGGING": "1",
         "PATH": "/venv/bin:" + os.environ.get("PATH", ""), "PYTHONHASHSEED": str(seed)}
    return e


class ProjectDir:
    """one project at a FIXED absolute path (find_all_files hashes absolute paths: the enumeration order
    depends on PYTHONHASHSEED *and* on where the project lives), run several times"""

    def __init__(self, base, name, files):
        self.root = pathlib.Path(base) / name
        self.files = files
        for rel, text in files.items():
            p = self.root / rel
            p.parent.mkdir(parents=True, exist_ok=True)
            p.write_text(text)
        self.doc = self.root / "doc"

    def run(self, options, seed, stale=None, keep=(), timeout=300, extra_args=(), out="doc"):
        """stale: None (output directory absent) | dict rel->bytes (put there beforehand) | "same" (whatever
        the previous run of this project left, plus one extra file).  [out]: the output directory (below the
        project directory) when the options / command line arguments move it.
        -> (rc, log, tree of the output directory, {name: tree} for the other directories asked for)"""
        doc = self.root / out
        if stale == "same":
            if not doc.exists():
                F.full_run_subprocess(self.root, options, extra_args=extra_args,
                                      env=run_env((int(seed) + 7) % 1000), timeout=timeout)
            doc.mkdir(exist_ok=True)
            (doc / "zz_left_over.html").write_text("left over from an earlier run")
            (doc / "proc").mkdir(exist_ok=True)
            (doc / "proc" / "zz_gone~2.html").write_text("page of a procedure that no longer exists")
        else:
            shutil.rmtree(doc, ignore_errors=True)
            if isinstance(stale, dict):
                for rel, data in stale.items():
                    if rel.endswith("/"):
                        (doc / rel).mkdir(parents=True, exist_ok=True)
                        continue
                    p = doc / rel
                    p.parent.mkdir(parents=True, exist_ok=True)
                    p.write_bytes(data if isinstance(data, bytes) else data.encode())
        for name in keep:
            shutil.rmtree(self.root / name, ignore_errors=True)
        try:
            rc, out_ = F.full_run_subprocess(self.root, options, extra_args=extra_args, env=run_env(seed),
                                             timeout=timeout)
        except Exception as e:  # noqa  (timeout)
            rc, out_ = 124, f"EXC:{type(e).__name__}"
        return rc, out_, read_tree(doc), {name: read_tree(self.root / name) for name in keep}


def subprocess_run(files, options, seed, stale=None, keep=(), timeout=300):
    """one `python -m ford` run in a fresh scratch directory"""
    with F.Work() as w:
        return ProjectDir(w.root, "p", files).run(options, seed, stale, keep, timeout)


def subprocess_runs(files, specs, timeout=300):
    """several runs [(options, seed, stale)] of one project in ONE directory, sequentially"""
    with F.Work() as w:
        pd = ProjectDir(w.root, "p", files)
        return [pd.run(o, s, st, timeout=timeout) for o, s, st in specs]


def trace_project(files, order0, perms, options):
    """the real code with the set handed over in order0 and in every given permutation of it, then the same
    permutations with the sort of Project.__init__ neutralised (worker-process entry point)"""
    runs = [traced_run(files, order0, options)]
    if runs[0]["err"]:
        return runs
    for p in perms:
        runs.append(traced_run(files, [order0[i] for i in p], options))
    for p in perms:
        runs.append(traced_run(files, [order0[i] for i in p], options, unsorted=True))
    for r in runs:
        r.pop("log", None)
    return runs


def enumeration_order(root, seed):
    """the order in which find_all_files' set is iterated for the project at [root] under this hash seed
    (measured in a subprocess; informational)"""
    import subprocess
    code = ("import sys, os, pathlib\nimport ford, ford.fortran_project as fp\n"
            "from ford.settings import ProjectSettings\n"
            "root = pathlib.Path(sys.argv[1])\n"
            "st = ProjectSettings(src_dir=[root / 'src'], preprocess=False, output_dir=root / 'doc')\n"
            "st.fpp_extensions = []\n"
            "os.chdir(root)\n"
            "print('\\n'.join(os.path.relpath(p, root) for p in fp.find_all_files(st)))\n")
    e = dict(os.environ)
    e.update(run_env(seed))
    p = subprocess.run([sys.executable, "-c", code, str(root)], env=e, stdout=subprocess.PIPE,
                       stderr=subprocess.STDOUT, text=True, timeout=120)
    return [l for l in p.stdout.splitlines() if l.strip()] if p.returncode == 0 else None


# ----------------------------------------------------------------------------- comparison of output trees

def _lines(b):
    try:
        return b.decode("utf8").splitlines()
    except UnicodeDecodeError:
        return None


def first_difference(a, b):
    """(path, kind of difference, a few differing lines) of the first file that differs"""
    for p in sorted(set(a) | set(b)):
        if p not in a:
            return p, "only in the second tree", []
        if p not in b:
            return p, "only in the first tree", []
        if a[p] != b[p]:
            la, lb = _lines(a[p]), _lines(b[p])
            if la is None or lb is None:
                return p, "binary content differs", []
            d = [l for l in difflib.unified_diff(la, lb, lineterm="", n=0)
                 if not l.startswith(("---", "+++", "@@"))]
            return p, "lines differ", [x[:200] for x in d[:8]]
    return None


def classify(a, b, applicable=()):
    """-> None when the trees are byte-identical; otherwise (None, detail).  No open finding allows two runs
    to differ any more, so nothing explains a difference ([applicable] is kept for old replay files)."""
    if a == b:
        return None
    return None, first_difference(a, b)
