"""C16 adapters: run FORD on project A with externalize (capturing the NameSelector request order and the
Python objects behind the abstract entities), load a modules.json into a stub project with FORD's own
load_external_modules, and query FORD's look-up functions on the result."""
import contextlib
import io
import json
import os
import pathlib
import types
import urllib.error

from harness.impl import fordrun as F

ATTR_ORDER = ["proctype", "pub_procs", "pub_absints", "pub_types", "pub_vars", "functions", "subroutines",
              "interfaces", "absinterfaces", "types", "variables", "boundprocs", "vartype", "permission",
              "deferred", "generic", "attribs"]
STRIP = {"vartype", "deferred", "generic", "attribs"}
LISTS = ["functions", "subroutines", "interfaces", "absinterfaces", "types", "variables", "boundprocs"]
KIND_LIST = {"function": "functions", "subroutine": "subroutines", "generic": "interfaces",
             "absint": "absinterfaces", "type": "types", "var": "variables", "bound": "boundprocs"}
XCLS = {"ExternalModule": "XModule", "ExternalInterface": "XInterface", "ExternalType": "XType",
        "ExternalVariable": "XVariable", "ExternalFunction": "XFunction", "ExternalSubroutine": "XSubroutine",
        "ExternalBoundProcedure": "XBound"}
EXN = {"KeyError", "TypeError", "AttributeError", "ValueError", "FileNotFoundError", "UnicodeDecodeError",
       "JSONDecodeError", "URLError"}


def run_A(root, A, extra_options=None):
    """Full FORD run of A (files already below root) with externalize.  Returns
    (error, pre_requests [(abstract-or-fresh id, dir, name)], modules.json content or None, log)."""
    import ford.fortran_project as fp
    import ford.sourceform as sf
    snapshot = {}          # id(python object) -> abstract id
    log = []
    orig_corr = fp.Project.correlate
    orig_get = sf.NameSelector.get_name

    def snap(obj, e):
        snapshot[id(obj)] = e["id"]
        for k in e["kids"]:
            if k["kind"] == "alias":            # a re-exported name, not an object of this module
                continue
            lst = getattr(obj, KIND_LIST[k["kind"]], None) or []
            for o in lst:
                if getattr(o, "name", None) == k["name"] and id(o) not in snapshot:
                    snap(o, k)
                    break

    keep = []

    order = []

    def correlate(self):
        keep.append(self)
        order.extend(m.name for m in self.modules)
        for m in self.modules:
            for e in A["modules"]:
                if e["name"] == m.name:
                    snap(m, e)
        return orig_corr(self)

    def spy(self, item):
        r = orig_get(self, item)
        log.append((id(item), str(item.get_dir()), item.name))
        return r
    opts = {"externalize": "true", "display": A["display"] or ["none"],
            "proc_internals": "true" if A["proc_internals"] else "false"}
    opts.update(extra_options or {})
    fp.Project.correlate = correlate
    sf.NameSelector.get_name = spy
    try:
        data, out, err = F.full_run_inprocess(root, opts)
    finally:
        fp.Project.correlate = orig_corr
        sf.NameSelector.get_name = orig_get
    fresh = {}
    pre = []
    for pid, d, n in log:
        i = snapshot.get(pid)
        if i is None:
            i = fresh.setdefault(pid, 500 + len(fresh))
        pre.append((i, d, n))
    # drop repeated requests of the same entity (NameSelector answers them from its cache)
    seen, pre1 = set(), []
    for r in pre:
        if r[0] not in seen:
            seen.add(r[0])
            pre1.append(r)
    mj = pathlib.Path(root) / "doc" / "modules.json"
    content = json.loads(mj.read_text()) if (not err and mj.exists()) else None
    extra_pages = [f"{d}/{_ident(keep, pid)}.html" for pid, d, n in log if pid in fresh and d != "None"] if keep else []
    return err, pre1, content, out, sorted(set(extra_pages)), order


def _ident(keep, pid):
    import ford.sourceform as sf
    for item, name in sf.namelist._items.items():
        if id(item) == pid:
            return name
    return "?"


def strip_json(j):
    if isinstance(j, dict):
        return {k: strip_json(v) for k, v in j.items() if k not in STRIP}
    if isinstance(j, list):
        return [strip_json(v) for v in j]
    return j


def written_pages(doc):
    out = []
    for d in ("module", "proc", "type", "interface"):
        p = pathlib.Path(doc) / d
        if p.is_dir():
            out += [f"{d}/{f.name}" for f in p.iterdir() if f.suffix == ".html"]
    return sorted(out)


# ---------------------------------------------------------------- loading

class StubProject:
    def __init__(self, external, directory):
        self.external = external
        self.settings = types.SimpleNamespace(directory=pathlib.Path(directory))
        self.extModules, self.extProcedures, self.extInterfaces = [], [], []
        self.extTypes, self.extVariables = [], []
        for c in ("modules", "submodules", "types", "procedures", "allfiles", "absinterfaces", "programs",
                  "blockdata", "namelists"):
            setattr(self, c, [])


class FakeResponse:
    def __init__(self, data):
        self.data = data

    def read(self):
        return self.data


def load(external_value, directory, remote_payload=None):
    """FORD's load_external_modules on a stub project.  remote_payload: None (real I/O), an Exception
    instance to be raised by urlopen, or bytes to be returned by it.
    Returns (stub project, outcome) with outcome 'ok' | 'contained' | 'EXC:<Type>'."""
    import ford.external_project as ep
    externals = external_value if isinstance(external_value, dict) else {"ext": external_value}
    p = StubProject(externals, directory)
    orig = ep.urlopen
    if remote_payload is not None:
        def fake(url, *a, **k):
            payload = remote_payload
            if isinstance(payload, dict):       # per base URL (several external projects)
                payload = next(v for k2, v in payload.items() if str(url).startswith(k2.rstrip("/")))
            if isinstance(payload, Exception):
                raise payload
            return FakeResponse(payload)
        ep.urlopen = fake
    buf = io.StringIO()
    try:
        with contextlib.redirect_stdout(buf):
            try:
                ep.load_external_modules(p)
                outcome = "contained" if "Could not open external URL" in buf.getvalue() else "ok"
            except Exception as e:  # noqa
                outcome = "EXC:" + type(e).__name__
    finally:
        ep.urlopen = orig
    return p, outcome


def coq_str(x):
    assert all(ord(c) < 128 for c in x), repr(x)
    return '(s "' + x.replace('"', '""') + '")'


def coq_json(j):
    if j is None:
        return "JNull"
    if isinstance(j, bool):
        return f"(JBool {'true' if j else 'false'})"
    if isinstance(j, int):
        return f"(JNum {j})"
    if isinstance(j, (str, pathlib.PurePath)):
        return f"(JStr {coq_str(str(j))})"
    if isinstance(j, list):
        return "(JList [" + "; ".join(coq_json(x) for x in j) + "])"
    if isinstance(j, dict):
        return "(JDict [" + "; ".join(f"({coq_str(k)}, {coq_json(v)})" for k, v in j.items()) + "])"
    raise TypeError(type(j))


def coq_xval(o, top=True):
    """an imported value as a Coq term of type xval"""
    if isinstance(o, str):
        return f"(XS {coq_str(o)})"
    cls = XCLS.get(type(o).__name__)
    if cls is None:
        raise TypeError(type(o))
    attrs = []
    for k in ATTR_ORDER:
        if k in vars(o) or (k == "permission" and "_permission" in vars(o)):
            v = vars(o)[k] if k in vars(o) else vars(o)["_permission"]
            if isinstance(v, list):
                t = "(XL [" + "; ".join(coq_xval(i) for i in v) + "])"
            elif isinstance(v, dict):
                t = "(XD [" + "; ".join(f"({coq_str(kk)}, {coq_xval(i)})" for kk, i in v.items()) + "])"
            else:
                t = f"(XV {coq_json(v)})"
            attrs.append(f"({coq_str(k)}, {t})")
    return f"(XO {cls} {coq_json(o.name)} {coq_json(o.external_url)} [{'; '.join(attrs)}])"


def coq_impl_out(p, outcome, seq=False):
    if outcome == "ok" or (seq and outcome == "contained"):
        ls = [p.extModules, p.extProcedures, p.extInterfaces, p.extTypes, p.extVariables]
        return "(ILoaded " + " ".join("[" + "; ".join(coq_xval(o) for o in l) + "]" for l in ls) + ")"
    if outcome == "contained":
        dirty = p.extModules or p.extProcedures or p.extInterfaces or p.extTypes or p.extVariables
        return "IContainedDirty" if dirty else "IContained"
    name = outcome[4:]
    return f"(IRaised {name})" if name in EXN else "IRaisedOther"


# ---------------------------------------------------------------- look-ups

COLLS = {"modules": "CModules", "submodules": "CSubmodules", "types": "CTypes", "procedures": "CProcedures",
         "allfiles": "CAllFiles", "absinterfaces": "CAbsInterfaces", "programs": "CPrograms",
         "blockdata": "CBlockData", "namelists": "CNamelists"}


def install_locals(p, local):
    """local: {collection: [names]} -> stub FortranBase objects in the stub project's collections"""
    import ford.sourceform as sf

    class Local(sf.FortranBase):
        def __init__(self, name, coll, idx):
            self.name, self.coll, self.idx = name, coll, idx

        def find_child(self, name, entity=None):
            return ("LOCALCHILD", self.coll, self.idx)

    class LocalModule(sf.FortranModule):
        def __init__(self, name, coll, idx):
            self.name, self.coll, self.idx = name, coll, idx

        def find_child(self, name, entity=None):
            return ("LOCALCHILD", self.coll, self.idx)
    for c, names in local.items():
        cls = LocalModule if c == "modules" else Local
        setattr(p, c, [cls(n, c, i) for i, n in enumerate(names)])


def _answer(r):
    import ford.sourceform as sf
    if r is None:
        return "ANone"
    if isinstance(r, tuple) and r and r[0] == "LOCALCHILD":
        return f"(ALocalChild {COLLS[r[1]]} {r[2]})"
    if hasattr(r, "coll"):
        return f"(ALocal {COLLS[r.coll]} {r.idx})"
    if hasattr(r, "external_url") and type(r).__name__ in XCLS:
        return f"(AExt {XCLS[type(r).__name__]} {coq_json(r.name)} {coq_json(r.external_url)})"
    return "AErrOther"


def _exc(e):
    n = type(e).__name__
    return f"(AErr {n})" if n in EXN else "AErrOther"


def q_use(p, name):
    import ford.fortran_project as fp
    ent = types.SimpleNamespace(uses=[[name, ""]], routines=[])
    try:
        fp.find_used_modules(ent, p.modules, p.submodules, p.extModules)
    except Exception as e:  # noqa
        return _exc(e)
    r = ent.uses[0][0]
    return "ANone" if isinstance(r, str) else _answer(r)


def q_find(p, name, entity, child):
    import ford.fortran_project as fp
    try:
        r = fp.Project.find(p, name, entity, child[0] if child else None, child[1] if child else None)
    except Exception as e:  # noqa
        return _exc(e)
    return _answer(r)


def q_used(p, modname, which, name):
    idx = ["pub_procs", "pub_absints", "pub_types", "pub_vars"].index(which)
    try:
        mod = None
        for m in p.extModules:
            if m.name.lower() == modname.lower():
                mod = m
                break
        if mod is None:
            return "ANone"
        r = mod.get_used_entities(f", only: {name}")[idx].get(name.lower())
    except Exception as e:  # noqa
        return _exc(e)
    return _answer(r)
