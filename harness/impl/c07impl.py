"""C07 adapter: run Project(...).correlate() of the working tree on a rendered program and read back
every reference slot (by identity path); plus an HTML-level check on a full run."""
import contextlib
import re

from harness.impl import fordrun as F
from harness.gen import c07gen as G


def path_of(obj):
    """identity path of an entity object: unit name, enclosing scopes, own name (lower-cased)"""
    import ford.sourceform as sf
    names = []
    prev = None
    cur = obj
    for _ in range(20):
        if cur is None or isinstance(cur, sf.FortranSourceFile):
            break
        # the procedure of an interface body hangs below an interface object of the same name
        if not (isinstance(cur, sf.FortranModuleProcedureInterface) and prev is not None
                and getattr(cur, "procedure", None) is prev):
            names.append(str(cur.name).lower())
        prev = cur
        cur = getattr(cur, "parent", None)
    return list(reversed(names))


def ent(x):
    return None if (x is None or isinstance(x, str)) else path_of(x)


def by_name(pool, name):
    return next((x for x in pool if str(x.name).lower() == name.lower()), None)


def walk(s, o, path, out, problems):
    """s: abstract scope, o: the FORD code unit object"""
    path = path + [s["name"].lower()]
    if o is None:
        problems.append("scope %s not found" % "/".join(path))
        return
    local = list(getattr(o, "variables", [])) + [a for a in getattr(o, "args", []) if not isinstance(a, str)]
    for v in s["vars"] + s["args"]:
        if not v["ref"]:
            continue
        fv = by_name(local, v["name"])
        if fv is None:
            problems.append("variable %s of %s not found" % (v["name"], "/".join(path)))
            continue
        out.append((path, ("SVar", v["name"].lower()), ent(fv.proto[0] if fv.proto else None)))
    for t in s["types"]:
        ft = by_name(getattr(o, "types", []), t["name"])
        if ft is None:
            problems.append("type %s of %s not found" % (t["name"], "/".join(path)))
            continue
        tn = t["name"].lower()
        if t["extends"]:
            out.append((path, ("SExtends", tn), ent(ft.extends)))
        comps = getattr(ft, "local_variables", ft.variables)
        for c in t["comps"]:
            if not c["ref"]:
                continue
            fc = by_name(comps, c["name"])
            if fc is None:
                problems.append("component %s%%%s not found" % (t["name"], c["name"]))
                continue
            out.append((path, ("SComp", tn, c["name"].lower()), ent(fc.proto[0] if fc.proto else None)))
        for b in t["binds"]:
            fb = next((x for x in ft.boundprocs if str(x.name).lower() == b["name"].lower()
                       and getattr(x, "parent", None) is ft), None)
            if fb is None:
                problems.append("binding %s%%%s not found" % (t["name"], b["name"]))
                continue
            if b["proto"]:
                out.append((path, ("SBindProto", tn, b["name"].lower()), ent(fb.proto)))
            if not b["deferred"]:
                if len(fb.bindings) != len(b["targets"]):
                    problems.append("binding %s%%%s: %d targets" % (t["name"], b["name"], len(fb.bindings)))
                for i, x in enumerate(fb.bindings[:len(b["targets"])]):
                    out.append((path, ("SBindTarget", tn, b["name"].lower(), i), ent(x)))
        if len(ft.finalprocs) != len(t["finals"]):
            problems.append("type %s: %d finals" % (t["name"], len(ft.finalprocs)))
        for i, fp in enumerate(ft.finalprocs[:len(t["finals"])]):
            out.append((path, ("SFinal", tn, i), ent(fp.procedure)))
        out.append((path, ("SCtor", tn), ent(ft.constructor)))
    for g in s["generics"]:
        fg = next((x for x in getattr(o, "interfaces", []) if getattr(x, "generic", False)
                   and str(x.name).lower() == g["name"].lower()), None)
        if fg is None:
            problems.append("generic %s of %s not found" % (g["name"], "/".join(path)))
            continue
        mp = list(fg.modprocs)
        if len(mp) != len(g["modprocs"]):
            problems.append("generic %s: %d module procedures kept of %d" % (g["name"], len(mp), len(g["modprocs"])))
            continue
        for i, m in enumerate(mp):
            out.append((path, ("SModproc", g["name"].lower(), i), ent(getattr(m, "procedure", None))))
    for c in s["procs"]:
        walk(c, by_name(list(getattr(o, "subroutines", [])) + list(getattr(o, "functions", [])), c["name"]), path, out, problems)
    for c in s["ifbodies"]:
        i = next((x for x in getattr(o, "interfaces", []) if hasattr(x, "procedure") and str(x.name).lower() == c["name"].lower()), None)
        walk(c, getattr(i, "procedure", None), path, out, problems)
    for c in s["absints"]:
        i = next((x for x in getattr(o, "absinterfaces", []) if hasattr(x, "procedure") and str(x.name).lower() == c["name"].lower()), None)
        walk(c, getattr(i, "procedure", None), path, out, problems)


def find_unit_obj(p, u):
    if u["kind"] == "module":
        return by_name(p.modules, u["name"])
    if u["kind"] == "program":
        return by_name(p.programs, u["name"])
    if u["kind"] == "blockdata":
        return by_name(p.blockdata, u["name"])
    if u["kind"] == "submodule":
        return by_name(p.submodules, u["name"])
    return next((x for x in p.procedures if str(x.name).lower() == u["name"].lower() and x.parobj == "sourcefile"), None)


def observe(prog, files):
    """-> ({unit name: [(path, slot, ent)]}, submodule observations, problems) or ("EXC:<Type>", detail)"""
    with F.Work(files) as w:
        try:
            p = F.parse_project(w.root, proc_internals=True, display=["public", "private", "protected"],
                                extra_mods=dict(G.EXTRA_MODS))
        except Exception as e:  # noqa
            return "EXC:" + type(e).__name__, str(e)[:300]
        problems = []
        if "Error parsing" in p._verif_log or "ERROR" in p._verif_log:
            problems.append("parse: " + p._verif_log[-400:])
        obs = {}
        for u in prog["units"]:
            out = []
            walk(u, find_unit_obj(p, u), [], out, problems)
            obs[u["name"].lower()] = out
        subs = []
        mods = [str(m.name) for m in p.modules]
        smods = [str(m.name) for m in p.submodules]
        for sm in prog["submodules"]:
            fs = by_name(p.submodules, sm["name"])
            if fs is None:
                problems.append("submodule %s not found" % sm["name"])
                continue
            out = []
            walk(G.sub_scope(sm), fs, [], out, problems)
            obs[sm["name"].lower()] = out
            a = fs.ancestor_module
            subs.append((mods, sm["ancestor"], None if isinstance(a, str) else str(a.name)))
            if sm["parent"]:
                q = fs.parent_submodule
                subs.append((smods, sm["parent"], None if (q is None or isinstance(q, str)) else str(q.name)))
        return (obs, subs, problems), None


# ----------------------------------------------------------------------------- HTML level
@contextlib.contextmanager
def capture_project(box):
    import ford.fortran_project as fp
    orig = fp.Project.correlate

    def spy(self):
        box.append(self)
        return orig(self)
    fp.Project.correlate = spy
    try:
        yield
    finally:
        fp.Project.correlate = orig


def html_check(prog, files):
    """Full FORD run.  For the variables of every module and program: the declared type / interface
    is a link exactly when FORD resolved it, and the link goes to the page of the entity in the
    slot.  Returns (number of rows checked, [(unit, variable, entity path or None)], problems)."""
    box = []
    with F.Work(files) as w:
        with capture_project(box):
            data, out, err = F.full_run_inprocess(w.root, {"display": ["public", "private", "protected"],
                                                           "proc_internals": "true",
                                                           "extra_mods": [f"{k}: {v}" for k, v in G.EXTRA_MODS.items()]})
        if err or not box:
            return 0, [], ["full run failed: %s" % err]
        p = box[0]
        rows, seen, problems = 0, [], []
        for u in prog["units"]:
            if u["kind"] not in ("module", "program"):
                continue
            o = find_unit_obj(p, u)
            if o is None:
                continue
            page = w.root / "doc" / o.get_dir() / (o.ident + ".html")
            if not page.exists():
                problems.append("no page %s" % page.name)
                continue
            text = page.read_text()
            for v in u["vars"]:
                if not v["ref"]:
                    continue
                fv = by_name(o.variables, v["name"])
                if fv is None:
                    continue
                m = re.search(r'id="%s"></span>(.*?)</td>' % re.escape(fv.anchor), text, flags=re.S)
                if not m:
                    problems.append("variable %s not on page %s" % (v["name"], page.name))
                    continue
                rows += 1
                cell = m.group(1)
                link = re.search(r"<a href='([^']*)'>([^<]*)</a>", cell)
                target = fv.proto[0] if fv.proto else None
                if target is None or isinstance(target, str):
                    seen.append((u["name"].lower(), v["name"].lower(), None))
                    if link:
                        problems.append("%s: unresolved %s is rendered as a link to %s" % (v["name"], v["ref"]["id"], link.group(1)))
                    elif v["ref"]["id"].lower() not in cell.lower():
                        problems.append("%s: unresolved name %s is not shown as text" % (v["name"], v["ref"]["id"]))
                else:
                    seen.append((u["name"].lower(), v["name"].lower(), path_of(target)))
                    want = "../%s/%s.html" % (target.get_dir(), target.ident)
                    if not getattr(target, "visible", False) or not target.get_dir():
                        # entities that are not displayed (no page) are named without a link
                        if link:
                            problems.append("%s: %s is not displayed but linked to %s" % (v["name"], v["ref"]["id"], link.group(1)))
                    elif not link:
                        problems.append("%s: resolved %s is not a link" % (v["name"], v["ref"]["id"]))
                    elif link.group(1) != want:
                        problems.append("%s: link %s, page of the entity is %s" % (v["name"], link.group(1), want))
                    elif not (w.root / "doc" / target.get_dir() / (target.ident + ".html")).exists():
                        problems.append("%s: linked page %s does not exist" % (v["name"], want))
        return rows, seen, problems
