"""C09 adapters: call the real FORD URL code on harness inputs, and run whole generated projects
(worker function for a process pool) collecting link-walker problems and navigation facts."""
import os
import pathlib
import random
import re
import types

from harness.impl import fordrun as F

FAKE_ROOT = "/verif_nonexistent_root"      # never exists: Path.resolve() then only normalises


# ----------------------------------------------------------------------------- unit adapters

def impl_relpath(target, start):
    try:
        return os.path.relpath(target, start)
    except Exception as e:  # noqa
        return "EXC:" + type(e).__name__


def impl_project_url(outdir, page):
    """BasePage.__init__'s project_url for a page whose outfile is `page`, relative mode"""
    import ford.output as fo

    class P(fo.BasePage):
        @property
        def outfile(self):
            return pathlib.Path(page)
    try:
        proj = types.SimpleNamespace(settings=types.SimpleNamespace(project_url=pathlib.Path(outdir)))
        pg = P({"output_dir": pathlib.Path(outdir), "relative": True}, proj, None)
        return str(pg.project_url)
    except Exception as e:  # noqa
        return _exc(e) if isinstance(e, (AttributeError, TypeError, KeyError)) else "EXC:" + type(e).__name__


def impl_relurl(text, page):
    import ford.output as fo
    try:
        return str(fo.relative_url(text, pathlib.Path(page)))
    except Exception as e:  # noqa
        return "EXC:" + type(e).__name__


def _exc(e):
    """implementation exceptions are outputs (EXC:<Type>); exceptions caused by the harness' own stub
    objects or raised inside harness code are adapter errors (HARNESS:...), never judged as outputs"""
    import traceback
    tb = traceback.extract_tb(e.__traceback__)
    last = tb[-1].filename if tb else ""
    if "VerifStub" in str(e) or last.startswith(str(pathlib.Path(__file__).resolve().parent.parent)):
        return f"HARNESS:{type(e).__name__}: {e} (at {last}:{tb[-1].lineno if tb else 0})"
    return "EXC:" + type(e).__name__


def _Item(url, name="thing"):
    """a real FortranBase object (no source behind it) whose get_url() is `url`"""
    import ford.sourceform as sf

    class VerifStubEntity(sf.FortranBase):
        def __init__(self):     # noqa  (FortranBase.__init__ needs a reader)
            pass

        def get_url(self):
            return self._verif_url

        @property
        def filename(self):
            return "f.f90"
    it = VerifStubEntity()
    it._verif_url, it.name, it.parent, it.obj, it.visible = url, name, None, "proc", True
    return it


class _Proj:
    def __init__(self, item):
        self.item = item

    def find(self, name, entity=None, child_name=None, child_entity=None):
        return self.item


_HREF = re.compile(r'href="([^"]*)"')


def impl_doc_link(base, ctx_url, target_url, current=None, markdown_link=None, via_parent=False):
    """href that the real MetaMarkdown produces for [[thing]] (or for [t](markdown_link)) in a docstring
    of an entity whose get_url() is ctx_url (or on a page converted with path=current)"""
    from ford._markdown import MetaMarkdown
    try:
        md = MetaMarkdown(base_url=base, project=_Proj(_Item(target_url)))
        src = f"[t]({markdown_link})" if markdown_link is not None else "see [[thing]] here"
        with F.quiet():
            if current is not None:
                html = md.reset().convert(src, path=pathlib.Path(current))
            else:
                ctx = _Item(ctx_url)
                if via_parent:          # an entity without URL of its own, shown on its parent's page
                    ctx = _Item(None)
                    ctx.parent = _Item(None)
                    ctx.parent.parent = _Item(ctx_url)
                html = md.reset().convert(src, context=ctx)
        m = _HREF.search(html)
        return m.group(1) if m else "NOHREF"
    except Exception as e:  # noqa
        return _exc(e)


KIND_OF_CLASS = {
    "FortranSourceFile": "KSourceFile", "GenericSource": "KGenericSource", "FortranProgram": "KProgram",
    "FortranModule": "KModule", "FortranSubmodule": "KSubmodule", "FortranBlockData": "KBlockData",
    "FortranNamelist": "KNamelist", "FortranType": "KType", "FortranInterface": "KInterface",
    "FortranModuleProcedureInterface": "KInterface", "FortranSubroutine": "KProcedure",
    "FortranFunction": "KProcedure", "FortranProcedure": "KProcedure",
    "FortranModuleProcedureImplementation": "KModProcImpl", "FortranBoundProcedure": "KBoundProc",
    "FortranCommon": "KCommon", "FortranVariable": "KVariable", "FortranEnum": "KEnum",
    "FortranFinalProc": "KFinalProc",
}


def entity_chain(e, depth=0):
    """-> nested tuple (kind, obj, ident, named, ifaceproc, parent|None) or None when outside the model"""
    if depth > 12 or hasattr(e, "external_url"):
        return None
    kind = KIND_OF_CLASS.get(type(e).__name__, "KOther")
    par = getattr(e, "parent", None)
    pc = None
    if par is not None:
        if isinstance(par, str):
            return None
        pc = entity_chain(par, depth + 1)
        if pc is None:
            return None
    try:
        ident = e.ident
    except Exception:  # noqa
        return None
    return (kind, str(e.obj), str(ident), bool(getattr(e, "name", "")),
            bool(getattr(e, "is_interface_procedure", False)), pc)


def walk_entities(project):
    seen, out = set(), []

    def visit(e):
        if e is None or isinstance(e, str) or id(e) in seen:
            return
        seen.add(id(e))
        out.append(e)
        for attr in ("modules", "submodules", "programs", "functions", "subroutines", "modprocedures", "modfunctions",
                     "modsubroutines", "types", "interfaces", "absinterfaces", "variables", "boundprocs", "enums",
                     "common", "namelists", "blockdata", "args", "finalprocs", "routines", "modprocs"):
            v = getattr(e, attr, None)
            if isinstance(v, dict):
                v = list(v.values())
            for c in v or []:
                visit(c)
        for attr in ("retvar", "procedure", "constructor"):
            visit(getattr(e, attr, None))
    for f in list(project.files) + list(project.extra_files):
        visit(f)
    return out


def impl_urls_of_project(files):
    """parse+correlate a project in process; -> list of (entity chain, get_url())"""
    out = []
    with F.Work(files) as w:
        try:
            p = F.parse_project(w.root, src_dirs=("src",))
        except BaseException as e:  # noqa
            return [("ERROR", f"{type(e).__name__}:{e}")]
        for e in walk_entities(p):
            ch = entity_chain(e)
            if ch is None:
                continue
            try:
                u = e.get_url()
            except Exception as ex:  # noqa
                u = "EXC:" + type(ex).__name__
            out.append((ch, u))
    return out


# ----------------------------------------------------------------------------- whole runs

def nav_facts(doc, fields, links, list_pages, docs_obj):
    """counts record values + which nav links were emitted / which list pages exist"""
    proj, data = docs_obj.project, docs_obj.data
    vals = {}
    for c in fields["counts"]:
        vals["n_" + c] = len(list(getattr(proj, c)))
    for f in fields["flags"]:
        vals["f_" + f] = bool(data.get(f))
    for n in fields["nums"]:
        try:
            vals["v_" + n] = max(0, int(data.get(n)))
        except Exception:  # noqa
            vals["v_" + n] = 0
    idx = (doc / "index.html").read_text(encoding="utf8")
    srch = (doc / "search.html").read_text(encoding="utf8")
    cut = idx.find("</nav>")
    parts = {"base.html": srch[:srch.find("</nav>")] if "</nav>" in srch else srch,
             "index.html": idx[cut:] if cut >= 0 else idx}
    emitted, exist = [], []
    for (template, target, label, _cond) in links:
        text = parts[template]
        found = None
        for m in re.finditer(r'<a\b[^>]*?\bhref="([^"]*)"[^>]*>(.*?)</a>', text, re.S):
            if " ".join(m.group(2).split()) != _render_label(label):
                continue
            href = m.group(1)
            is_list = re.search(r"(^|/)lists/[\w.-]+\.html$", href) is not None
            if (target[0] == "list") == is_list:
                found = href
                break
        emitted.append(found is not None)
        if found is None:
            exist.append(True)
        else:
            tgt = pathlib.Path(os.path.normpath(doc / found.split("#")[0]))
            exist.append(tgt.is_file())
    pages = [(doc / "lists" / p).is_file() for (p, _c, _s) in list_pages]
    return vals, emitted, pages, exist


def _render_label(label):
    return label


def run_spec(job):
    """worker: render the project of `job["spec"]`, run FORD in process, walk the links.
    -> dict(error, problems, stats, nav)   (everything JSON-able)"""
    from harness.gen import c09proj as P
    from harness.impl import c09walk as W
    import ford.output as fo
    spec = job["spec"]
    rnd = random.Random(job["rseed"])
    r = P.Renderer(spec, rnd)
    files = r.render()
    opts = P.project_options(spec)
    body = P.front_matter_body(spec, r.refs[:3] if spec["shape"].get("links") else [])
    captured = []
    orig = fo.Documentation.writeout

    def spy(self):
        captured.append(self)
        return orig(self)
    res = {"error": None, "problems": [], "stats": {}, "nav": None, "files": sorted(files), "log": ""}
    layout = job.get("layout", "plain")
    with F.Work() as w:
        # where things live: optionally the output directory, the project directory or the source directory
        # is reached through a symbolic link (a web root linked into the project, `ford /link/to/proj/proj.md`)
        base = w.root / "real"
        base.mkdir()
        run_root = base
        if layout == "proj-symlink":
            os.symlink(base, w.root / "projlink")
            run_root = w.root / "projlink"
        for rel, text in files.items():
            if layout == "src-symlink" and rel.startswith("src/"):
                rel = "realsrc/" + rel[len("src/"):]
            f = base / rel
            f.parent.mkdir(parents=True, exist_ok=True)
            f.write_text(text)
        if layout == "src-symlink":
            (base / "realsrc").mkdir(exist_ok=True)
            os.symlink(base / "realsrc", base / "src")
        if layout == "out-symlink":
            (w.root / "webroot").mkdir()
            os.symlink(w.root / "webroot", base / "public")
            opts["output_dir"] = "./public/doc"
        fo.Documentation.writeout = spy
        try:
            data, out, err = F.full_run_inprocess(run_root, opts, body=body)
        finally:
            fo.Documentation.writeout = orig
        res["log"] = out[-1500:]
        if err:
            res["error"] = err
            return res
        doc = run_root / ("public/doc" if layout == "out-symlink" else "doc")
        scratch = {str(w.root), str(w.root.resolve())}
        probs, stats = W.walk(doc, search=opts.get("search") == "true", scratch_roots=scratch)
        # relocation: the site copied elsewhere, the original gone, must check out the same
        if job.get("relocate") and not probs:
            import shutil
            moved = w.root / "elsewhere" / "site"
            shutil.copytree(doc.resolve(), moved)
            shutil.rmtree(doc.resolve())
            probs2, stats2 = W.walk(moved, search=opts.get("search") == "true", scratch_roots=scratch)
            for p2 in probs2:
                p2["problem"] += "-after-relocation"
            probs += probs2
            stats["relocated"] = 1
            stats["relocated_links"] = stats2["internal"]
            if stats2["internal"] != stats["internal"]:
                probs.append(dict(page="-", attr="-", url="-", kind="html", before="", page_class="-", pattern="-",
                                  problem=f"link-count-changed-after-relocation:{stats['internal']}->{stats2['internal']}"))
            doc = moved
        for p in probs:
            for sr in sorted(scratch, key=len, reverse=True):
                p["url"] = p["url"].replace(sr, "<ROOT>")
            p["pattern"] = W.href_pattern(p["url"])
        res["problems"], res["stats"] = probs, stats
        if captured and job.get("nav"):
            nv = job["nav"]
            vals, emitted, pages, exist = nav_facts(doc, nv["fields"], nv["links"], nv["list_pages"], captured[0])
            res["nav"] = {"vals": vals, "emitted": emitted, "pages": pages, "exist": exist}
        if job.get("keep"):
            import shutil
            shutil.rmtree(job["keep"], ignore_errors=True)
            shutil.copytree(w.root, job["keep"], symlinks=True)
    return res
