"""Extract FORD's entity tree (after parsing, before correlate) in the shape of harness.gen.ftree nodes."""
from harness.gen.ftree import container, leaf


def _docs(e):
    """doc lines without empty ones: FORD emits an empty documentation line for a blank line that follows
    documentation (also for the blank line that ends a `!*` block); the generator never writes empty doc
    lines, so dropping them loses nothing that was declared"""
    return [x for x in (getattr(e, "doc_list", []) or []) if x.strip() != ""]


def var_leaf(v):
    return leaf("LVariable", v.name, _docs(v),
                vartype=getattr(v, "vartype", None), kind=getattr(v, "kind", None), strlen=getattr(v, "strlen", None),
                attribs=list(getattr(v, "attribs", []) or []), intent=getattr(v, "intent", ""),
                optional=getattr(v, "optional", False), parameter=getattr(v, "parameter", False),
                dimension=getattr(v, "dimension", ""), initial=getattr(v, "initial", None),
                permission=getattr(v, "permission", None))


def iface_nodes(ifaces, abstract):
    import ford.sourceform as sf
    out = []
    for it in ifaces:
        if isinstance(it, sf.FortranModuleProcedureInterface):
            out.append(container("KInterface", it.name, _docs(it), [proc_node(it.procedure)], abstract=abstract))
        else:
            kids = [leaf("LModProcRef", m.name, _docs(m)) for m in it.modprocs]
            kids += [proc_node(p) for p in list(it.functions) + list(it.subroutines)]
            kids += [var_leaf(v) for v in it.variables]
            out.append(container("KInterface", it.name or "", _docs(it), kids, abstract=bool(it.abstract),
                                 generic=bool(it.generic)))
    return out


def codeunit_children(u):
    import ford.sourceform as sf
    ch = []
    for use in getattr(u, "uses", []) or []:
        name = use[0] if isinstance(use[0], str) else use[0].name
        ch.append(leaf("LUse", name, []))
    for v in getattr(u, "variables", []) or []:
        ch.append(var_leaf(v))
    for a in getattr(u, "args", []) or []:
        if isinstance(a, sf.FortranVariable):
            ch.append(var_leaf(a))
    rv = getattr(u, "retvar", None)
    if isinstance(rv, sf.FortranVariable):
        ch.append(var_leaf(rv))
    for t in getattr(u, "types", []) or []:
        ch.append(type_node(t))
    for e in getattr(u, "enums", []) or []:
        ch.append(container("KEnum", e.name or "", _docs(e), [var_leaf(v) for v in e.variables]))
    ch += iface_nodes(getattr(u, "interfaces", []) or [], False)
    ch += iface_nodes(getattr(u, "absinterfaces", []) or [], True)
    for p in list(getattr(u, "functions", []) or []) + list(getattr(u, "subroutines", []) or []):
        ch.append(proc_node(p))
    for p in getattr(u, "modprocedures", []) or []:
        ch.append(container("KModProcImpl", p.name, _docs(p), codeunit_children(p)))
    for c in getattr(u, "common", []) or []:
        ch.append(leaf("LCommon", c.name, _docs(c)))
    for n in getattr(u, "namelists", []) or []:
        ch.append(leaf("LNamelist", n.name, _docs(n)))
    return ch


def proc_node(p):
    import ford.sourceform as sf
    k = "KFunction" if isinstance(p, sf.FortranFunction) else "KSubroutine"
    if isinstance(p, sf.FortranModuleProcedureImplementation):
        k = "KModProcImpl"
    args = [(a.name if isinstance(a, sf.FortranBase) else str(a)) for a in (getattr(p, "args", []) or [])]
    rv = getattr(p, "retvar", None)
    return container(k, p.name, _docs(p), codeunit_children(p), args=args,
                     result=(rv.name if isinstance(rv, sf.FortranBase) else rv),
                     attribs=list(getattr(p, "attribs", []) or []))


def type_node(t):
    ch = [var_leaf(v) for v in t.variables]
    ch += [leaf("LBoundProc", b.name, _docs(b)) for b in t.boundprocs]
    ch += [leaf("LFinal", f.name if hasattr(f, "name") else str(f), _docs(f)) for f in t.finalprocs]
    return container("KType", t.name, _docs(t), ch)


def file_node(f):
    ch = []
    for m in f.modules:
        ch.append(container("KModule", m.name, _docs(m), codeunit_children(m)))
    for m in f.submodules:
        ch.append(container("KSubmodule", m.name, _docs(m), codeunit_children(m)))
    for p in f.programs:
        ch.append(container("KProgram", p.name or "", _docs(p), codeunit_children(p)))
    for p in list(f.functions) + list(f.subroutines):
        ch.append(proc_node(p))
    for b in f.blockdata:
        name = "" if b.name == "<em>unnamed</em>" else b.name
        kids = [var_leaf(v) for v in b.variables] + [type_node(t) for t in b.types] + \
               [leaf("LCommon", c.name, _docs(c)) for c in b.common] + \
               [leaf("LUse", (u[0] if isinstance(u[0], str) else u[0].name), []) for u in b.uses]
        ch.append(container("KBlockData", name, _docs(b), kids))
    return container("KFile", f.name, _docs(f), ch)


def parse_text(text, fname="t.f90", workdir=None, **settings):
    """-> ("ok", file node) | ("err", exception name)"""
    import os, tempfile, shutil, io, contextlib
    import ford.sourceform as sf
    from ford.settings import ProjectSettings
    d = workdir or tempfile.mkdtemp(prefix="verif_t_")
    p = os.path.join(d, fname)
    with open(p, "w") as fh:
        fh.write(text)
    sf.namelist = sf.NameSelector()
    kw = dict(preprocess=False, dbg=True)
    kw.update(settings)
    st = ProjectSettings(**kw)
    buf = io.StringIO()
    try:
        with contextlib.redirect_stdout(buf), contextlib.redirect_stderr(buf):
            f = sf.FortranSourceFile(p, st, None, fname.endswith((".f", ".for", ".F")))
        return ("ok", file_node(f), buf.getvalue())
    except BaseException as e:  # noqa  (StopIteration and friends included)
        if isinstance(e, (KeyboardInterrupt, SystemExit)) or type(e).__name__ == "Timeout":
            raise
        return ("err", type(e).__name__, buf.getvalue())
    finally:
        try:
            os.remove(p)
        except OSError:
            pass
        if workdir is None:
            shutil.rmtree(d, ignore_errors=True)
