"""File-system tracer for C19, installed from the harness only (nothing in /repo is touched).

Two layers:
  * low level  — a `sys.addaudithook` hook sees every *attempted* mutating call of the interpreter
    (open for writing, os.mkdir/remove/rmdir/rename/utime/chmod/chown/symlink/link/truncate/
    setxattr, process creation).  It resolves the physical target (real path of the parent +
    last component; dir_fd relative names through /proc/self/fd) and can abort the call by
    raising (fault injection: OSError, or Crash = the process dies here).
  * high level — library entry points (shutil.rmtree/copytree/copy*/move, os.makedirs,
    pathlib.Path.mkdir/unlink/rmdir/write_bytes/write_text/touch/rename/replace) are wrapped only
    to *group* the low-level events into the operations of the model.  A low-level event outside
    any wrapper becomes an operation of its own; a low-level event inside a wrapper whose
    target does not lie under the wrapper's declared target is reported as an extra operation,
    so nothing a call does can hide behind its declared arguments.
"""
import os
import pathlib
import shutil
import sys

sys.dont_write_bytecode = True   # the interpreter's own .pyc writes are not FORD's


class Crash(BaseException):
    """Simulated death of the process at a file-system operation."""


WRITE_FLAGS = os.O_WRONLY | os.O_RDWR | os.O_CREAT | os.O_TRUNC | os.O_APPEND

_state = {"tracer": None, "installed": False, "busy": False}


def _fs(p):
    if isinstance(p, int):
        return None
    try:
        p = os.fspath(p)
    except TypeError:
        return None
    if isinstance(p, bytes):
        p = p.decode("utf-8", "surrogateescape")
    return p


def physical(p, dir_fd=None):
    """real path of the parent directory + last component (the entry an operation acts on)"""
    p = _fs(p)
    if p is None:
        return None
    if not os.path.isabs(p):
        base = os.getcwd()
        if isinstance(dir_fd, int):
            try:
                base = os.readlink(f"/proc/self/fd/{dir_fd}")
            except OSError:
                pass
        p = os.path.join(base, p)
    p = os.path.normpath(os.path.join(os.path.realpath(os.path.dirname(p)), os.path.basename(p))) \
        if os.path.basename(p) not in ("", ".", "..") else os.path.realpath(p)
    return p


def physical_follow(p, dir_fd=None):
    """for calls that follow a symbolic link in the last component (open without O_NOFOLLOW,
    utime, chmod, truncate, ...): the entry the call really acts on"""
    q = physical(p, dir_fd)
    if q is not None and os.path.islink(q):
        return os.path.realpath(q)
    return q


def lexical(p):
    p = _fs(p)
    if p is None:
        return None
    return os.path.normpath(os.path.join(os.getcwd(), p))


def _under(root, p):
    return p == root or p.startswith(root.rstrip("/") + "/")


class Tracer:
    def __init__(self):
        self.ops = []          # high-level operations: (kind, target[, source]) with physical targets
        self.low = []          # (index of the enclosing op or None, event, physical path)
        self.stack = []        # open wrappers: [kind, targets, allow_ancestors, index]
        self.active = False
        self.fault_at = None   # index of the low-level mutating event to abort
        self.fault_exc = None
        self.nlow = 0
        self.execs = []
        self.guard = None      # callable(tracer, event, paths): may raise to block the call
        self.ignore_prefixes = ("/dev/", "/proc/")

    # ---- low level
    def low_event(self, event, paths):
        k = self.nlow
        self.nlow += 1
        enclosing = self.stack[-1] if self.stack else None
        for p in paths:
            self.low.append((enclosing[3] if enclosing else -1 - k, event, p, k))
        if self.guard is not None:
            try:
                self.guard(self, event, paths)
            except PermissionError:
                for p in paths:
                    self.ops.append(("Blocked:" + event, p))
                raise
        if enclosing is None:
            kind = {"open": "Write", "os.mkdir": "MkDir", "os.remove": "Unlink", "os.rmdir": "RmDir",
                    "os.rename": "Rename", "os.utime": "Touch", "exec-dot": "Write"}.get(event, "Other:" + event)
            if kind == "Rename":
                self.ops.append((kind, paths[1], paths[0]))
            else:
                for p in paths:
                    self.ops.append((kind, p))
        else:
            kind, targets, allow_anc, _ = enclosing
            for p in paths:
                ok = any(_under(t, p) for t in targets) or \
                     (allow_anc and event == "os.mkdir" and any(_under(p, t) for t in targets))
                if not ok:
                    self.ops.append(("Stray:" + event, p))
        if self.fault_at is not None and k == self.fault_at:
            raise self.fault_exc

    # ---- high level
    def begin(self, kind, target, source=None, allowed=None, allow_anc=False):
        if self.stack:                       # nested library calls belong to the outermost one
            self.stack.append(self.stack[-1])
            return
        idx = len(self.ops)
        self.ops.append((kind, target) if source is None else (kind, target, source))
        self.stack.append([kind, allowed or [target], allow_anc, idx])

    def end(self):
        self.stack.pop()


def _hook(event, args):
    t = _state["tracer"]
    if t is None or not t.active or _state["busy"]:
        return
    _state["busy"] = True
    try:
        paths = None
        ev = event
        if event == "open":
            path, mode, flags = args
            if isinstance(flags, int) and flags & WRITE_FLAGS and not isinstance(path, int):
                nofollow = flags & getattr(os, "O_NOFOLLOW", 0)
                paths = [physical(path) if nofollow else physical_follow(path)]
        elif event in ("os.mkdir", "os.remove", "os.rmdir", "os.utime", "os.chmod", "os.chown",
                       "os.truncate", "os.setxattr", "os.removexattr", "os.mkfifo", "os.mknod"):
            dir_fd = None
            if event in ("os.remove", "os.rmdir"):
                dir_fd = args[1]
            elif event in ("os.mkdir", "os.chmod"):
                dir_fd = args[2]
            elif event == "os.utime":
                dir_fd = args[3]
            elif event == "os.chown":
                dir_fd = args[3]
            # utime/chmod/chown take follow_symlinks=, which the audit event does not show: taken as
            # not following here (sound); Path.touch, which does follow, is handled by its wrapper
            follows = event == "os.truncate"
            paths = [physical_follow(args[0], dir_fd) if follows else physical(args[0], dir_fd)]
        elif event == "os.rename":
            paths = [physical(args[0], args[2]), physical(args[1], args[3])]
        elif event in ("os.symlink", "os.link"):
            paths = [physical(args[1])]
        elif event == "subprocess.Popen":
            exe, argv = args[0], [str(a) for a in (args[1] or [])]
            t.execs.append(argv)
            if argv and os.path.basename(argv[0]) == "dot":
                if "-O" in argv:             # dot -Kdot -Tsvg -O <file>  writes <file>.svg
                    ev = "exec-dot"
                    target = argv[-1] + ".svg"
                    if args[2] is not None and not os.path.isabs(target):
                        target = os.path.join(_fs(args[2]), target)
                    paths = [physical(target)]
            else:
                ev = "exec"
                paths = [" ".join(argv)]
        elif event in ("os.system", "os.exec", "os.posix_spawn", "os.spawn", "os.startfile"):
            ev = "exec"
            paths = [repr(args)[:200]]
        if paths is None:
            return
        paths = [p for p in paths if p is not None and not p.startswith(t.ignore_prefixes)]
        if not paths:
            return
    finally:
        _state["busy"] = False
    t.low_event(ev, paths)


def _wrap(owner, name, describe):
    orig = getattr(owner, name)

    def wrapper(*a, **kw):
        t = _state["tracer"]
        if t is None or not t.active:
            return orig(*a, **kw)
        _state["busy"] = True
        try:
            d = describe(*a, **kw)
        finally:
            _state["busy"] = False
        if d is None:
            return orig(*a, **kw)
        t.begin(*d)
        try:
            return orig(*a, **kw)
        finally:
            t.end()
    wrapper.__name__ = getattr(orig, "__name__", name)
    wrapper._verif_orig = orig
    setattr(owner, name, wrapper)


def _copy_target(src, dst):
    dst = _fs(dst)
    if os.path.isdir(dst):
        return [physical(dst), physical(os.path.join(dst, os.path.basename(_fs(src))))]
    return [physical(dst)]


def install():
    """idempotent; audit hooks cannot be removed, so the hook is gated by the active tracer"""
    if _state["installed"]:
        return
    _state["installed"] = True
    sys.addaudithook(_hook)
    _wrap(shutil, "rmtree", lambda path, *a, **k: ("RmTree", physical(path)))
    _wrap(shutil, "copytree", lambda src, dst, *a, **k: ("CopyTree", physical(dst), lexical(src), None, True))
    for n in ("copy", "copy2", "copyfile"):
        _wrap(shutil, n, lambda src, dst, *a, **k: ("Copy", physical(dst), lexical(src), _copy_target(src, dst)))
    _wrap(shutil, "move", lambda src, dst, *a, **k: ("Rename", physical(dst), physical(src),
                                                    [physical(src), physical(dst)]))
    _wrap(os, "makedirs", lambda name, *a, **k: ("MkDirParents", physical(name), None, None, True))
    P = pathlib.Path
    _wrap(P, "mkdir", lambda self, mode=0o777, parents=False, exist_ok=False:
          ("MkDirParents" if parents else "MkDir", physical(self), None, None, bool(parents)))
    _wrap(P, "unlink", lambda self, *a, **k: ("Unlink", physical(self)))
    _wrap(P, "rmdir", lambda self: ("RmDir", physical(self)))
    _wrap(P, "write_bytes", lambda self, *a, **k: ("Write", physical(self)))
    _wrap(P, "write_text", lambda self, *a, **k: ("Write", physical(self)))
    # Path.touch follows a symbolic link: it sets the mtime of, or creates, the link's target
    _wrap(P, "touch", lambda self, *a, **k: ("Touch", physical_follow(self), None,
                                             [physical_follow(self), physical(self)]))
    _wrap(P, "rename", lambda self, target: ("Rename", physical(target), physical(self),
                                            [physical(self), physical(target)]))
    _wrap(P, "replace", lambda self, target: ("Rename", physical(target), physical(self),
                                             [physical(self), physical(target)]))


class tracing:
    """with tracing(fault_at=k, fault_exc=OSError(...)) as t: ...  -> t.ops, t.low, t.nlow"""

    def __init__(self, fault_at=None, fault_exc=None):
        install()
        self.t = Tracer()
        self.t.fault_at, self.t.fault_exc = fault_at, fault_exc

    def __enter__(self):
        _state["tracer"] = self.t
        self.t.active = True
        return self.t

    def __exit__(self, *a):
        self.t.active = False
        _state["tracer"] = None
        return False
