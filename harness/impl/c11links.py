"""Adapters for C11: read the abstract project off a real ford Project, run the real markdown conversion of
one [[reference]] in a context."""
import os
import pathlib
import re
import sys

from harness.impl import fordrun as F

sys.path.insert(0, str(pathlib.Path(__file__).resolve().parent.parent.parent / "translate"))


def tables():
    """the attribute names the model's tables mention (read from the working tree, as T2 does)"""
    import ast
    import t2_linktypes as T
    import ford.fortran_project as fp
    import ford.sourceform as sf
    tree = ast.parse((T.REPO / "ford" / "sourceform.py").read_text())
    attrs, non_list = T.children_lists(tree)
    return dict(fp.LINK_TYPES), dict(sf.SUBLINK_TYPES), attrs, non_list


class Abstract:
    """entities numbered in discovery order; attrs per entity; project collections"""

    def __init__(self, project):
        import ford.sourceform as sf
        self.sf = sf
        self.project = project
        link, sub, attrs, non_list = tables()
        self.attr_names = list(dict.fromkeys(attrs + non_list + list(sub.values())))
        self.col_names = list(dict.fromkeys(link.values()))
        self.objs = []
        self.ids = {}
        self.cols = {}
        for c in self.col_names:
            items = [x for x in getattr(project, c, []) if isinstance(x, sf.FortranBase)]
            for x in items:
                self.visit(x)
            self.cols[c] = [self.ids[id(x)] for x in items]
        i = 0
        while i < len(self.objs):          # closure under attributes and parents
            self.expand(self.objs[i])
            i += 1
        self.ents = [self.describe(o) for o in self.objs]

    def visit(self, o):
        if id(o) not in self.ids:
            self.ids[id(o)] = len(self.objs)
            self.objs.append(o)
        return self.ids[id(o)]

    def members(self, v):
        return [x for x in v if isinstance(x, self.sf.FortranBase)]

    def expand(self, o):
        for a in self.attr_names:
            if hasattr(o, a):
                v = getattr(o, a)
                if isinstance(v, (list, tuple)):
                    for x in self.members(v):
                        self.visit(x)
                elif isinstance(v, self.sf.FortranBase):
                    self.visit(v)
        par = getattr(o, "parent", None)
        if isinstance(par, self.sf.FortranBase):
            self.visit(par)

    def describe(self, o):
        attrs = []
        for a in self.attr_names:
            if hasattr(o, a):
                v = getattr(o, a)
                if isinstance(v, (list, tuple)):
                    attrs.append((a, ("list", [self.ids[id(x)] for x in self.members(v)])))
                elif isinstance(v, dict):
                    attrs.append((a, ("dict", None)))
                elif isinstance(v, self.sf.FortranBase):
                    attrs.append((a, ("single", self.ids[id(v)])))
                elif v is None:
                    attrs.append((a, ("none", None)))
                else:
                    attrs.append((a, ("other:" + type(v).__name__, None)))
        par = getattr(o, "parent", None)
        try:
            url = o.get_url()
        except Exception:  # noqa
            url = None
        try:
            owns = getattr(o, "get_dir", lambda: None)() is not None
        except Exception:  # noqa
            owns = False
        visible = bool(getattr(o, "visible", True))
        if getattr(o, "obj", None) == "sourcefile" and not getattr(getattr(self.project, "settings", None),
                                                                   "incl_src", True):
            visible = False          # convert_link's own test for source files without pages
        return {"name": o.name, "cls": type(o).__name__, "attrs": attrs,
                "parent": self.ids[id(par)] if isinstance(par, self.sf.FortranBase) else None, "url": url,
                "owns_page": owns, "visible": visible,
                "iface_proc": bool(getattr(o, "is_interface_procedure", False))}

    def unsupported(self):
        """attribute shapes / names the Coq side cannot carry"""
        bad = []
        for i, e in enumerate(self.ents):
            if not all(ord(c) < 128 for c in e["name"]):
                bad.append(f"non-ASCII name of entity {i}")
            for a, (k, _) in e["attrs"]:
                if k.startswith("other"):
                    bad.append(f"{e['cls']}.{a} is {k}")
        return bad

    def by_url(self):
        if getattr(self, "_by_url", None) is None:
            m = {}
            for i, e in enumerate(self.ents):
                if e["url"] is not None:
                    m.setdefault(norm_url(e["url"]), []).append(i)
            self._by_url = m
        return self._by_url

    def contexts(self):
        """entities whose documentation FORD converts with themselves as context"""
        return [i for i, (o, e) in enumerate(zip(self.objs, self.ents))
                if e["url"] is not None and not str(e["url"]).startswith("http") and hasattr(o, "doc_list")
                and not hasattr(o, "external_url")]


def norm_url(u):
    u = str(u)
    return u if u.startswith("http") else os.path.normpath(u)


A_RE = re.compile(r'^<p><a(?: href="([^"]*)")?>(.*?)</a></p>$', re.S)


def convert(md, base, abstract, ctx_id, text, path=None, after=None):
    """real conversion of one reference; -> ("link", [candidate ids], href, text) | ("plain", text) | ("err", type).
    [after]: an entity id; its documentation is converted first on the same MetaMarkdown instance and the
    reference is then converted *without* reset(), as ford.main does with the summary"""
    import html
    ctx = abstract.objs[ctx_id] if ctx_id is not None else None
    with F.quiet() as buf:
        try:
            if after is not None:
                md.reset().convert("Some text.", context=abstract.objs[after])
                out = md.convert(text, context=ctx, path=path)
            else:
                out = md.reset().convert(text, context=ctx, path=path)
        except Exception as e:  # noqa
            return ("err", type(e).__name__, str(e)[:200])
    m = A_RE.match(out.strip())
    if not m:
        return ("other", out, buf.getvalue()[-200:])
    href, txt = m.group(1), html.unescape(m.group(2))
    if href is None:
        log = buf.getvalue()
        return ("plain", txt, "not-displayed" if "is not displayed" in log else
                "warning" if "Could not substitute link" in log else "no-warning")
    href = html.unescape(href)
    if href.startswith("http"):
        return ("link", abstract.by_url().get(href, []), href, txt)
    cur = md.current_path
    target = os.path.normpath(os.path.join(str(cur), href.split("#")[0]))
    rel = os.path.relpath(target, str(base))
    if "#" in href:
        rel += "#" + href.split("#", 1)[1]
    return ("link", abstract.by_url().get(norm_url(rel), []), rel, txt)
