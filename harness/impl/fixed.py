import io


def run_convert(lines, length_limit=True):
    """lines carry their newline; -> list of converted lines"""
    from ford.fixed2free2 import convertToFree
    try:
        return list(convertToFree(io.StringIO("".join(lines)), length_limit))
    except Exception as e:  # noqa
        return ["EXC:" + type(e).__name__]
