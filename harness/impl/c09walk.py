"""C09 link walker: every URL written into the generated output (href/src/action in HTML, xlink:href in
inline SVG, url fields of the search index) must be relative, stay inside the output directory, name
a file that exists there, and any #fragment must be the id (or <a name>) of an element of the target.

Sound by construction: only URLs that are *syntactically* internal are judged (no scheme, no '//' host
prefix); a fragment is accepted if either its raw or its percent-decoded form is an id of the target
(the HTML standard tries both); links to a directory are accepted when it holds an index.html.
"""
import json
import os
import pathlib
import re
from html.parser import HTMLParser
from urllib.parse import unquote, urlsplit

URL_ATTRS = ("href", "src", "action", "xlink:href", "data", "poster")
SCHEME_RE = re.compile(r"^[A-Za-z][A-Za-z0-9+.\-]*:")


class _Collector(HTMLParser):
    def __init__(self):
        super().__init__(convert_charrefs=True)
        self.links = []     # (tag, attr, value, in_svg, text just before the tag)
        self.ids = set()
        self._svg = 0
        self._gtable = 0        # inside <table class="graph">: a graph drawn as an HTML table
        self._tables = []
        self._text = ""
        self._starts = [0]

    def set_text(self, text):
        self._text = text
        self._starts = [0]
        for i, ch in enumerate(text):
            if ch == "\n":
                self._starts.append(i + 1)

    def before(self, n=40):
        line, col = self.getpos()
        pos = self._starts[line - 1] + col if line - 1 < len(self._starts) else 0
        return " ".join(self._text[max(0, pos - n):pos].split())

    def handle_starttag(self, tag, attrs):
        if tag == "svg":
            self._svg += 1
        if tag == "table":
            isg = any(k == "class" and v and "graph" in v.split() for k, v in attrs)
            self._tables.append(isg)
            self._gtable += isg
        for k, v in attrs:
            if v is None:
                continue
            if k in ("id",) or (k == "name" and tag == "a"):
                self.ids.add(v)
            if k in URL_ATTRS:
                self.links.append((tag, k, v, "svg" if self._svg > 0 else "graph-table" if self._gtable > 0 else "",
                                   self.before()))

    def handle_startendtag(self, tag, attrs):
        self.handle_starttag(tag, attrs)
        if tag == "svg":
            self._svg -= 1

    def handle_endtag(self, tag):
        if tag == "svg" and self._svg:
            self._svg -= 1
        if tag == "table" and self._tables:
            self._gtable -= self._tables.pop()


def parse_html(path):
    c = _Collector()
    try:
        text = pathlib.Path(path).read_text(encoding="utf8", errors="replace")
        c.set_text(text)
        c.feed(text)
        c.close()
    except Exception:  # noqa  (a page the parser chokes on has no judged links)
        pass
    return c


def page_class(rel):
    """template-level class of an output page"""
    parts = pathlib.PurePosixPath(rel).parts
    if len(parts) == 1:
        return parts[0]                        # index.html / search.html
    if parts[0] == "lists":
        return "lists/" + parts[1]
    if parts[0] == "page":
        return "page(depth%d)" % (len(parts) - 1)
    return parts[0] + "/*"                    # proc/*, module/*, sourcefile/* ...


def href_pattern(url):
    """URL with the entity-specific stem abstracted: ../proc/foo.html#variable-x -> ../proc/*.html#variable-*"""
    path, _, frag = url.partition("#")
    pp = path.split("/")
    if pp and pp[-1].endswith(".html") and len(pp) >= 2 and pp[-2] not in ("lists", ".", "..", ""):
        pp[-1] = "*.html"
    elif len(pp) == 1 and pp[0].endswith(".html") and pp[0] not in ("index.html", "search.html"):
        pp[0] = "*.html"            # link to a sibling page in the same directory
    out = "/".join(pp)
    if frag:
        out += "#" + frag.split("-")[0] + "-*"
    return out


def walk(doc_root, search=True, scratch_roots=()):
    """-> (problems, stats)"""
    root = pathlib.Path(doc_root).resolve()
    problems, stats = [], {"pages": 0, "links": 0, "internal": 0, "fragments": 0, "svg": 0, "graph_table": 0,
                           "search_urls": 0, "external": 0, "by_class": {}}
    cache = {}

    def parsed(p):
        if p not in cache:
            cache[p] = parse_html(p)
        return cache[p]

    def judge(src_rel, base_dir, attr, url, in_svg, kind, before=""):
        n0 = len(problems)
        judge1(src_rel, base_dir, attr, url, in_svg, kind)
        for pr in problems[n0:]:
            pr["before"] = before

    def judge1(src_rel, base_dir, attr, url, in_svg, kind):
        stats["links"] += 1
        u = url.strip()
        if u == "" or u == "#":
            return
        if SCHEME_RE.match(u):
            scheme = u.split(":", 1)[0].lower()
            if scheme == "file":
                problems.append(dict(page=src_rel, attr=attr, url=url, problem="absolute", kind=kind))
            else:
                stats["external"] += 1
            return
        if u.startswith("//"):
            stats["external"] += 1
            return
        stats["internal"] += 1
        stats["by_class"][page_class(src_rel)] = stats["by_class"].get(page_class(src_rel), 0) + 1
        if in_svg == "svg":
            stats["svg"] += 1
        if in_svg == "graph-table":
            stats["graph_table"] += 1
        if u.startswith("/") or str(root) in u or any(sr in u for sr in scratch_roots):
            problems.append(dict(page=src_rel, attr=attr, url=url, problem="absolute", kind=kind))
            return
        sp = urlsplit(u)
        path, frag = unquote(sp.path), sp.fragment
        if path == "":
            target = root / src_rel
        else:
            target = pathlib.Path(os.path.normpath(base_dir / path))
        try:
            target.relative_to(root)
        except ValueError:
            problems.append(dict(page=src_rel, attr=attr, url=url, problem="escapes-output-dir", kind=kind))
            return
        if target.is_dir():
            if (target / "index.html").is_file():
                target = target / "index.html"
            else:
                problems.append(dict(page=src_rel, attr=attr, url=url, problem="missing-target", kind=kind))
                return
        if not target.is_file():
            problems.append(dict(page=src_rel, attr=attr, url=url, problem="missing-target", kind=kind))
            return
        if frag and target.suffix == ".html":
            stats["fragments"] += 1
            ids = parsed(target).ids
            if frag not in ids and unquote(frag) not in ids:
                problems.append(dict(page=src_rel, attr=attr, url=url, problem="missing-fragment", kind=kind))

    for p in sorted(root.rglob("*.html")):
        rel = str(p.relative_to(root))
        if rel.split("/")[0] in ("src", "media", "css", "js", "search", "webfonts"):
            continue        # copied verbatim, not written by FORD's templates
        stats["pages"] += 1
        c = parsed(p)
        for tag, attr, val, in_svg, before in c.links:
            judge(rel, p.parent, f"{tag}@{attr}", val, in_svg, in_svg or "html", before)
    db = root / "search" / "search_database.json"
    if db.is_file():
        txt = db.read_text(encoding="utf8")
        try:
            data = json.loads(txt[txt.index("{"):])
            for node in data.get("pages", []):
                stats["search_urls"] += 1
                judge("search.html", root, "search-index@url", str(node.get("url", "")), False, "search-index")
        except Exception as e:  # noqa
            problems.append(dict(page="search/search_database.json", attr="-", url="-",
                                 problem="unreadable-search-index:" + type(e).__name__, kind="search-index"))
    elif search:
        problems.append(dict(page="search/search_database.json", attr="-", url="-", problem="missing-target",
                             kind="search-index"))
    for pr in problems:
        pr["page_class"] = page_class(pr["page"])
        pr["pattern"] = href_pattern(pr["url"])
    return problems, stats
