"""Adapters that run pieces of FORD (from /repo's working tree) on harness inputs."""
import contextlib
import io
import os
import pathlib
import shutil
import subprocess
import sys
import tempfile
import warnings


def _ford():
    import ford
    import ford.sourceform
    import ford.fortran_project
    return ford


@contextlib.contextmanager
def quiet():
    buf = io.StringIO()
    with contextlib.redirect_stdout(buf), contextlib.redirect_stderr(buf), warnings.catch_warnings():
        warnings.simplefilter("ignore")
        yield buf


class Work:
    """A scratch directory holding one rendered project; removed on exit."""

    def __init__(self, files=None):
        self.root = pathlib.Path(tempfile.mkdtemp(prefix="verif_w_"))
        for rel, text in (files or {}).items():
            self.write(rel, text)

    def write(self, rel, text):
        p = self.root / rel
        p.parent.mkdir(parents=True, exist_ok=True)
        if isinstance(text, bytes):
            p.write_bytes(text)
        else:
            p.write_text(text)
        return p

    def __enter__(self):
        return self

    def __exit__(self, *a):
        shutil.rmtree(self.root, ignore_errors=True)


def reset_globals():
    ford = _ford()
    ford.sourceform.namelist = ford.sourceform.NameSelector()


def parse_project(root, src_dirs=("src",), correlate=True, **settings):
    """In-process Project(...) [+ correlate()] on the files below root."""
    ford = _ford()
    from ford.settings import ProjectSettings
    reset_globals()
    kw = dict(src_dir=[pathlib.Path(root) / d for d in src_dirs], preprocess=False, dbg=True,
              output_dir=pathlib.Path(root) / "doc")
    kw.update(settings)
    st = ProjectSettings(**kw)
    st.fpp_extensions = []
    cwd = os.getcwd()
    os.chdir(root)
    try:
        with quiet() as buf:
            p = ford.fortran_project.Project(st)
            if correlate:
                p.correlate()
    finally:
        os.chdir(cwd)
    p._verif_log = buf.getvalue()
    return p


def project_md(options, body="Project docs.\n"):
    lines = ["---"]
    for k, v in options.items():
        if isinstance(v, (list, tuple)):
            lines.append(f"{k}: {v[0]}" if v else f"{k}:")
            for x in v[1:]:
                lines.append(f"    {x}")
        else:
            lines.append(f"{k}: {v}")
    lines.append("---")
    return "\n".join(lines) + "\n\n" + body


def full_run_inprocess(root, options=None, body="Project docs.\n", extra_args=()):
    """ford.parse_arguments + ford.main in this process; returns (project settings, log text, error)."""
    ford = _ford()
    reset_globals()
    opts = {"project": "verif", "src_dir": "./src", "output_dir": "./doc", "preprocess": "false",
            "graph": "false", "search": "false"}
    opts.update(options or {})
    (pathlib.Path(root) / "proj.md").write_text(project_md(opts, body))
    cwd = os.getcwd()
    os.chdir(root)
    err = None
    data = None
    try:
        with quiet() as buf:
            try:
                text = (pathlib.Path(root) / "proj.md").read_text()
                docs, settings = ford.load_settings(text, pathlib.Path(root), "proj.md")
                cli = {"project_file": open(pathlib.Path(root) / "proj.md")}
                cli.update(dict(extra_args) if extra_args else {})
                data, docs = ford.parse_arguments(cli, docs, settings, pathlib.Path(root))
                ford.main(data, docs)
            except SystemExit as e:
                err = f"SystemExit:{e.code}"
            except Exception as e:  # noqa
                err = f"{type(e).__name__}:{e}"
    finally:
        os.chdir(cwd)
    return data, buf.getvalue(), err


def full_run_subprocess(root, options=None, body="Project docs.\n", extra_args=(), env=None, timeout=300):
    opts = {"project": "verif", "src_dir": "./src", "output_dir": "./doc", "preprocess": "false",
            "graph": "false", "search": "false"}
    opts.update(options or {})
    (pathlib.Path(root) / "proj.md").write_text(project_md(opts, body))
    e = dict(os.environ)
    e.update(env or {})
    p = subprocess.run([sys.executable, "-m", "ford", "proj.md", *extra_args], cwd=root, env=e, timeout=timeout,
                       stdout=subprocess.PIPE, stderr=subprocess.STDOUT, text=True, errors="replace")
    return p.returncode, p.stdout
