"""C13 adapter: build FORD's graphs for a parsed project and read (a) the relation from the
correlated objects and (b) the node / edge sets from every graph's DOT source."""
import collections.abc
import re

from harness.core import coq_str, coq_list, coq_bool, coq_opt

CLASSES = {"ModuleGraph": "GModule", "UsesGraph": "GUses", "UsedByGraph": "GUsedBy", "FileGraph": "GFile",
           "EfferentGraph": "GEff", "AfferentGraph": "GAff", "TypeGraph": "GType", "InheritsGraph": "GInherits",
           "InheritedByGraph": "GInheritedBy", "CallGraph": "GCall", "CallsGraph": "GCalls",
           "CalledByGraph": "GCalledBy"}
GROUP = {"GModule": "mod", "GUses": "mod", "GUsedBy": "mod", "GFile": "file", "GEff": "file", "GAff": "file",
         "GType": "type", "GInherits": "type", "GInheritedBy": "type", "GCall": "proc", "GCalls": "proc",
         "GCalledBy": "proc"}
REG_LISTS = ["types", "procedures", "submodprocedures", "modules", "submodules", "programs", "files", "blockdata"]


def graphs_module(patch=True):
    import ford.graphs as g
    if patch:
        g.graphviz_installed = False        # keep graph.dot.source, skip dot.pipe()
    return g


class Spy:
    """Records every FortranGraph in construction order together with the root entities it was given."""

    def __init__(self):
        self.g = graphs_module(patch=False)
        self.log = []

    def __enter__(self):
        g = self.g
        self.orig = g.FortranGraph.__init__
        spy = self

        def init(this, root, data, ident=None):
            roots = root if isinstance(root, collections.abc.Iterable) else [root]
            roots = sorted(list(roots))
            spy.log.append((this, roots))
            return spy.orig(this, root, data, ident)
        g.FortranGraph.__init__ = init
        self.orig_reg = g.GraphData.register
        self.registered = []        # objects handed to GraphData.register from outside (hist is None), in order

        def reg(this, obj, hist=None):
            if hist is None:
                spy.registered.append(obj)
            return spy.orig_reg(this, obj, hist)
        g.GraphData.register = reg
        return self

    def __exit__(self, *a):
        self.g.FortranGraph.__init__ = self.orig
        self.g.GraphData.register = self.orig_reg


def build_graphs(project, show_proc_parent=False, coloured=False):
    """What Documentation.__init__ does with GraphManager (ford/output.py 208-234)."""
    g = graphs_module()
    gm = g.GraphManager("", "..", coloured, show_proc_parent)
    with Spy() as spy:
        for name in REG_LISTS:
            for item in getattr(project, name):
                gm.register(item)
        gm.graph_all()
    return gm, SpyLog(spy.log, spy.registered)


class SpyLog(list):
    """the graphs in construction order; .registered = what was handed to GraphData.register"""

    def __init__(self, log, registered):
        super().__init__(log)
        self.registered = list(registered)


# ------------------------------------------------------------------ DOT source
_ID = r'("(?:[^"\\]|\\.)*"|[^\s\[\]"=;,]+)'
EDGE_RE = re.compile(r"^\s*" + _ID + r"\s*->\s*" + _ID + r"\s*(?:\[(.*)\])?\s*$")
NODE_RE = re.compile(r"^\s*" + _ID + r"\s*(?:\[(.*)\])?\s*$")
ATTR_RE = re.compile(r"(\w+)=" + r'("(?:[^"\\]|\\.)*"|<.*>|[^\s\]]+)')


def unq(x):
    if x.startswith('"') and x.endswith('"'):
        return re.sub(r"\\(.)", r"\1", x[1:-1])
    return x


def parse_dot(src):
    nodes, edges = {}, []
    for line in src.splitlines()[1:]:
        line = line.strip()
        if not line or line == "}" or line.startswith(("graph ", "node ", "edge ", "graph[", "//")):
            continue
        m = EDGE_RE.match(line)
        if m:
            at = {k: unq(v) for k, v in ATTR_RE.findall(m.group(3) or "")}
            edges.append((unq(m.group(1)), unq(m.group(2)), at.get("style", ""), at.get("label", "")))
            continue
        m = NODE_RE.match(line)
        if m:
            at = {k: unq(v) for k, v in ATTR_RE.findall(m.group(2) or "")}
            nodes.setdefault(unq(m.group(1)), at.get("label", unq(m.group(1))))
            continue
        raise ValueError("unparsed DOT line: " + line)
    return nodes, edges


# ------------------------------------------------------------------ the relation, from the objects
class World:
    def __init__(self):
        self.g = graphs_module()
        import ford.sourceform as sf
        self.sf = sf
        self.ids = {}          # key -> id
        self.ents = {}         # id -> dict
        self.ident = {}        # id -> ident string in DOT
        self.by_ident = {}     # (group, ident) -> id
        self.todo = []

    def kind_of(self, obj):
        g = self.g
        if g.is_submodule(obj):
            return "KSubmod"
        if g.is_module(obj):
            return "KMod"
        if g.is_type(obj):
            return "KType"
        if g.is_proc(obj):
            return "KProc"
        if g.is_program(obj):
            return "KProg"
        if g.is_sourcefile(obj):
            return "KFile"
        if g.is_blockdata(obj):
            return "KBlock"
        raise TypeError(type(obj).__name__)

    def is_external(self, obj):
        sf = self.sf
        return isinstance(obj, (sf.ExternalModule, sf.ExternalSubmodule, sf.ExternalType, sf.ExternalBoundProcedure,
                                sf.ExternalSubroutine, sf.ExternalFunction, sf.ExternalInterface,
                                sf.ExternalProgram, sf.ExternalSourceFile))

    def node(self, obj, kind_if_str):
        """id of the node FORD would make for obj (a FORD object or a bare name)"""
        if not isinstance(obj, str) and self.is_external(obj):
            obj = str(obj)
        if isinstance(obj, str):
            m = self.g.HYPERLINK_RE.match(obj)
            name = m.group(2) if m else obj
            grp = {"KMod": "mod", "KSubmod": "mod", "KType": "type", "KProc": "proc", "KProg": "proc",
                   "KFile": "file", "KBlock": "mod"}[kind_if_str]
            key = ("str", grp, name)
            if key not in self.ids:
                i = self.ids[key] = len(self.ids) + 1
                self.ents[i] = dict(kind=kind_if_str, str=True, name=name)
                self.ident[i] = name
                self.by_ident[(grp, name)] = i
            return self.ids[key]
        key = ("obj", id(obj))
        if key not in self.ids:
            i = self.ids[key] = len(self.ids) + 1
            self.ents[i] = None
            self.todo.append((i, obj))
        return self.ids[key]

    def close(self):
        while self.todo:
            i, obj = self.todo.pop()
            self.ents[i] = self.read(i, obj)

    def read(self, i, obj):
        sf = self.sf
        kind = self.kind_of(obj)
        ident = f"{obj.get_dir() or 'none'}~{obj.ident}"
        self.ident[i] = ident
        for grp in ("mod", "type", "proc", "file"):
            self.by_ident[(grp, ident)] = i
        e = dict(kind=kind, str=False, name=obj.name, obj=obj)
        bound = isinstance(obj, sf.FortranBoundProcedure)
        nm = (obj.name or "").lower()
        if kind in ("KMod", "KSubmod"):
            e["key"] = ("mod", nm)
        elif kind == "KProc":
            if bound:
                e["key"] = ("bound", nm, (getattr(getattr(obj, "parent", None), "name", "") or "").lower())
            elif isinstance(obj, sf.FortranInterface):
                e["key"] = ("iface", nm)
            else:
                e["key"] = ("proc", nm)
        else:
            e["key"] = ({"KType": "type", "KProg": "prog", "KBlock": "block", "KFile": "file"}[kind], nm)
        if kind == "KProc":
            if bound:
                binder = getattr(obj, "parent", None)
                parent = getattr(binder, "parent", None)
            else:
                parent = getattr(obj, "parent", None)
                binder = getattr(getattr(obj, "binding", None), "parent", None)
            e["parent"] = parent.name if parent else None
            e["binder"] = binder.name if binder else None
        if kind in ("KMod", "KSubmod", "KProg", "KBlock"):
            e["uses"] = [self.node(u, "KMod") for u in obj.uses]
        elif kind == "KProc":
            e["uses"] = [self.node(u, "KMod") for u in getattr(obj, "uses", [])]
        if kind == "KSubmod":
            anc = obj.parent_submodule if obj.parent_submodule else obj.ancestor_module
            e["anc"] = self.node(anc, "KMod")
        if kind == "KType":
            if obj.extends:
                e["anc"] = self.node(obj.extends, "KType")
            comps = []
            for var in obj.local_variables:
                proto = var.proto[0] if var.proto else None
                if var.vartype not in ("type", "class"):
                    comps.append((var.vartype or "", None, var.name))
                elif proto == "*":
                    comps.append((var.vartype, None, var.name))
                else:
                    comps.append((var.vartype, self.node(proto, "KType"), var.name))
            e["comps"] = comps
        if kind in ("KProc", "KProg"):
            e["calls"] = [self.node(c, "KProc") for c in getattr(obj, "calls", [])]
        if kind == "KProc":
            e["bindings"] = [self.node(c, "KProc") for c in getattr(obj, "bindings", [])]
            e["bound"] = bound
            e["deferred"] = bool(getattr(obj, "deferred", False))
            e["proctype"] = getattr(obj, "proctype", "")
            e["modprocs"] = [self.node(m.procedure, "KProc") for m in getattr(obj, "modprocs", []) if m.procedure]
            if isinstance(obj, sf.FortranModuleProcedureInterface) and \
                    isinstance(obj.procedure.module,
                               (str, sf.FortranProcedure, sf.FortranModuleProcedureImplementation)):
                e["modimpl"] = self.node(obj.procedure.module, "KProc")
        if hasattr(obj, "visible"):
            e["visible"] = bool(obj.visible)
        e["graph"] = bool(getattr(getattr(obj, "meta", None), "graph", True))
        if kind == "KFile":
            deps = []
            for lst in ("modules", "submodules", "functions", "subroutines", "programs", "blockdata"):
                for unit in getattr(obj, lst):
                    for dep in unit.deplist:
                        deps.append(self.node(dep.source_file, "KFile"))
            e["deps"] = deps
        return e

    def gen_world(self, rel, force=()):
        """A second world: same entities and non-relational attributes (kind, names, visible, bound, proctype)
        as read from FORD, but every relation field taken from [rel], the relation the generator wrote into
        the source (harness.gen.graphs.declared).  Entities FORD has and the generator does not know get no
        relations; entities the generator declares and FORD lacks get fresh ids."""
        keyid = {}
        for i, e in self.ents.items():
            if e.get("key") is not None and e["key"] not in keyid:
                keyid[e["key"]] = i
        ents = {}
        nxt = [max(self.ents, default=0)]
        strid = {k[1:]: i for k, i in self.ids.items() if k[0] == "str"}
        todo = []

        def ref(r):
            if r is None:
                return None
            if r[0] == "str":
                key = (r[1], r[2])
                if key not in strid:
                    nxt[0] += 1
                    strid[key] = nxt[0]
                    kind = {"mod": "KMod", "type": "KType", "proc": "KProc", "file": "KFile"}[r[1]]
                    ents[nxt[0]] = dict(kind=kind, str=True, name=r[2])
                return strid[key]
            if r not in keyid:
                nxt[0] += 1
                keyid[r] = nxt[0]
                kind = {"mod": "KMod", "type": "KType", "proc": "KProc", "iface": "KProc", "bound": "KProc",
                        "prog": "KProg", "block": "KBlock", "file": "KFile"}[r[0]]
                extra = {"visible": rel[r]["visible"]} if r in rel and "visible" in rel[r] else {}
                todo.append((nxt[0], dict(kind=kind, str=False, name=r[1], key=r, bound=r[0] == "bound",
                                          proctype="Interface" if r[0] == "iface" else "", **extra)))
            return keyid[r]
        for i, e in self.ents.items():
            todo.append((i, e))
        for k in sorted(force):          # entities that must exist on the Spec side even if nothing refers to them
            ref(k)
        while todo:
            i, e = todo.pop()
            g = dict(e)
            for f in ("uses", "anc", "comps", "calls", "bindings", "modprocs", "modimpl", "deps"):
                g.pop(f, None)
            d = rel.get(e.get("key")) if not e["str"] else None
            if d is not None and keyid.get(e["key"]) == i:
                g["uses"] = [ref(x) for x in d["uses"]]
                g["anc"] = ref(d["anc"])
                g["comps"] = [(vt, ref(pr), n) for vt, pr, n in d["comps"]]
                g["calls"] = [ref(x) for x in d["calls"]]
                g["bindings"] = [ref(x) for x in d["bindings"]]
                g["modprocs"] = [ref(x) for x in d["modprocs"]]
                g["modimpl"] = ref(d["modimpl"])
                g["deps"] = [ref(x) for x in d["deps"]]
            ents[i] = g
        return ents, keyid

    def term(self, ents=None):
        out = []
        ents = self.ents if ents is None else ents
        for i in sorted(ents):
            e = ents[i]
            comps = coq_list(f"({coq_str(vt)}, {coq_opt(p, str)}, {coq_str(n)})" for vt, p, n in e.get("comps", []))
            out.append(
                f"({i}, mkEnt {e['kind']} {coq_bool(e['str'])} {coq_str(e['name'] or '')} "
                f"{coq_opt(e.get('parent'), coq_str)} {coq_opt(e.get('binder'), coq_str)} "
                f"{nats(e.get('uses', []))} {coq_opt(e.get('anc'), str)} {comps} {nats(e.get('calls', []))} "
                f"{nats(e.get('bindings', []))} {coq_opt(e.get('visible'), coq_bool)} {coq_bool(e.get('bound', False))} "
                f"{coq_bool(e.get('deferred', False))} {coq_str(e.get('proctype', ''))} {nats(e.get('modprocs', []))} "
                f"{coq_opt(e.get('modimpl'), str)} {nats(e.get('deps', []))} {coq_bool(e.get('graph', True))})")
        return coq_list(out)


def nats(xs):
    return coq_list(str(x) for x in xs)


def coq_N(n):
    return f"{n}%N"


def coq_nat(n):
    """unary numerals above a few thousand make coqc complain; write them as products"""
    if n <= 500:
        return str(n)
    q, r = divmod(n, 1000)
    return f"({q} * kilo + {r})"


def registered(project):
    """(all entities of the registration lists in order, those with meta.graph)"""
    allv = [it for name in REG_LISTS for it in getattr(project, name)]
    return allv, [it for it in allv if it.meta.graph]


def graph_record(world, gobj, roots):
    cls = CLASSES[type(gobj).__name__]
    grp = GROUP[cls]
    nodes, edges = parse_dot(gobj.dot.source)

    def nid(ident):
        return world.by_ident[(grp, ident)]
    wide = cls in ("GModule", "GType", "GCall", "GFile")
    lims = [(int(r.meta.graph_maxdepth), int(r.meta.graph_maxnodes)) for r in roots
            if hasattr(r, "meta") and not (wide and not r.meta.graph)]
    return dict(
        cls=cls, roots=[world.node(r, "KMod") for r in roots], lims=lims,
        nodes=sorted(nid(n) for n in nodes), labels=sorted((nid(n), lab) for n, lab in nodes.items()),
        edges=sorted((nid(t), nid(h), st == "dashed", lab) for t, h, st, lab in edges),
        styles=sorted({st for _, _, st, _ in edges}),
        added=sorted(nid(n.ident) for n in gobj.added),
        trunc=None if gobj.truncated < 0 else gobj.truncated,
        hop=sorted(nid(n.ident) for n in gobj.hop_nodes), ident=gobj.ident)


def graph_term(r):
    lims = coq_list(f"({coq_nat(d)}, {coq_N(n)})" for d, n in r["lims"])
    edges = coq_list((f"mkE {t} {h} {coq_bool(d)} {coq_str(lab)}" if lab else f"E{'d' if d else 's'} {t} {h}")
                     for t, h, d, lab in r["edges"])
    return (f"(mkQ {r['cls']} {nats(r['roots'])} {lims}, "
            f"mkI {nats(r['nodes'])} {edges} {coq_opt(r['trunc'], str)} {nats(r['hop'])})")


def label_table(runs):
    """(labels term, inconsistencies): one label per node over all graphs of the case"""
    tab, bad = {}, []
    for recs in runs:
        for r in recs:
            for n, lab in r["labels"]:
                if tab.setdefault(n, lab) != lab:
                    bad.append(f"{r['ident']}: node {n} labelled {lab!r} here and {tab[n]!r} elsewhere")
    return coq_list(f"({n}, {coq_str(lab)})" for n, lab in sorted(tab.items())), bad


def collect(project, log):
    """world + graph records of one GraphManager run (log from Spy)"""
    world = World()
    allv, regs = registered(project)
    regs = list(getattr(log, "registered", regs))
    for it in allv + regs:
        world.node(it, "KMod")
    for _, roots in log:
        for r in roots:
            world.node(r, "KMod")
    world.close()
    world.regids = [world.node(r, "KMod") for r in regs]
    recs = [graph_record(world, gobj, roots) for gobj, roots in log]
    return world, regs, recs
