"""Probe FORD's statement classification on single logical lines (C01, cascade layer).

A probe puts one line into a container of a chosen kind and state (after CONTAINS or not, inside a
BLOCK construct or not) and reports, from OUTSIDE the code,
  * which branch of the if/elif chain of FortranContainer.__init__ ran for that line (a line tracer on
    that one function; the branch table -- line numbers of every test and body -- comes from
    translate/t_c01_cascade.py, i.e. from the same source text), and
  * which entities the container gained (its lists before/after, plus interface constructions).
The lines are fed through a list reader that replaces ford.sourceform.FortranReader for the probe, so
the line reaches the chain exactly as given (what the real reader does to a line is C02/C03).
"""
import contextlib
import importlib.util
import io
import os
import pathlib
import sys
import tempfile

VERIF = pathlib.Path(__file__).resolve().parent.parent.parent

KIND_CLASS = {"KFile": "FortranSourceFile", "KModule": "FortranModule", "KSubmodule": "FortranSubmodule",
              "KProgram": "FortranProgram", "KSubroutine": "FortranSubroutine", "KFunction": "FortranFunction",
              "KModProcImpl": "FortranModuleProcedureImplementation", "KType": "FortranType", "KEnum": "FortranEnum",
              "KInterface": "FortranInterface", "KBlockData": "FortranBlockData"}
PROLOGUE = {
    "KFile": [],
    "KModule": ["module probe_m"],
    "KSubmodule": ["submodule (anc) probe_sm"],
    "KProgram": ["program probe_p"],
    "KSubroutine": ["subroutine probe_s"],
    "KFunction": ["function probe_f()"],
    "KModProcImpl": ["submodule (anc) probe_sm", "module procedure probe_mp"],
    "KType": ["module probe_m", "type probe_t"],
    "KEnum": ["module probe_m", "enum, bind(c)"],
    "KInterface": ["module probe_m", "interface probe_i"],
    "KBlockData": ["block data probe_b"],
}
HAS_CALLS = {"KProgram", "KSubroutine", "KFunction", "KModProcImpl"}
CAN_CONTAIN = {"KModule", "KSubmodule", "KProgram", "KSubroutine", "KFunction", "KModProcImpl", "KType"}
# entity lists of a container and the tag (kind of Sem/Tree.v) of what they hold
LISTS = [("modules", "KModule"), ("submodules", "KSubmodule"), ("programs", "KProgram"), ("blockdata", "KBlockData"),
         ("subroutines", "KSubroutine"), ("functions", "KFunction"), ("modprocedures", "KModProcImpl"),
         ("types", "KType"), ("enums", "KEnum"), ("variables", "LVariable"), ("namelists", "LNamelist"),
         ("common", "LCommon"), ("boundprocs", "LBoundProc"), ("finalprocs", "LFinal"), ("modprocs", "LModProcRef"),
         ("uses", "LUse")]
TAIL_KEYS = {"ARITH_GOTO_RE", "CALL_RE", "SUBCALL_RE"}


def _translator():
    spec = importlib.util.spec_from_file_location("t_c01_cascade", VERIF / "translate" / "t_c01_cascade.py")
    mod = importlib.util.module_from_spec(spec)
    spec.loader.exec_module(mod)
    return mod


class ListReader:
    """stands in for FortranReader: the given logical lines, nothing else"""
    lines = []

    def __init__(self, *args, **kwargs):
        self.pending = list(ListReader.lines)
        self.name = "probe.f90"

    def __iter__(self):
        return self

    def __next__(self):
        if not self.pending:
            raise StopIteration
        return self.pending.pop(0)

    def pass_back(self, line):
        self.pending.insert(0, line)


class Prober:
    def __init__(self, repo=None):
        self.info = _translator().analyse(repo)
        import ford.sourceform as sf
        from ford.settings import ProjectSettings
        if pathlib.Path(sf.__file__).resolve() != pathlib.Path(self.info["src"]).resolve():
            raise RuntimeError(f"ford.sourceform imported from {sf.__file__}, branch table is for {self.info['src']}")
        self.sf = sf
        self.settings = ProjectSettings(preprocess=False, dbg=True)
        self.code = sf.FortranContainer.__init__.__code__
        self.loop_first = self.info["loop_first"]
        self.body_of = {}
        for i, br in enumerate(self.info["branches"]):
            for ln in range(br["first"], br["last"] + 1):
                self.body_of[ln] = i
        self.tmpdir = tempfile.mkdtemp(prefix="verif_c01casc_")
        self.path = os.path.join(self.tmpdir, "probe.f90")
        with open(self.path, "w") as fh:
            fh.write("! probe\n")

    def close(self):
        import shutil
        shutil.rmtree(self.tmpdir, ignore_errors=True)

    @staticmethod
    def setup_lines(kind, incontains, level):
        """level: 0 | 1 (inside a BLOCK) | -1 (after a stray END BLOCK)"""
        pro = list(PROLOGUE[kind])
        if kind in HAS_CALLS:
            # an open ASSOCIATE construct, so that "end associate" has something to close
            pro.append("associate (zq => zx)")
        if incontains:
            pro.append("contains")
        if level > 0:
            pro.append("block")
        elif level < 0:
            pro.append("end block")
        return pro

    def _entries(self, obj):
        out = []
        for attr, tag in LISTS:
            for it in getattr(obj, attr, None) or []:
                if tag == "LUse":
                    name = it[0] if isinstance(it, (list, tuple)) else getattr(it, "name", None)
                else:
                    name = it if isinstance(it, str) else getattr(it, "name", None)
                if tag == "KBlockData" and name == "<em>unnamed</em>":
                    name = ""
                out.append((tag, "" if name is None else str(name), id(it)))
        return out

    def probe(self, kind, incontains, level, line):
        """-> dict(branch, created, constructed_interface, raised, container, log)"""
        sf = self.sf
        pro = self.setup_lines(kind, incontains, level)
        ListReader.lines = pro + [line, "end"]
        target = len(pro) + 1
        st = {"count": 0, "frame": None, "active": False, "lines": [], "before": None, "obj": None, "ifaces": []}

        def local(frame, event, arg):
            if event == "line":
                if frame.f_lineno == self.loop_first:
                    st["count"] += 1
                    if st["count"] == target:
                        st["frame"], st["active"] = frame, True
                        st["obj"] = frame.f_locals.get("self")
                        st["before"] = self._entries(st["obj"])
                    elif frame is st["frame"]:
                        st["active"] = False
                elif st["active"] and frame is st["frame"]:
                    st["lines"].append(frame.f_lineno)
            elif event in ("return", "exception") and frame is st["frame"] and event == "return":
                st["active"] = False
            return local

        def tracer(frame, event, arg):
            if frame.f_code is self.code:
                return local
            return None

        orig_base_init = sf.FortranBase.__init__

        def base_init(obj, *a, **k):
            orig_base_init(obj, *a, **k)
            if isinstance(obj, sf.FortranInterface) and st["count"] == target:
                st["ifaces"].append((bool(getattr(obj, "abstract", False)), obj.name or ""))

        orig_reader = sf.FortranReader
        sf.FortranReader = ListReader
        sf.FortranBase.__init__ = base_init
        sf.namelist = sf.NameSelector()
        buf = io.StringIO()
        raised = None
        old = sys.gettrace()
        try:
            with contextlib.redirect_stdout(buf), contextlib.redirect_stderr(buf):
                sys.settrace(tracer)
                try:
                    sf.FortranSourceFile(self.path, self.settings, None, False)
                finally:
                    sys.settrace(old)
        except BaseException as e:  # noqa
            if isinstance(e, (KeyboardInterrupt, SystemExit)):
                raise
            raised = type(e).__name__ + ": " + str(e)[:120]
        finally:
            sf.FortranReader = orig_reader
            sf.FortranBase.__init__ = orig_base_init
        res = {"branch": None, "created": [], "ifaces": st["ifaces"], "raised_in_dispatch": None, "raised": raised,
               "container": type(st["obj"]).__name__ if st["obj"] is not None else None, "log": buf.getvalue()[-400:]}
        if st["obj"] is None:
            res["branch"] = "unreached"
            return res
        fired = [self.body_of[ln] for ln in st["lines"] if ln in self.body_of]
        if fired:
            key = self.info["branches"][fired[0]]["key"]
            res["branch"] = "tail" if key in TAIL_KEYS else key
            res["branch_index"] = fired[0]
        else:
            res["branch"] = "tail"
            res["branch_index"] = None
        before = {e[2] for e in st["before"]}
        res["created"] = sorted((t, n) for t, n, i in self._entries(st["obj"]) if i not in before)
        if raised is not None and st["count"] == target:
            res["raised_in_dispatch"] = raised
        return res
