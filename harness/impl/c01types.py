"""Adapters for the declaration layer of C01: ford.sourceform.parse_type called directly, and
declarations / attribute statements / procedure headers observed on the objects that
ford.sourceform.FortranSourceFile builds for a small unit."""
import contextlib
import io
import os
import shutil
import tempfile


def parse_type_direct(string, strings=()):
    """-> ["ok", vartype, rest, kind, strlen, proto] | ["err", exception name]"""
    import ford.sourceform as sf
    try:
        p = sf.parse_type(string, list(strings), [])
        proto = None
        if p.proto is not None:
            proto = [str(p.proto[0]), str(p.proto[1])] if isinstance(p.proto, (list, tuple)) else [str(p.proto), ""]
        return ["ok", p.vartype, p.rest, p.kind, p.strlen, proto]
    except BaseException as e:  # noqa
        if isinstance(e, (KeyboardInterrupt, SystemExit)):
            raise
        return ["err", type(e).__name__]


def var_dict(v):
    proto = getattr(v, "proto", None)
    if proto is not None:
        proto = [str(getattr(proto[0], "name", proto[0])), str(proto[1])]
    return {"name": v.name, "vartype": v.vartype, "kind": v.kind, "strlen": v.strlen, "proto": proto,
            "attribs": [str(a) for a in (v.attribs or [])], "intent": v.intent or "", "optional": bool(v.optional),
            "permission": v.permission, "parameter": bool(v.parameter), "points": bool(v.points),
            "initial": v.initial, "dimension": v.dimension or ""}


class Parser:
    """parses small files in one scratch directory"""

    def __init__(self):
        self.dir = tempfile.mkdtemp(prefix="verif_c01t_")

    def close(self):
        shutil.rmtree(self.dir, ignore_errors=True)

    def parse(self, text):
        import ford.sourceform as sf
        from ford.settings import ProjectSettings
        p = os.path.join(self.dir, "t.f90")
        with open(p, "w") as fh:
            fh.write(text)
        sf.namelist = sf.NameSelector()
        st = ProjectSettings(preprocess=False, dbg=True)
        buf = io.StringIO()
        try:
            with contextlib.redirect_stdout(buf), contextlib.redirect_stderr(buf):
                f = sf.FortranSourceFile(p, st, None, False)
            return f, buf.getvalue()
        except BaseException as e:  # noqa
            if isinstance(e, (KeyboardInterrupt, SystemExit)):
                raise
            return e, buf.getvalue()

    def module_vars(self, lines):
        """the variables of `module m` whose specification part is `lines`
        -> ["ok", [var]] | ["err", exception name]; a parse error that FORD only prints counts as "printed" """
        f, log = self.parse("module m\n" + "".join(l + "\n" for l in lines) + "end module m\n")
        if isinstance(f, BaseException):
            return ["err", type(f).__name__]
        if len(f.modules) != 1:
            return ["err", "NoModule"]
        return ["ok", [var_dict(v) for v in f.modules[0].variables]]

    def unit(self, kind, header, lines, end):
        """kind: module | subroutine | function
        -> ["ok", {"attribs", "args", "retvar", "vars"}] | ["err", exception name]"""
        import ford.sourceform as sf
        f, log = self.parse(header + "\n" + "".join(l + "\n" for l in lines) + end + "\n")
        if isinstance(f, BaseException):
            return ["err", type(f).__name__]
        units = {"module": f.modules, "subroutine": f.subroutines, "function": f.functions}[kind]
        if len(units) != 1:
            return ["err", "NoUnit"]
        u = units[0]
        out = {"attribs": [str(a) for a in getattr(u, "attribs", [])], "args": [], "retvar": None,
               "vars": [var_dict(v) for v in u.variables]}
        for a in getattr(u, "args", []):
            if not isinstance(a, sf.FortranVariable):
                return ["err", "NonVariableArgument"]
            out["args"].append(var_dict(a))
        rv = getattr(u, "retvar", None)
        if rv is not None:
            if not isinstance(rv, sf.FortranVariable):
                return ["err", "NonVariableResult"]
            out["retvar"] = var_dict(rv)
        return ["ok", out]
