"""C06 adapter: run Project(...).correlate() of the working tree on a rendered module graph with a
forced file order, and read back the name tables, the correlation order and resolved references."""
import contextlib

from harness.impl import fordrun as F

PUB = ["pub_procs", "pub_absints", "pub_types", "pub_vars"]
ALL = ["all_procs", "all_absinterfaces", "all_types", "all_vars"]
KIND_OF_CLASS = {"FortranVariable": {"var"}, "FortranType": {"type"}, "FortranSubroutine": {"proc"},
                 "FortranFunction": {"proc"}, "FortranInterface": {"generic"},
                 "FortranModuleProcedureInterface": {"abs"}}


@contextlib.contextmanager
def forced_order(root, rels):
    """find_all_files returns the given files as a list, so that they are parsed in this order"""
    import ford.fortran_project as fp
    orig = fp.find_all_files
    fp.find_all_files = lambda settings: [root / r for r in rels]
    try:
        yield
    finally:
        fp.find_all_files = orig


@contextlib.contextmanager
def correlate_spy(log):
    import ford.sourceform as sf
    orig = sf.FortranCodeUnit.correlate

    def spy(self, project):
        if type(self) in (sf.FortranModule, sf.FortranProgram):
            log.append(self.name.lower())
        return orig(self, project)
    sf.FortranCodeUnit.correlate = spy
    try:
        yield
    finally:
        sf.FortranCodeUnit.correlate = orig


def ident(obj):
    """(defining module, name) of an entity object, lower-cased"""
    par = getattr(obj, "parent", None)
    return (str(getattr(par, "name", "?")).lower(), str(getattr(obj, "name", "?")).lower())


def observe(units, files, where, unit_order):
    """Run the implementation with the units' files read in `unit_order`.
    Returns (obs, order, problems) or ("EXC:<Type>", None, [])."""
    import ford.sourceform as sf
    rels = [where[n] for n in unit_order]
    log = []
    with F.Work(files) as w:
        with forced_order(w.root, rels), correlate_spy(log):
            try:
                p = F.parse_project(w.root)
            except Exception as e:  # noqa
                return "EXC:" + type(e).__name__, None, [str(e)[:300]]
        problems = []
        if "Error parsing" in p._verif_log or "ERROR" in p._verif_log:
            problems.append("parse: " + p._verif_log[-400:])
        byname = {u["name"].lower(): u for u in units}
        obs_units, refs = [], []
        parsed = list(p.modules) + list(p.programs)
        if [m.name.lower() for m in p.modules] != [n.lower() for n in unit_order if byname[n.lower()]["unit"] == "module"]:
            problems.append("file order not honoured: %s" % [m.name for m in p.modules])
        for m in parsed:
            u = byname.get(m.name.lower())
            if u is None:
                problems.append(f"unexpected unit {m.name}")
                continue
            is_mod = type(m) is sf.FortranModule
            pub = [sorted((k, ident(v)) for k, v in getattr(m, t).items()) for t in PUB] if is_mod else [[], [], [], []]
            al = [sorted((k, ident(v)) for k, v in getattr(m, t).items()) for t in ALL]
            obs_units.append({"name": m.name.lower(), "is_module": is_mod, "pub": pub, "all": al})
            # sanity of the projection: every table value is the object of the right kind, and the
            # own declarations have the permission the abstract program says (C04's domain)
            for t in (PUB if is_mod else []) + ALL:
                for k, v in getattr(m, t).items():
                    dm, dn = ident(v)
                    du = byname.get(dm)
                    dd = next((d for d in (du or {"decls": []})["decls"] if d["name"].lower() == dn), None)
                    if dd is None or dd["kind"] not in KIND_OF_CLASS.get(type(v).__name__, set()):
                        problems.append(f"{m.name}.{t}[{k}] is {type(v).__name__} {dm}.{dn}: not a declared entity of that kind")
            for d in u["decls"]:
                tab = {"var": "all_vars", "type": "all_types", "proc": "all_procs", "generic": "all_procs",
                       "abs": "all_absinterfaces"}[d["kind"]]
                o = getattr(m, tab).get(d["name"].lower())
                if o is None or ident(o) != (m.name.lower(), d["name"].lower()):
                    continue   # shadowed by an import (a clash case); the tables show it
                if o.permission != d["perm"]:
                    problems.append(f"permission of {m.name}.{d['name']}: impl {o.permission}, generator {d['perm']}")
            # resolved references (prototype of variables, extends, calls)
            objs = {}
            for t in ALL:
                for k, v in getattr(m, t).items():
                    objs[id(v)] = v
            for d in u["decls"]:
                r = d.get("ref")
                if not r:
                    continue
                if r["what"] in ("type", "procptr"):
                    v = m.all_vars.get(d["name"].lower())
                    got = v.proto[0] if v is not None and getattr(v, "proto", None) else None
                    cls = "CType" if r["what"] == "type" else "CAbs"
                else:
                    t = m.all_types.get(d["name"].lower())
                    got = getattr(t, "extends", None)
                    cls = "CType"
                refs.append({"unit": m.name.lower(), "cls": cls, "id": r["id"].lower(),
                             "ent": None if (got is None or isinstance(got, str)) else ident(got)})
            if u["calls"]:
                # program.calls keeps one entry per distinct called name, in statement order:
                # the resolved object, or the name as a string when nothing was found
                names = []
                for name in u["calls"]:
                    if name.lower() not in names:
                        names.append(name.lower())
                got = list(getattr(m, "calls", []))
                if len(got) != len(names):
                    problems.append(f"calls of {m.name}: {len(got)} entries for {len(names)} called names")
                else:
                    for key, c in zip(names, got):
                        refs.append({"unit": m.name.lower(), "cls": "CProc", "id": key,
                                     "ent": None if isinstance(c, str) else ident(c)})
        obs_units.sort(key=lambda o: o["name"])
        refs.sort(key=lambda f: (f["unit"], f["cls"], f["id"]))
        return {"units": obs_units, "refs": refs}, log, problems


def html_refs(units, files):
    """Full FORD run (HTML output).  Returns the references of the program unit as its page shows
    them: [{"unit","cls","id","ent"}], or an error string.  A reference counts as resolved when
    the declared type / interface / parent type is rendered as a link; the entity is recovered
    from the linked page (entity names must be unique in the project for this)."""
    import re
    prog = next((u for u in units if u["unit"] == "program"), None)
    if prog is None:
        return []
    owners = {}
    for u in units:
        for d in u["decls"]:
            owners.setdefault((d["kind"], d["name"].lower()), []).append(u["name"].lower())
    if any(len(v) > 1 for v in owners.values()):
        return []
    with F.Work(files) as w:
        data, out, err = F.full_run_inprocess(w.root, {"display": ["public", "private", "protected"]})
        if err:
            return "full run failed: " + err
        page = w.root / "doc" / "program" / (prog["name"].lower() + ".html")
        if not page.exists():
            return "no page for the program"
        text = page.read_text()
    refs = []

    def ent_of(cell, kind, dirname):
        m = re.search(r"<a href='([^']*)'>([^<]*)</a>", cell)
        if not m:
            return None
        mm = re.fullmatch(r"\.\./%s/([^/]+)\.html" % dirname, m.group(1))
        if not mm:
            return ("?", m.group(1))
        name = mm.group(1).lower()
        mods = owners.get((kind, name))
        return (mods[0], name) if mods else ("?", name)

    for d in prog["decls"]:
        r = d.get("ref")
        if not r:
            continue
        if r["what"] in ("type", "procptr"):
            m = re.search(r'id="variable-%s"></span>(.*?)</td>' % re.escape(d["name"].lower()), text, flags=re.S)
            if not m:
                return f"variable {d['name']} not on the program page"
            kind, dirname, cls = ("type", "type", "CType") if r["what"] == "type" else ("abs", "interface", "CAbs")
            refs.append({"unit": prog["name"].lower(), "cls": cls, "id": r["id"].lower(),
                         "ent": ent_of(m.group(1), kind, dirname)})
        else:
            heads = {mm.group(2).lower(): mm.group(1) for mm in re.finditer(
                r"type, extends\((.*?)\)&nbsp;::&nbsp;\s*<a href='[^']*'>(\w+)</a>", text, flags=re.S)}
            if d["name"].lower() not in heads:
                return f"type {d['name']} not on the program page"
            m = re.match(r"(.*)", heads[d["name"].lower()], flags=re.S)
            refs.append({"unit": prog["name"].lower(), "cls": "CType", "id": r["id"].lower(),
                         "ent": ent_of(m.group(1), "type", "type")})
    return refs
