"""C06 adapter: run Project(...).correlate() of the working tree on a rendered module graph with a
forced file order, and read back the name tables, the correlation order and resolved references."""
import contextlib

from harness.impl import fordrun as F
from harness.gen import c06gen as G

PUB = ["pub_procs", "pub_absints", "pub_types", "pub_vars"]
ALL = ["all_procs", "all_absinterfaces", "all_types", "all_vars"]
KIND_OF_CLASS = {"FortranVariable": {"var"}, "FortranType": {"type"}, "FortranSubroutine": {"proc"},
                 "FortranFunction": {"proc"}, "FortranInterface": {"generic"},
                 "FortranModuleProcedureInterface": {"abs", "iface"}}


@contextlib.contextmanager
def forced_order(root, rels):
    """find_all_files returns the given files as a list, so that they are parsed in this order"""
    import pathlib
    import ford.fortran_project as fp

    class OrderedPath(type(pathlib.Path())):
        """a path that sorts by its position in the forced order (Project may sort the file set)"""
        def __lt__(self, other):
            return self._verif_idx < other._verif_idx

    def forced(settings):
        out = []
        for i, r in enumerate(rels):
            q = OrderedPath(root / r)
            q._verif_idx = i
            out.append(q)
        return out
    orig = fp.find_all_files
    fp.find_all_files = forced
    try:
        yield
    finally:
        fp.find_all_files = orig


@contextlib.contextmanager
def correlate_spy(log):
    import ford.sourceform as sf
    orig = sf.FortranCodeUnit.correlate
    orig_bd = sf.FortranBlockData.correlate

    def spy(self, project):
        if type(self) in (sf.FortranModule, sf.FortranProgram):
            log.append(self.name.lower())
        return orig(self, project)

    def spy_bd(self, project):
        log.append(self.name.lower())
        return orig_bd(self, project)
    sf.FortranCodeUnit.correlate = spy
    sf.FortranBlockData.correlate = spy_bd
    try:
        yield
    finally:
        sf.FortranCodeUnit.correlate = orig
        sf.FortranBlockData.correlate = orig_bd


def ident(obj):
    """(enclosing module or program, name) of an entity object, lower-cased"""
    import ford.sourceform as sf
    par = getattr(obj, "parent", None)
    for _ in range(12):
        if par is None or isinstance(par, (sf.FortranModule, sf.FortranProgram, sf.FortranBlockData, sf.FortranSourceFile)):
            break
        par = getattr(par, "parent", None)
    return (str(getattr(par, "name", "?")).lower(), str(getattr(obj, "name", "?")).lower())


def find_scope(unit_obj, path, kinds):
    """the FORD object of a nested scope, following the names of the path"""
    cur = unit_obj
    for name, kind in zip(path, kinds):
        name = name.lower()
        if kind == "genblock":
            pool = [i for i in getattr(cur, "interfaces", []) if getattr(i, "generic", False)]
        elif kind in ("routine", "genbody"):
            pool = list(getattr(cur, "subroutines", [])) + list(getattr(cur, "functions", []))
        elif kind == "ifbody":
            pool = [i.procedure for i in getattr(cur, "interfaces", []) if hasattr(i, "procedure")]
        elif kind == "absbody":
            pool = [i.procedure for i in getattr(cur, "absinterfaces", []) if hasattr(i, "procedure")]
        else:
            return None
        cur = next((x for x in pool if str(x.name).lower() == name), None)
        if cur is None:
            return None
    return cur


def call_refs(scope, unit, cpath, called, refs, problems):
    """The `calls` list of a scope after correlate holds every resolved procedure once (whatever the
    number of names it was called under) and the names that were not resolved as strings.  Per
    called name: unresolved when the name is among the strings; else the entity FORD's own call
    resolution (_find_chain_item) gives for it, which must be in the list."""
    got = list(getattr(scope, "calls", []))
    strings = {c.lower() for c in got if isinstance(c, str)}
    names = []
    for name in called:
        if name.lower() not in names:
            names.append(name.lower())
    for key in names:
        ref = {"unit": unit, "cls": "CProc", "id": key, "ent": None}
        if cpath:
            ref["path"] = cpath
        if key not in strings:
            item = scope._find_chain_item([key])
            if item is None or not any(item is c for c in got):
                problems.append(f"call {key} in {unit}/{'/'.join(cpath)}: neither kept as a string nor resolved to an entry of calls")
                continue
            ref["ent"] = ident(item)
        refs.append(ref)
    extra = [c for c in got if isinstance(c, str) and c.lower() not in names]
    if extra:
        problems.append(f"calls of {unit}/{'/'.join(cpath)} hold names that were not called: {extra}")


def observe(units, files, where, unit_order):
    """Run the implementation with the units' files read in `unit_order`.
    Returns (obs, order, problems) or ("EXC:<Type>", None, [])."""
    import ford.sourceform as sf
    rels = [where[n] for n in unit_order]
    log = []
    with F.Work(files) as w:
        with forced_order(w.root, rels), correlate_spy(log):
            try:
                p = F.parse_project(w.root, proc_internals=True, display=["public", "private", "protected"],
                                    extra_mods=dict(G.EXTRA_MODS))
            except Exception as e:  # noqa
                return "EXC:" + type(e).__name__, None, [str(e)[:300]]
        problems = []
        if "Error parsing" in p._verif_log or "ERROR" in p._verif_log:
            problems.append("parse: " + p._verif_log[-400:])
        byname = {u["name"].lower(): u for u in units}
        obs_units, refs, nested, binds = [], [], [], []

        def note_binds(scope, uses, unit, cpath):
            """what each USEd name of the scope was matched with (scope.uses after correlate: the
            module objects, link objects, or the names left as strings)"""
            got = {}
            for x in getattr(scope, "uses", None) or []:
                if isinstance(x, str):
                    got.setdefault(x.lower(), (0, ""))
                elif isinstance(x, sf.ExternalModule):
                    got.setdefault(x.name.lower(), (2, x.name.lower()))
                else:
                    got.setdefault(x.name.lower(), (1, x.name.lower()))
            for t in sorted({x["target"].lower() for x in uses}):
                if t not in got:
                    problems.append(f"USE of {t} in {unit}/{'/'.join(cpath)} is not in the scope's uses")
                    continue
                binds.append({"unit": unit, "path": cpath, "target": t, "kind": got[t][0], "name": got[t][1],
                              "intr": all(x["prefix"] == "intrinsic" for x in uses if x["target"].lower() == t)})
        parsed = list(p.modules) + list(p.programs) + list(p.blockdata)
        if [m.name.lower() for m in p.modules] != [n.lower() for n in unit_order if byname[n.lower()]["unit"] == "module"]:
            problems.append("file order not honoured: %s" % [m.name for m in p.modules])
        for m in parsed:
            u = byname.get(m.name.lower())
            if u is None:
                problems.append(f"unexpected unit {m.name}")
                continue
            is_mod = type(m) is sf.FortranModule
            pub = [sorted((k, ident(v)) for k, v in getattr(m, t).items()) for t in PUB] if is_mod else [[], [], [], []]
            al = [sorted((k, ident(v)) for k, v in getattr(m, t).items()) for t in ALL]
            obs_units.append({"name": m.name.lower(), "is_module": is_mod, "pub": pub, "all": al})
            note_binds(m, u["uses"], m.name.lower(), [])
            # sanity of the projection: every table value is the object of the right kind, and the
            # own declarations have the permission the abstract program says (C04's domain)
            for t in (PUB if is_mod else []) + ALL:
                for k, v in getattr(m, t).items():
                    dm, dn = ident(v)
                    du = byname.get(dm)
                    dd = next((d for d in (du or {"decls": []})["decls"] if d["name"].lower() == dn), None)
                    if dd is None or dd["kind"] not in KIND_OF_CLASS.get(type(v).__name__, set()):
                        problems.append(f"{m.name}.{t}[{k}] is {type(v).__name__} {dm}.{dn}: not a declared entity of that kind")
            for d in u["decls"]:
                tab = {"var": "all_vars", "type": "all_types", "proc": "all_procs", "generic": "all_procs",
                       "abs": "all_absinterfaces", "iface": "all_procs"}[d["kind"]]
                o = getattr(m, tab).get(d["name"].lower())
                if o is None or ident(o) != (m.name.lower(), d["name"].lower()):
                    continue   # shadowed by an import (a clash case); the tables show it
                if o.permission != d["perm"]:
                    problems.append(f"permission of {m.name}.{d['name']}: impl {o.permission}, generator {d['perm']}")
            # resolved references (prototype of variables, extends, calls)
            objs = {}
            for t in ALL:
                for k, v in getattr(m, t).items():
                    objs[id(v)] = v
            for d in u["decls"]:
                r = d.get("ref")
                if not r:
                    continue
                if r["what"] in ("type", "procptr"):
                    v = m.all_vars.get(d["name"].lower())
                    got = v.proto[0] if v is not None and getattr(v, "proto", None) else None
                    cls = "CType" if r["what"] == "type" else "CAbs"
                else:
                    t = m.all_types.get(d["name"].lower())
                    got = getattr(t, "extends", None)
                    cls = "CType"
                refs.append({"unit": m.name.lower(), "cls": cls, "id": r["id"].lower(),
                             "ent": None if (got is None or isinstance(got, str)) else ident(got)})
            if u["calls"]:
                call_refs(m, m.name.lower(), [], u["calls"], refs, problems)
            # nested scopes: their dictionaries and the references they make
            for path, kinds, nd in G.nested_nodes(u):
                sc = find_scope(m, path, kinds)
                cpath = [x.lower() for x, k in zip(path, kinds) if k != "genblock"]
                if sc is None or not hasattr(sc, "all_types"):
                    problems.append(f"nested scope {m.name}/{'/'.join(path)} not found or not correlated")
                    continue
                nested.append({"unit": m.name.lower(), "path": cpath,
                               "all": [sorted((k, ident(v)) for k, v in getattr(sc, t).items()) for t in ALL]})
                note_binds(sc, nd["uses"], m.name.lower(), cpath)
                local = {v.name.lower(): v for v in list(getattr(sc, "variables", [])) + list(getattr(sc, "args", []))}
                for r in nd["refs"]:
                    if r["what"] == "call":
                        continue
                    v = local.get(r["var"].lower())
                    if v is None:
                        problems.append(f"variable {r['var']} of {m.name}/{'/'.join(path)} not found")
                        continue
                    got = v.proto[0] if getattr(v, "proto", None) else None
                    refs.append({"unit": m.name.lower(), "path": cpath, "cls": "CType" if r["what"] == "type" else "CAbs",
                                 "id": r["id"].lower(), "ent": None if (got is None or isinstance(got, str)) else ident(got)})
                call_refs(sc, m.name.lower(), cpath, [r["id"] for r in nd["refs"] if r["what"] == "call"], refs, problems)
        obs_units.sort(key=lambda o: o["name"])
        refs.sort(key=lambda f: (f["unit"], f.get("path", []), f["cls"], f["id"]))
        nested.sort(key=lambda q: (q["unit"], q["path"]))
        binds.sort(key=lambda b: (b["unit"], b["path"], b["target"]))
        return {"units": obs_units, "refs": refs, "nested": nested, "binds": binds}, log, problems


def html_refs(units, files):
    """Full FORD run (HTML output).  Returns the references of the program unit as its page shows
    them: [{"unit","cls","id","ent"}], or an error string.  A reference counts as resolved when
    the declared type / interface / parent type is rendered as a link; the entity is recovered
    from the linked page (entity names must be unique in the project for this)."""
    import re
    prog = next((u for u in units if u["unit"] == "program"), None)
    if prog is None:
        return []
    owners = {}
    for u in units:
        for d in u["decls"]:
            owners.setdefault((d["kind"], d["name"].lower()), []).append(u["name"].lower())
    if any(len(v) > 1 for v in owners.values()):
        return []
    with F.Work(files) as w:
        data, out, err = F.full_run_inprocess(w.root, {"display": ["public", "private", "protected"],
                                                       "extra_mods": [f"{k}: {v}" for k, v in G.EXTRA_MODS.items()]})
        if err:
            return "full run failed: " + err
        page = w.root / "doc" / "program" / (prog["name"].lower() + ".html")
        if not page.exists():
            return "no page for the program"
        text = page.read_text()
    refs = []

    def ent_of(cell, kind, dirname):
        m = re.search(r"<a href='([^']*)'>([^<]*)</a>", cell)
        if not m:
            return None
        mm = re.fullmatch(r"\.\./%s/([^/]+)\.html" % dirname, m.group(1))
        if not mm:
            return ("?", m.group(1))
        name = mm.group(1).lower()
        mods = owners.get((kind, name))
        return (mods[0], name) if mods else ("?", name)

    for d in prog["decls"]:
        r = d.get("ref")
        if not r:
            continue
        if r["what"] in ("type", "procptr"):
            m = re.search(r'id="variable-%s"></span>(.*?)</td>' % re.escape(d["name"].lower()), text, flags=re.S)
            if not m:
                return f"variable {d['name']} not on the program page"
            kind, dirname, cls = ("type", "type", "CType") if r["what"] == "type" else ("abs", "interface", "CAbs")
            refs.append({"unit": prog["name"].lower(), "cls": cls, "id": r["id"].lower(),
                         "ent": ent_of(m.group(1), kind, dirname)})
        else:
            heads = {mm.group(2).lower(): mm.group(1) for mm in re.finditer(
                r"type, extends\((.*?)\)&nbsp;::&nbsp;\s*<a href='[^']*'>(\w+)</a>", text, flags=re.S)}
            if d["name"].lower() not in heads:
                return f"type {d['name']} not on the program page"
            m = re.match(r"(.*)", heads[d["name"].lower()], flags=re.S)
            refs.append({"unit": prog["name"].lower(), "cls": "CType", "id": r["id"].lower(),
                         "ent": ent_of(m.group(1), "type", "type")})
    return refs
