"""C18 adapters: the real masking / re-insertion code on single statements, Jinja's escape filter, and
whole runs whose pages are parsed and compared cell by cell with the source text."""
import collections
import pathlib
import random
import re

from harness.impl import fordrun as F

NBSP = "\xa0"


# ----------------------------------------------------------------------------- unit adapters

def parse_lines(lines, spy=True, lower=False):
    """parse `module m / <lines> / end module` with the real parser; -> (module, spied calls)
    spied: list of (masked statement, list(parent.strings)) seen by line_to_variables"""
    import ford.sourceform as sf
    calls = []
    orig = sf.line_to_variables

    def wrapper(source, line, inherit_permission, parent):
        calls.append((str(line), list(parent.strings)))
        return orig(source, line, inherit_permission, parent)
    text = "module m\n" + "".join(l + "\n" for l in lines) + "end module m\n"
    with F.Work({"src/m.f90": text}) as w:
        sf.line_to_variables = wrapper
        try:
            p = F.parse_project(w.root, src_dirs=("src",), correlate=False, lower=bool(lower))
        finally:
            sf.line_to_variables = orig
    mods = list(p.modules)
    return (mods[0] if mods else None), calls, p._verif_log


def impl_escape(x):
    import ford.output as fo
    try:
        return str(fo.env.from_string("{{ v|e }}").render(v=x))
    except Exception as e:  # noqa
        return "EXC:" + type(e).__name__


def impl_escape_text(x):
    """ford.sourceform._esc, the text-level escape used by full_type / full_declaration"""
    try:
        import ford.sourceform as sf
        return str(sf._esc(x))
    except Exception as e:  # noqa
        return "EXC:" + type(e).__name__


class _View(__import__("html.parser").parser.HTMLParser):
    def __init__(self):
        super().__init__(convert_charrefs=True)
        self.text, self.tags, self.depth = [], 0, 0

    def handle_starttag(self, tag, attrs):
        if tag == "td" and self.depth == 0:
            self.depth = 1
        else:
            self.tags += 1

    def handle_data(self, data):
        self.text.append(data)


def html_view(x):
    """what Python's HTML parser makes of the fragment x placed in element content: (text, number of start tags)"""
    v = _View()
    v.feed("<td>" + x + "</td>")
    v.close()
    return "".join(v.text), v.tags


# ----------------------------------------------------------------------------- text normalisation

def browser_text(el):
    """visible text of an element roughly as a browser lays it out: white space collapsed, NBSP kept"""
    t = el.get_text()
    t = re.sub(r"[ \t\n\r\f]+", " ", t).strip()
    return t.replace(NBSP, " ")


def lower_outside(text):
    """lower-case the code outside character literals"""
    out, q = [], None
    for c in text:
        if q is None:
            out.append(c if c in "'\"" else c.lower())
            if c in "'\"":
                q = c
        else:
            out.append(c)
            if c == q:
                q = None
    return "".join(out)


def squash(text):
    """drop blanks outside character literals (FORD re-spaces declarations; literal bodies must survive)"""
    out, q = [], None
    for c in text:
        if q is None:
            if c in "'\"":
                q = c
                out.append(c)
            elif c != " ":
                out.append(c)
        else:
            out.append(c)
            if c == q:
                q = None
    return "".join(out)


# ----------------------------------------------------------------------------- whole runs

SITE_OF_COLUMN = {"Type": "macros.html:var.full_type | relurl(page_url)#1",
                  "Attributes": "macros.html:var.attribs | join(\", \") | e#1",
                  "Name": "macros.html:var.dimension | e#1",
                  "Initial": "macros.html:var.initial|e#1"}


def expected_cells(d):
    typ = d["vartype"]
    if d.get("kind"):
        typ += f"(kind={d['kind']})"
    elif d.get("strlen"):
        typ += f"(len={d['strlen']})"
    attrs = list(d.get("attribs", []))
    att = ", ".join(attrs)
    if d.get("parameter"):
        att = "parameter" + (", " + att if att else "")
    return {"Type": typ, "Attributes": att, "Name": d["name"] + (d.get("dim") or ""),
            "Initial": d.get("initial") or ""}


def all_vars(p):
    out = {}
    for d in p["mod_vars"] + p["tvars"]:
        out[d["name"]] = d
    for ps in p["pstmts"]:
        out[ps["name"]] = dict(ps, kind=None, attribs=[], dim=None, parameter=True, form="pstmt")
    for pr in p["procs"]:
        for d in pr["args"] + pr["locals"]:
            out[d["name"]] = d
    if p["iface"]:
        out[p["iface"]["arg"]["name"]] = p["iface"]["arg"]
    return out


def check_pages(doc, p, control_doc=None, lower=False):
    """-> (problems, stats).  problem = dict(page, what, site, name, expected, got, ...)"""
    from bs4 import BeautifulSoup
    doc = pathlib.Path(doc)
    vars_ = all_vars(p)
    problems, stats = [], collections.Counter()
    seen = collections.Counter()
    base_squash = globals()["squash"]

    def squash(text):       # with `lower` on, code outside literals is compared up to letter case
        return lower_outside(base_squash(text)) if lower else base_squash(text)
    exposed, created = collections.Counter(), collections.Counter()

    def markup(text):
        return any(ch in str(text) for ch in "<>&")
    pages = sorted(q for q in doc.rglob("*.html") if q.relative_to(doc).parts[0] in
                   ("module", "type", "proc", "interface", "namelist", "lists", "program"))
    for page in pages:
        rel = str(page.relative_to(doc))
        soup = BeautifulSoup(page.read_text(encoding="utf8"), "html.parser")
        stats["pages"] += 1
        # (b) element structure against the control run
        if control_doc is not None:
            cpage = pathlib.Path(control_doc) / rel
            if not cpage.exists():
                problems.append(dict(page=rel, what="page-missing-in-control", site=None))
            else:
                csoup = BeautifulSoup(cpage.read_text(encoding="utf8"), "html.parser")
                a = collections.Counter(t.name for t in soup.find_all(True))
                b = collections.Counter(t.name for t in csoup.find_all(True))
                stats["pages_structure_compared"] += 1
                if a != b:
                    diff = {k: (a.get(k, 0), b.get(k, 0)) for k in set(a) | set(b) if a.get(k, 0) != b.get(k, 0)}
                    problems.append(dict(page=rel, what="element-structure", site=None, diff=diff))
        # (a) declaration tables
        for table in soup.select("table.varlist"):
            heads = [browser_text(th) for th in table.select("thead th")]
            for tr in table.select("tbody > tr"):
                tds = tr.find_all("td", recursive=False)
                if not heads or len(tds) != len(heads) or "Name" not in heads:
                    continue
                strong = tds[heads.index("Name")].find("strong")
                name = browser_text(strong) if strong else None
                if name not in vars_:
                    continue
                d = vars_[name]
                seen[name] += 1
                exp = expected_cells(d)
                for col in ("Type", "Attributes", "Name", "Initial"):
                    if col not in heads:
                        continue
                    cell = tds[heads.index(col)]
                    got = browser_text(cell).rstrip(",").strip()
                    want = exp[col]
                    stats["cells"] += 1
                    if any(ch in want for ch in "<>&\"'\\") or "  " in want:
                        stats["cells_hostile"] += 1
                    ntags = len([t for t in cell.find_all(True) if t.name not in ("strong", "span", "a")])
                    if markup(want):
                        exposed[SITE_OF_COLUMN[col]] += 1
                        if ntags:
                            created[SITE_OF_COLUMN[col]] += 1
                    if squash(got) != squash(want) or ntags:
                        problems.append(dict(page=rel, what="cell-text", site=SITE_OF_COLUMN[col], column=col,
                                             name=name, form=d.get("form"), expected=want, got=got,
                                             extra_tags=ntags))
        # namelist pages: Name | Type | Default | Description
        for table in soup.select("table"):
            heads = [browser_text(th) for th in table.select("thead th")]
            if heads[:3] != ["Name", "Type", "Default"]:
                continue
            for tr in table.select("tbody > tr"):
                tds = tr.find_all("td", recursive=False)
                if len(tds) < 3:
                    continue
                name = browser_text(tds[0])
                if name not in vars_:
                    continue
                d = vars_[name]
                exp = expected_cells(d)
                for col, idx, site in (("Type", 1, "macros.html:variable.full_type | relurl(page_url)#1"),
                                       ("Initial", 2, "macros.html:variable.initial | e#1")):
                    got = browser_text(tds[idx])
                    if col == "Initial" and got == "None" and not exp[col]:
                        got = ""
                    stats["cells"] += 1
                    if markup(exp[col]):
                        exposed[site] += 1
                        if [x for x in tds[idx].find_all(True) if x.name not in ("a", "span")]:
                            created[site] += 1
                    extra = [x for x in tds[idx].find_all(True) if x.name not in ("a", "span")]
                    if squash(got) != squash(exp[col]) or extra:
                        problems.append(dict(page=rel, what="cell-text", site=site, column="namelist-" + col, name=name,
                                             form=d.get("form"), expected=exp[col], got=got, extra_tags=len(extra)))
        # procedure headings: bind(...) and result(...)
        for pr in p["procs"]:
            for h in soup.find_all(["h2", "h3"]):
                t = browser_text(h)
                if not re.search(rf"\b{pr['kind']}\s+{pr['name']}\s*\(", t):
                    continue
                stats["headings"] += 1
                if pr["bind"]:
                    want = f"bind(c, name={pr['bind']})"
                    ntags = len([x for x in h.find_all(True) if x.name not in ("a", "small", "span", "button")])
                    if markup(want):
                        exposed["macros.html:proc.bindC | e#1"] += 1
                        if ntags:
                            created["macros.html:proc.bindC | e#1"] += 1
                    if squash(want) not in squash(t) or ntags:
                        problems.append(dict(page=rel, what="heading-text", site="macros.html:proc.bindC | e#1",
                                             name=pr["name"], expected=want, got=t, extra_tags=ntags,
                                             blanks="  " in pr["bind"]))
                if pr["ret"] and squash(f"result({pr['ret']['name']})") not in squash(t):
                    problems.append(dict(page=rel, what="heading-text", site="macros.html:proc.retvar.name#1",
                                         name=pr["name"], expected=f"result({pr['ret']['name']})", got=t))
        # return values
        from harness.gen import c18decl as G
        cands = [G.ret_text(pr["ret"]) for pr in p["procs"] if pr["ret"]]
        isite = None
        if p["iface"]:
            cands.append(G.iface_ret_text(p["iface"]))
            isite = {"kind": "nongenint_page.html:var.kind | e#1", "strlen": "nongenint_page.html:var.strlen | e#1",
                     "dimattr": "nongenint_page.html:attrib | e#1", "dim": "nongenint_page.html:var.dimension | e#1",
                     "plain": "nongenint_page.html:var.kind | e#1"}[p["iface"]["retform"]]
        for h in soup.find_all(["h3", "h4"]):
            t = browser_text(h)
            if not t.startswith("Return Value"):
                continue
            stats["return_values"] += 1
            body = t[len("Return Value"):].strip()
            mine = [G.ret_text(pr["ret"]) for pr in p["procs"] if pr["ret"] and rel == f"proc/{pr['name']}.html"]
            ok = any(squash(c).replace(",", "") == squash(body).replace(",", "") for c in (mine or cands))
            if not ok:
                in_tb = h.find_parent(class_="card") is not None and rel.startswith("type/")
                site = (isite if rel.startswith("interface/") else
                        "proc_page.html:procedure.retvar.full_declaration | relurl(page_url)#1" if rel.startswith("proc/")
                        else "macros.html:proc.retvar.full_declaration | relurl(page_url)#2" if in_tb
                        else "macros.html:proc.retvar.full_declaration | relurl(page_url)#1")
                problems.append(dict(page=rel, what="return-value", site=site, expected=cands,
                                     got=body, extra_tags=len(h.find_all(True))))
                if markup(cands):
                    exposed[site] += 1
                    if [x for x in h.find_all(True) if x.name not in ("a", "small", "span")]:
                        created[site] += 1
    for name, d in vars_.items():
        if not seen[name] and d in p["mod_vars"] + p["tvars"]:
            problems.append(dict(page="module/m.html", what="declaration-not-displayed", site=None, name=name,
                                 form=d.get("form"), expected=expected_cells(d)))
    stats["vars_seen"] = sum(1 for n in vars_ if seen[n])
    out = dict(stats)
    out["exposed"], out["created"] = dict(exposed), dict(created)
    return problems, out


def run_project(job):
    """worker: render hostile + control project, run FORD on both, compare.  -> JSON-able dict"""
    from harness.gen import c18decl as G
    rng = random.Random(job["seed"])
    p = job.get("project") or G.gen_project(rng, job.get("mode"))
    res = {"error": None, "problems": [], "stats": {}, "source": None}
    src = G.render_project(p, control=False)
    ctl = G.render_project(p, control=True)
    res["source"] = src
    opts = {"proc_internals": "true", "display": ["public", "private", "protected"], "incl_src": "false",
            "lower": "true" if job.get("lower") else "false"}
    opts.update(job.get("options") or {})
    with F.Work({"src/m.f90": src}) as w, F.Work({"src/m.f90": ctl}) as wc:
        data, out, err = F.full_run_inprocess(w.root, opts)
        if err:
            res["error"] = err + " | " + out[-400:]
            return res
        data2, out2, err2 = F.full_run_inprocess(wc.root, opts)
        if err2:
            res["error"] = "control run: " + err2 + " | " + out2[-400:]
            return res
        if "Error parsing" in out:
            res["error"] = "parse: " + out[out.index("Error parsing"):][:300]
            return res
        probs, stats = check_pages(w.root / "doc", p, wc.root / "doc", lower=bool(job.get("lower")))
        res["problems"], res["stats"] = probs, stats
    res["project"] = p
    return res
