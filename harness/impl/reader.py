"""Adapter: run ford.reader.FortranReader on a list of physical lines."""
import os
import tempfile


def run_reader(lines, marks=("!", ">", "*", "|"), fixed=False, length_limit=True, workdir=None):
    """-> ("ok", [lines]) | ("err", code)"""
    from ford.reader import FortranReader
    d = workdir or tempfile.mkdtemp(prefix="verif_r_")
    p = os.path.join(d, "t.f" if fixed else "t.f90")
    with open(p, "w", newline="\n") as f:
        f.write("".join(l + "\n" for l in lines))
    try:
        try:
            out = list(FortranReader(p, *marks, fixed=fixed, length_limit=length_limit))
            return ("ok", out)
        except ValueError as e:
            m = str(e)
            if "Preceding documentation" in m:
                return ("err", 1)
            if "Alternate documentation" in m:
                return ("err", 3)
            if "Can not start a new line" in m:
                return ("err", 4)
            return ("err", 9)
        except RuntimeError:
            return ("err", 2)
        except IndexError:
            return ("err", 5)
        except Exception:  # noqa
            return ("err", 9)
    finally:
        try:
            os.remove(p)
        except OSError:
            pass
        if workdir is None:
            os.rmdir(d)


def parse_fields(text, lower=False, fname="lit.f90", workdir=None):
    """Parse free-form source text with FortranSourceFile under ProjectSettings(lower=...) and return the texts
    of the parsed entities that can carry character literals:
      ("ok", {"names": [entity names as FORD reports them],
              ("var", name.lower()): {"initial", "strlen", "kind", "attribs"},
              ("param", name.lower()): value, ("proc", name.lower()): bindC})   |   ("err", exception name)
    (NBSP, which FORD puts into initial values, is read as a blank.)"""
    import contextlib
    import io
    import ford.sourceform as sf
    from ford.settings import ProjectSettings
    d = workdir or tempfile.mkdtemp(prefix="verif_p_")
    p = os.path.join(d, fname)
    with open(p, "w", newline="\n") as f:
        f.write(text)
    sf.namelist = sf.NameSelector()
    buf = io.StringIO()

    def clean(v):
        return v.replace("\xa0", " ") if isinstance(v, str) else v

    try:
        try:
            with contextlib.redirect_stdout(buf), contextlib.redirect_stderr(buf):
                fsf = sf.FortranSourceFile(p, ProjectSettings(preprocess=False, dbg=False, lower=lower))
        except BaseException as e:  # noqa
            if isinstance(e, (KeyboardInterrupt, SystemExit)):
                raise
            return ("err", type(e).__name__)
        out = {"names": []}
        for m in fsf.modules:
            out["names"].append(m.name)
            for v in m.variables:
                out["names"].append(v.name)
                out[("var", v.name.lower())] = {"initial": clean(v.initial), "strlen": clean(getattr(v, "strlen", None)),
                                                 "kind": clean(v.kind), "attribs": [clean(a) for a in v.attribs]}
            for k, val in getattr(m, "param_dict", {}).items():
                out[("param", k.lower())] = clean(val)
            for s in list(m.subroutines) + list(m.functions):
                out["names"].append(s.name)
                out[("proc", s.name.lower())] = clean(s.bindC)
        return ("ok", out)
    finally:
        try:
            os.remove(p)
        except OSError:
            pass
        if workdir is None:
            os.rmdir(d)
