"""Adapter: run ford.reader.FortranReader on a list of physical lines."""
import os
import tempfile


def run_reader(lines, marks=("!", ">", "*", "|"), fixed=False, length_limit=True, workdir=None):
    """-> ("ok", [lines]) | ("err", code)"""
    from ford.reader import FortranReader
    d = workdir or tempfile.mkdtemp(prefix="verif_r_")
    p = os.path.join(d, "t.f" if fixed else "t.f90")
    with open(p, "w", newline="\n") as f:
        f.write("".join(l + "\n" for l in lines))
    try:
        try:
            out = list(FortranReader(p, *marks, fixed=fixed, length_limit=length_limit))
            return ("ok", out)
        except ValueError as e:
            m = str(e)
            if "Preceding documentation" in m:
                return ("err", 1)
            if "Alternate documentation" in m:
                return ("err", 3)
            if "Can not start a new line" in m:
                return ("err", 4)
            return ("err", 9)
        except RuntimeError:
            return ("err", 2)
        except IndexError:
            return ("err", 5)
        except Exception:  # noqa
            return ("err", 9)
    finally:
        try:
            os.remove(p)
        except OSError:
            pass
        if workdir is None:
            os.rmdir(d)
