"""C13 generator: a random relation (chains, diamonds, cycles, disconnected parts) realised as a
Fortran project — modules using modules, submodule trees, type extension / composition (with
pointer cycles), procedures calling procedures (recursion, mutual recursion, unknown callees),
generic interfaces, module-procedure interfaces implemented in submodules, type-bound procedures
and generics, internal procedures, programs, external procedures, block data, several files,
per-entity graph metadata.  All names are unique in the project, so the intended relation is
unambiguous."""


def dag(rng, n, shape):
    """edges i -> j with j < i"""
    e = set()
    if shape == "chain":
        e = {(i, i - 1) for i in range(1, n)}
    elif shape == "diamond" and n >= 4:
        e = {(1, 0), (2, 0), (3, 1), (3, 2)} | {(i, rng.randrange(i)) for i in range(4, n)}
    elif shape == "star":
        e = {(i, 0) for i in range(1, n)}
    elif shape == "split":       # two disconnected chains
        h = max(1, n // 2)
        e = {(i, i - 1) for i in range(1, h)} | {(i, i - 1) for i in range(h + 1, n)}
    else:
        for i in range(1, n):
            for j in range(i):
                if rng.random() < 0.35:
                    e.add((i, j))
    return e


def meta_lines(rng, p_meta, allow_false=True):
    out = []
    if rng.random() < p_meta:
        k = rng.random()
        if k < 0.4 and allow_false:
            out.append("graph: false")
        elif k < 0.7:
            out.append(f"graph_maxdepth: {rng.choice([0, 1, 2, 3])}")
        else:
            out.append(f"graph_maxnodes: {rng.choice([1, 2, 3, 4, 6])}")
    return out


def gen(rng, knobs=None):
    """abstract project: dict with units, files and the module USE dag.
    strict (default): every reference in the generated text has one unambiguous meaning under
    Fortran's scoping rules (own module, public entities of directly used modules, host association,
    otherwise an external name), so that [declared] can state the relation the source declares."""
    k = dict(p_meta=0.15, nmods=None, big=False, strict=True)
    k.update(knobs or {})
    strict = k["strict"]
    nm = k["nmods"] or rng.choice([1, 2, 3, 3, 4, 5, 6] if not k["big"] else [6, 8, 10])
    shape = rng.choice(["chain", "diamond", "star", "split", "random", "random"])
    muse = dag(rng, nm, shape)
    direct = {i: {j for (a, j) in muse if a == i} for i in range(nm)}
    closure = {}
    for i in range(nm):
        seen, todo = set(), [i]
        while todo:
            x = todo.pop()
            for y in direct[x]:
                if y not in seen:
                    seen.add(y)
                    todo.append(y)
        closure[i] = seen
    mods = []
    cnt = dict(t=0, p=0)
    alltypes, allprocs = [], []          # (name, module index, public)

    def new_type(i, m, extends=None, comps=(), p_meta=None):
        t = dict(name=f"t{cnt['t']}", extends=extends, comps=list(comps), bound=[], generics=[],
                 public=(not m["private"]) or rng.random() < 0.65,
                 meta=meta_lines(rng, k["p_meta"] if p_meta is None else p_meta))
        cnt["t"] += 1
        m["types"].append(t)
        alltypes.append((t["name"], i, t["public"]))
        return t

    for i in range(nm):
        m = dict(kind="module", name=f"m{i}", uses=sorted(f"m{j}" for j in direct[i]), types=[], procs=[],
                 generics=[], mpis=[], extifs=[], private=rng.random() < 0.3, public=[],
                 meta=meta_lines(rng, k["p_meta"]), ext_uses=[])
        if rng.random() < 0.25:
            m["ext_uses"].append(rng.choice(["extlib", "iso_fortran_env", "iso_c_binding", "mpi"]))

        def type_cands():
            return [n for n, mi, pub in alltypes if mi == i or (mi in direct[i] and (pub or not strict))]
        # an extension tower: vec / vec2 are component types, c0 <- c1 <- c2 <- c3 extend each other, the
        # root has a public and a private derived-type component, a holder is composed of extended types
        if rng.random() < 0.45:
            pm = 0.35
            vec = new_type(i, m, p_meta=pm)
            vec2 = new_type(i, m, p_meta=pm)
            if rng.random() < 0.5:
                vec["comps"].append(("type", vec2["name"], "inner", rng.random() < 0.3))
            c = new_type(i, m, comps=[("type", vec["name"], "v", False), ("class", vec2["name"], "w", True)],
                         p_meta=pm)
            if rng.random() < 0.4:
                c["comps"].append(("integer", None, "n", False))
            if rng.random() < 0.4:
                c["comps"].append(("type", vec["name"], "v2", False))
            chain = [c]
            for d in range(rng.choice([3, 3, 4])):
                comps = []
                r = rng.random()
                if r < 0.3:
                    comps.append(("type", vec2["name"], f"u{d}", rng.random() < 0.5))
                elif r < 0.45:
                    comps.append(("class", chain[0]["name"], f"up{d}", False))
                c = new_type(i, m, extends=chain[-1]["name"], comps=comps, p_meta=pm)
                chain.append(c)
            new_type(i, m, comps=[("type", chain[2]["name"], "h", False), ("class", chain[-1]["name"], "hp", True)],
                     p_meta=pm)
        for _ in range(rng.choice([0, 0, 1, 2, 3])):
            cands = type_cands()
            ext = None
            if cands and rng.random() < 0.5:
                ext = rng.choice(cands)
            elif rng.random() < 0.08:
                ext = "ext_base_t"
            t = new_type(i, m, extends=ext)
            for c in range(rng.choice([0, 0, 1, 2, 3])):
                r = rng.random()
                priv = rng.random() < 0.3
                if r < 0.15:
                    t["comps"].append(("integer", None, f"c{c}", priv))
                elif r < 0.3:
                    t["comps"].append(("type", "ext_t", f"c{c}", priv))
                elif r < 0.45:
                    t["comps"].append((rng.choice(["type", "class"]), t["name"], f"c{c}", priv))     # self cycle
                elif cands:
                    t["comps"].append((rng.choice(["type", "class"]), rng.choice(cands), f"c{c}", priv))
        # mutual composition cycle inside one module
        if len(m["types"]) >= 2 and rng.random() < 0.4:
            a, b = m["types"][-2], m["types"][-1]
            a["comps"].append(("type", b["name"], "fwd", False))
            b["comps"].append(("class", a["name"], "back", False))
        # procedures
        for _ in range(rng.choice([0, 1, 2, 3, 4])):
            p = dict(name=f"p{cnt['p']}", func=rng.random() < 0.3, calls=[], internals=[], this=None, uses=[],
                     meta=meta_lines(rng, k["p_meta"]), obj_calls=[],
                     public=(not m["private"]) or rng.random() < 0.5)
            cnt["p"] += 1
            if rng.random() < 0.12:
                p["meta"].append("proc_internals: " + rng.choice(["true", "false"]))
            m["procs"].append(p)
            allprocs.append((p["name"], i, p["public"]))
        if m["private"]:
            m["public"] = [p["name"] for p in m["procs"] if p["public"]] + \
                          [t["name"] for t in m["types"] if t["public"]]
        mods.append(m)
    extended = {t["extends"] for m in mods for t in m["types"] if t["extends"]}
    # calls
    for i, m in enumerate(mods):
        cands = [n for n, mi, pub in allprocs if mi == i or (mi in direct[i] and (pub or not strict))]
        far = [n for n, mi, pub in allprocs if mi != i and mi not in closure[i]]
        style = rng.choice(["sparse", "dense", "cycle", "none"])
        for p in m["procs"]:
            if style == "none":
                continue
            for c in cands:
                if rng.random() < {"sparse": 0.2, "dense": 0.5, "cycle": 0.15}[style]:
                    p["calls"].append(c)
            if rng.random() < 0.15:
                p["calls"].append(p["name"])                      # recursion
            if rng.random() < 0.15:
                p["calls"].append(rng.choice(["ext_proc", "ext_other"]))
            if rng.random() < 0.1:
                if not strict:
                    p["calls"].append(f"p{rng.randrange(max(1, cnt['p']))}")   # maybe not accessible
                elif far:
                    p["calls"].append(rng.choice(far))        # a name of a module that is not used: external
        if style == "cycle" and len(m["procs"]) >= 2:
            ps = m["procs"]
            for a, b in zip(ps, ps[1:] + ps[:1]):
                a["calls"].append(b["name"])
        # internal procedures (strict: not in a procedure that opted out of graphs, whose internal
        # procedures are documented on its page and left to the implementation)
        for p in m["procs"]:
            if rng.random() < 0.35 and not (strict and "graph: false" in p["meta"]):
                for q in range(rng.choice([1, 2])):
                    ip = dict(name=f"{p['name']}_in{q}", calls=[c for c in cands if rng.random() < 0.25],
                              meta=["graph: false"] if rng.random() < 0.12 else [])
                    if rng.random() < 0.6:
                        p["calls"].append(ip["name"])
                    if p["internals"] and rng.random() < 0.5:
                        ip["calls"].append(p["internals"][0]["name"])
                    p["internals"].append(ip)
                # per-entity proc_internals: switches the documentation of the internal procedures on or
                # off for this procedure, whatever the project-level option says
                if not any(x.startswith("proc_internals") for x in p["meta"]) and rng.random() < 0.5:
                    p["meta"].append("proc_internals: " + rng.choice(["true", "false"]))
            if rng.random() < 0.15 and m["uses"]:
                p["uses"].append(rng.choice(m["uses"]))
            if rng.random() < 0.1:
                p["uses"].append("extlib")
        # type-bound procedures and generics (strict: not on types that are extended, so that no
        # bindings are inherited)
        for t in m["types"]:
            if strict and t["name"] in extended:
                continue
            free = [p for p in m["procs"] if p["this"] is None and not p["func"]]
            rng.shuffle(free)
            for b, p in enumerate(free[:rng.choice([0, 0, 1, 2, 3])]):
                p["this"] = t["name"]
                t["bound"].append((f"{t['name']}_b{b}", p["name"]))
            if not strict and rng.random() < 0.15:
                t["deferred"] = [(f"{t['name']}_d", f"absif{i}")]
                m["absif"] = (f"absif{i}", t["name"])
            if strict and "graph: false" in t["meta"]:
                continue
            if len(t["bound"]) >= 2 and rng.random() < 0.6:
                t["generics"].append((f"{t['name']}_g", [b for b, _ in t["bound"][:2]]))
            elif len(t["bound"]) >= 1 and rng.random() < 0.3:
                t["generics"].append((f"{t['name']}_g", [t["bound"][0][0]]))
            if t["generics"] and rng.random() < 0.15:
                t["gmeta"] = ["graph: false"]
        # calls through objects
        for p in m["procs"]:
            for t in m["types"]:
                names = [b for b, _ in t["bound"]] + [g for g, _ in t["generics"]] + \
                        [b for b, _ in t.get("deferred", [])]
                if names and rng.random() < 0.35:
                    p["obj_calls"].append((t["name"], rng.choice(names)))
        # generic interfaces over module procedures
        plain = [p["name"] for p in m["procs"] if p["this"] is None]
        if len(plain) >= 1 and rng.random() < 0.35:
            m["generics"].append((f"gi{i}", plain[:rng.choice([1, 2])]))
        if rng.random() < 0.15:
            m["extifs"].append(f"xi{i}")
        if rng.random() < 0.35:
            m["mpis"].append(f"sp{i}")
    units = list(mods)
    # submodules
    for i, m in enumerate(mods):
        if rng.random() < 0.4 or m["mpis"]:
            depth = rng.choice([1, 1, 2, 3])
            parent = None
            for d in range(depth):
                s = dict(kind="submodule", name=f"s{i}_{d}", ancestor=m["name"], parent=parent, impl=[], uses=[],
                         meta=meta_lines(rng, k["p_meta"]), impl_style=rng.choice(["subroutine", "procedure"]),
                         calls=[])
                others = [f"m{j}" for j in range(nm) if j < i and (i, j) not in muse]
                if others and rng.random() < 0.3:
                    s["uses"].append(rng.choice(others))
                if d == depth - 1 and rng.random() < 0.85:
                    s["impl"] = list(m["mpis"])
                    s["calls"] = [p["name"] for p in m["procs"] if rng.random() < 0.3]
                units.append(s)
                parent = s["name"]
            if rng.random() < 0.3:      # a sibling branch
                units.append(dict(kind="submodule", name=f"s{i}_x", ancestor=m["name"], parent=None, impl=[],
                                  uses=[], meta=[], impl_style="subroutine", calls=[]))
    if rng.random() < 0.06:
        units.append(dict(kind="submodule", name="s_orphan", ancestor="nomod", parent=None, impl=[], uses=[],
                          meta=[], impl_style="subroutine", calls=[]))
    # programs, external procedures, block data
    for q in range(rng.choice([0, 1, 1, 2])):
        uses = sorted({f"m{rng.randrange(nm)}" for _ in range(rng.choice([0, 1, 2]))})
        acc = [n for n, mi, pub in allprocs if f"m{mi}" in uses and (pub or not strict)]
        pr = dict(kind="program", name=f"prog{q}", uses=uses, calls=[c for c in acc if rng.random() < 0.5],
                  internals=[], meta=meta_lines(rng, k["p_meta"]), ext_uses=[])
        if rng.random() < 0.2:
            pr["calls"].append("ext_proc")
        if rng.random() < 0.4:
            ip = dict(name=f"prog{q}_in", calls=[c for c in acc if rng.random() < 0.4])
            if rng.random() < 0.3:
                ip["calls"].append(ip["name"])
            pr["internals"].append(ip)
            if rng.random() < 0.7:
                pr["calls"].append(ip["name"])
        units.append(pr)
    for q in range(rng.choice([0, 0, 1, 2])):
        uses = sorted({f"m{rng.randrange(nm)}" for _ in range(rng.choice([0, 1]))})
        acc = [n for n, mi, pub in allprocs if f"m{mi}" in uses and (pub or not strict)]
        xp = dict(kind="extproc", name=f"xp{q}", uses=uses, calls=[c for c in acc if rng.random() < 0.5],
                  meta=meta_lines(rng, k["p_meta"]), internals=[])
        if q > 0 and rng.random() < 0.5:
            xp["calls"].append("xp0")
        if rng.random() < 0.3:
            xp["calls"].append(xp["name"])
        if rng.random() < 0.35 and not (strict and "graph: false" in xp["meta"]):
            ip = dict(name=f"xp{q}_in", calls=[c for c in acc if rng.random() < 0.4])
            xp["internals"].append(ip)
            if rng.random() < 0.6:
                xp["calls"].append(ip["name"])
            if rng.random() < 0.5:
                xp["meta"].append("proc_internals: " + rng.choice(["true", "false"]))
        units.append(xp)
    if rng.random() < 0.12:
        units.append(dict(kind="blockdata", name="bd0", uses=[f"m{rng.randrange(nm)}"], meta=[]))
    # files
    nf = rng.choice([1, 2, 3, 4]) if not k["big"] else rng.choice([3, 5])
    files = [[] for _ in range(nf)]
    mode = rng.choice(["one-per-kind", "random", "random"])
    for u in units:
        files[rng.randrange(nf) if mode == "random" else hash_name(u["name"]) % nf].append(u)
    files = [f for f in files if f]
    return dict(files=files, muse=sorted(muse), nm=nm, strict=strict)


def force_shadowing(rng, proj, name=None):
    """Make module m0 a module that FORD could mistake for a foreign one and make sure it is used:
    m1 uses it (module level and in one procedure), a program uses it, both call one of its public
    procedures.  With [name] (mpi, omp_lib, ...: names FORD also knows as intrinsic / third-party modules)
    m0 is renamed to it everywhere; without, the caller passes an extra_mods entry called m0.  A plain
    `use <name>` denotes the project's own module (Fortran: a non-intrinsic module of that name is found
    first; FORD: project modules come before external ones)."""
    units = [u for f in proj["files"] for u in f]
    mods = {u["name"]: u for u in units if u["kind"] == "module"}
    m0, m1 = mods["m0"], mods["m1"]

    def new_proc(n):
        return dict(name=n, func=False, calls=[], internals=[], this=None, uses=[], meta=[], obj_calls=[],
                    public=True)
    target = next((p for p in m0["procs"] if p["public"] and p["this"] is None and not p["func"]), None)
    if target is None:
        target = new_proc("p900")
        m0["procs"].append(target)
        if m0["private"]:
            m0["public"].append(target["name"])
    if "m0" not in m1["uses"]:
        m1["uses"] = sorted(m1["uses"] + ["m0"])
    if not m1["procs"]:
        m1["procs"].append(new_proc("p901"))
        if m1["private"]:
            m1["public"].append("p901")
    caller = m1["procs"][0]
    if target["name"] not in caller["calls"]:
        caller["calls"].append(target["name"])
    if "m0" not in caller["uses"]:
        caller["uses"].append("m0")
    prog = next((u for u in units if u["kind"] == "program"), None)
    if prog is None:
        prog = dict(kind="program", name="prog9", uses=[], calls=[], internals=[], meta=[], ext_uses=[])
        proj["files"][0].append(prog)
        units.append(prog)
    if "m0" not in prog["uses"]:
        prog["uses"] = sorted(prog["uses"] + ["m0"])
    if target["name"] not in prog["calls"]:
        prog["calls"].append(target["name"])
    if name:
        def ren(xs):
            return [name if x == "m0" else x for x in xs]
        for u in units:
            if u["kind"] == "module":
                u["ext_uses"] = [x for x in u["ext_uses"] if x != name]
                for p in u["procs"]:
                    p["uses"] = [x for x in ren(p["uses"]) if not (x == name and u["name"] == "m0")]
            if "uses" in u:
                u["uses"] = ren(u["uses"])
            if u.get("ancestor") == "m0":
                u["ancestor"] = name
        m0["name"] = name
    proj["shadow"] = name or "m0"
    return proj


# ------------------------------------------------------------------ the relation the source declares
def declared(proj, st=None):
    """For a strict project: the relation written in the generated text, independent of FORD.
    Returns (rel, nograph): rel maps an entity key to its raw relations
       uses / anc / comps / calls / bindings / modprocs / modimpl / deps
    whose values are entity keys or ("str", group, name) for names that denote nothing in the project.
    Keys: ("mod", n) modules and submodules, ("type", n), ("proc", n) subroutines, functions, internal
    procedures and submodule implementations, ("iface", n), ("bound", n, type), ("prog", n), ("block", n),
    ("file", basename).  Scoping rules of the generated subset: a name denotes the entity of that name in
    the own host chain (internal procedures of the host, the host, the module's procedures / types, for a
    submodule those of its ancestor module), else a public entity of a directly used module, else a
    top-level external procedure, else nothing (bare name).  Composition = the components declared in the
    type itself.  A file depends on the files defining the modules its units (and their procedures) use
    and on the file of a submodule's parent."""
    assert proj["strict"]
    st = st or {}
    display = [d.lower() for d in st.get("display", ["public", "protected"])]
    project_pi = bool(st.get("proc_internals", False))

    def eff_pi(meta):
        for x in meta:
            if x.startswith("proc_internals:"):
                return x.split(":")[1].strip() == "true"
        return project_pi
    call_roots = set()      # entities the project-wide call graph must expand besides the registered procedures
    units = [u for f in proj["files"] for u in f]
    mods = {u["name"]: u for u in units if u["kind"] == "module"}
    subs = {u["name"]: u for u in units if u["kind"] == "submodule"}
    type_home, proc_home, pub = {}, {}, set()
    for m in mods.values():
        for t in m["types"]:
            type_home[t["name"]] = m["name"]
            if t["public"]:
                pub.add(t["name"])
        for p in m["procs"]:
            proc_home[p["name"]] = m["name"]
            if p["public"]:
                pub.add(p["name"])
    extprocs = {u["name"] for u in units if u["kind"] == "extproc"}
    unit_file = {}
    for fi, f in enumerate(proj["files"]):
        for u in f:
            unit_file[u["name"]] = f"f{fi}.f90"
    rel, nograph = {}, set()

    def ent(key, meta=()):
        rel[key] = dict(uses=[], anc=None, comps=[], calls=[], bindings=[], modprocs=[], modimpl=None, deps=[])
        if "graph: false" in meta:
            nograph.add(key)
        return rel[key]

    def mod_ref(n):
        return ("mod", n) if n in mods or n in subs else ("str", "mod", n)

    def type_ref(n, home, used):
        if n in type_home and (type_home[n] == home or (type_home[n] in used and n in pub)):
            return ("type", n)
        return ("str", "type", n)

    def call_ref(n, local, home, used):
        if n in local:
            return ("proc", n)
        if n in proc_home and (proc_home[n] == home or (proc_home[n] in used and n in pub)):
            return ("proc", n)
        if n in extprocs:
            return ("proc", n)
        return ("str", "proc", n)

    impl_of = {}
    for s in subs.values():
        for x in s["impl"]:
            impl_of[x] = s["name"]
    for m in mods.values():
        home, used = m["name"], set(m["uses"])
        e = ent(("mod", home), m["meta"])
        e["uses"] = [mod_ref(x) for x in m["uses"] + m["ext_uses"]]
        for t in m["types"]:
            te = ent(("type", t["name"]), t["meta"])
            if t["extends"]:
                te["anc"] = type_ref(t["extends"], home, used)
            for vt, proto, name, priv in t["comps"]:
                te["comps"].append((vt, type_ref(proto, home, used) if proto else None, name))
            for b, pn in t["bound"]:
                ent(("bound", b, t["name"]))["bindings"] = [("proc", pn)]
            for g, bs in t["generics"]:
                ent(("bound", g, t["name"]), t.get("gmeta", []))["bindings"] = [("bound", b, t["name"]) for b in bs]
                # a generic binding of a displayed type that draws graphs is a root of the call graph
                if ("public" if t["public"] else "private") in display and "graph: false" not in t["meta"]:
                    call_roots.add(("bound", g, t["name"]))
        for g, ps in m["generics"]:
            ent(("iface", g))["modprocs"] = [("proc", pn) for pn in ps]
        for x in m["extifs"]:
            ent(("iface", x))
        for x in m["mpis"]:
            ent(("iface", x))["modimpl"] = ("proc", x) if x in impl_of else None
        for p in m["procs"]:
            pe = ent(("proc", p["name"]), p["meta"])
            pused = used | set(p["uses"])
            pe["uses"] = [mod_ref(x) for x in p["uses"]]
            local = {p["name"]} | {ip["name"] for ip in p["internals"]}
            pe["calls"] = [call_ref(c, local, home, pused) for c in p["calls"]] + \
                          [("bound", b, tn) for tn, b in p["obj_calls"]]
            # an internal procedure is displayed when its host is, the host documents its internals
            # (its own proc_internals metadata, else the project option) and the permission it inherits
            # from the module's default accessibility is displayed
            shown_ip = (("public" if p["public"] else "private") in display and eff_pi(p["meta"])
                        and ("private" if m["private"] else "public") in display)
            for ip in p["internals"]:
                ie = ent(("proc", ip["name"]), ip.get("meta", []))
                ie["calls"] = [call_ref(c, local, home, pused) for c in ip["calls"]]
                ie["visible"] = shown_ip
                if shown_ip and "graph: false" not in p["meta"]:
                    call_roots.add(("proc", ip["name"]))
    for s in subs.values():
        e = ent(("mod", s["name"]), s["meta"])
        e["uses"] = [mod_ref(x) for x in s["uses"]]
        e["anc"] = mod_ref(s["parent"] or s["ancestor"])
        anc = s["ancestor"]
        used = (set(mods[anc]["uses"]) if anc in mods else set()) | set(s["uses"])
        for x in s["impl"]:
            ent(("proc", x))["calls"] = [call_ref(c, {x}, anc, used) for c in s["calls"]]
    for u in units:
        if u["kind"] in ("program", "extproc"):
            key = ("prog" if u["kind"] == "program" else "proc", u["name"])
            e = ent(key, u["meta"])
            e["uses"] = [mod_ref(x) for x in u["uses"]]
            local = {ip["name"] for ip in u["internals"]} | ({u["name"]} if u["kind"] == "extproc" else set())
            e["calls"] = [call_ref(c, local, None, set(u["uses"])) for c in u["calls"]]
            # internal procedures of a program are always displayed (and registered themselves); those of
            # an external procedure when it documents its internals
            shown_ip = u["kind"] == "program" or eff_pi(u["meta"])
            for ip in u["internals"]:
                ie = ent(("proc", ip["name"]))
                ie["calls"] = [call_ref(c, local, None, set(u["uses"])) for c in ip["calls"]]
                ie["visible"] = shown_ip
                if shown_ip and "graph: false" not in u["meta"]:
                    call_roots.add(("proc", ip["name"]))
        elif u["kind"] == "blockdata":
            ent(("block", u["name"]), u["meta"])["uses"] = [mod_ref(x) for x in u["uses"]]
    # files
    for fi, f in enumerate(proj["files"]):
        fe = ent(("file", f"f{fi}.f90"))
        for u in f:
            needs = list(u.get("uses", []))
            if u["kind"] == "module":
                for p in u["procs"]:
                    needs += p["uses"]
            if u["kind"] == "submodule":
                needs.append(u["parent"] or u["ancestor"])
            for n in needs:
                if n in unit_file:
                    fe["deps"].append(("file", unit_file[n]))
    return rel, nograph, call_roots


def hash_name(n):
    return sum(map(ord, n))


def doc(lines, ind):
    return [f"{ind}!! {x}" for x in lines]


def render_proc_body(p, ind, types_here):
    out = []
    decl = []
    for tname, b in p.get("obj_calls", []):
        decl.append(f"{ind}  type({tname}) :: o_{tname}")
    out += sorted(set(decl))
    for c in p.get("calls", []):
        out.append(f"{ind}  call {c}()")
    for tname, b in p.get("obj_calls", []):
        out.append(f"{ind}  call o_{tname}%{b}()")
    return out


def render_internal(ips, ind):
    out = []
    if ips:
        out.append(f"{ind}contains")
        for ip in ips:
            out.append(f"{ind}  subroutine {ip['name']}()")
            out += doc(ip.get("meta", []), ind + "    ")
            for c in ip["calls"]:
                out.append(f"{ind}    call {c}()")
            out.append(f"{ind}  end subroutine {ip['name']}")
    return out


def render_unit(u):
    o = []
    kind = u["kind"]
    if kind == "module":
        o.append(f"module {u['name']}")
        o += doc(u["meta"], "  ")
        for x in u["uses"] + u["ext_uses"]:
            o.append(f"  use {x}")
        o.append("  implicit none")
        if u["private"]:
            o.append("  private")
            if u["public"]:
                o.append("  public :: " + ", ".join(u["public"]))
        for t in u["types"]:
            ext = f", extends({t['extends']})" if t["extends"] else ""
            if t.get("deferred"):
                ext += ", abstract"
            o.append(f"  type{ext} :: {t['name']}")
            o += doc(t["meta"], "    ")
            for vt, proto, name, priv in t["comps"]:
                pr = ", private" if priv else ""
                if proto is None:
                    o.append(f"    {vt}{pr} :: {name}")
                else:
                    o.append(f"    {vt}({proto}), pointer{pr} :: {name}")
            if t["bound"] or t["generics"] or t.get("deferred"):
                o.append("  contains")
                for b, ifc in t.get("deferred", []):
                    o.append(f"    procedure({ifc}), deferred :: {b}")
                for b, p in t["bound"]:
                    o.append(f"    procedure :: {b} => {p}")
                for g, bs in t["generics"]:
                    o.append(f"    generic :: {g} => " + ", ".join(bs))
                    o += doc(t.get("gmeta", []), "      ")
            o.append(f"  end type {t['name']}")
        for g, ps in u["generics"]:
            o.append(f"  interface {g}")
            o.append("    module procedure " + ", ".join(ps))
            o.append(f"  end interface {g}")
        if u.get("absif"):
            ifc, tn = u["absif"]
            o += ["  abstract interface", f"    subroutine {ifc}(this)", f"      import {tn}",
                  f"      class({tn}) :: this", f"    end subroutine {ifc}", "  end interface"]
        if u["extifs"] or u["mpis"]:
            o.append("  interface")
            for x in u["extifs"]:
                o += [f"    subroutine {x}()", f"    end subroutine {x}"]
            for x in u["mpis"]:
                o += [f"    module subroutine {x}()", f"    end subroutine {x}"]
            o.append("  end interface")
        if u["procs"]:
            o.append("contains")
        for p in u["procs"]:
            args = "(this)" if p["this"] else "()"
            if p["func"]:
                o.append(f"  function {p['name']}() result(r)")
            else:
                o.append(f"  subroutine {p['name']}{args}")
            o += doc(p["meta"], "    ")
            for x in p["uses"]:
                o.append(f"    use {x}")
            if p["this"]:
                o.append(f"    class({p['this']}) :: this")
            if p["func"]:
                o.append("    integer :: r")
            o += render_proc_body(p, "  ", None)
            if p["func"]:
                o.append("    r = 1")
            o += render_internal(p["internals"], "  ")
            o.append(f"  end {'function' if p['func'] else 'subroutine'} {p['name']}")
        o.append(f"end module {u['name']}")
    elif kind == "submodule":
        par = f"{u['ancestor']}:{u['parent']}" if u["parent"] else u["ancestor"]
        o.append(f"submodule ({par}) {u['name']}")
        o += doc(u["meta"], "  ")
        for x in u["uses"]:
            o.append(f"  use {x}")
        if u["impl"]:
            o.append("contains")
            for x in u["impl"]:
                if u["impl_style"] == "subroutine":
                    o.append(f"  module subroutine {x}()")
                    for c in u["calls"]:
                        o.append(f"    call {c}()")
                    o.append(f"  end subroutine {x}")
                else:
                    o.append(f"  module procedure {x}")
                    for c in u["calls"]:
                        o.append(f"    call {c}()")
                    o.append(f"  end procedure {x}")
        o.append(f"end submodule {u['name']}")
    elif kind == "program":
        o.append(f"program {u['name']}")
        o += doc(u["meta"], "  ")
        for x in u["uses"]:
            o.append(f"  use {x}")
        o.append("  implicit none")
        for c in u["calls"]:
            o.append(f"  call {c}()")
        o += render_internal(u["internals"], "")
        o.append(f"end program {u['name']}")
    elif kind == "extproc":
        o.append(f"subroutine {u['name']}()")
        o += doc(u["meta"], "  ")
        for x in u["uses"]:
            o.append(f"  use {x}")
        for c in u["calls"]:
            o.append(f"  call {c}()")
        o += render_internal(u.get("internals", []), "")
        o.append(f"end subroutine {u['name']}")
    elif kind == "blockdata":
        o.append(f"block data {u['name']}")
        for x in u["uses"]:
            o.append(f"  use {x}")
        o.append(f"end block data {u['name']}")
    return o


def render(proj):
    files = {}
    for i, units in enumerate(proj["files"]):
        lines = []
        for u in units:
            lines += render_unit(u) + [""]
        files[f"src/f{i}.f90"] = "\n".join(lines) + "\n"
    return files


def intended(proj):
    """relations that are unambiguous in the generated text: (kind, tail, head)"""
    rel = set()
    for units in proj["files"]:
        for u in units:
            if u["kind"] == "module":
                for x in u["uses"] + u["ext_uses"]:
                    rel.add(("uses", u["name"], x))
                for t in u["types"]:
                    if t["extends"]:
                        rel.add(("extends", t["name"], t["extends"]))
                    for vt, proto, name, priv in t["comps"]:
                        if proto is not None:
                            rel.add(("comp", t["name"], proto))
            elif u["kind"] == "submodule":
                rel.add(("anc", u["name"], u["parent"] or u["ancestor"]))
                for x in u["uses"]:
                    rel.add(("uses", u["name"], x))
            elif u["kind"] == "program":
                for x in u["uses"]:
                    rel.add(("uses", u["name"], x))
    return rel


def settings(rng):
    st = {}
    if rng.random() < 0.6:
        st["graph_maxdepth"] = rng.choice([0, 1, 1, 2, 3, 5])
    if rng.random() < 0.5:
        st["graph_maxnodes"] = rng.choice([1, 2, 3, 4, 5, 6, 8, 12, 20])
    st["show_proc_parent"] = rng.random() < 0.5
    st["proc_internals"] = rng.random() < 0.5
    if rng.random() < 0.4:
        st["display"] = ["public", "private", "protected"]
    return st
