"""C13 generator: a random relation (chains, diamonds, cycles, disconnected parts) realised as a
Fortran project — modules using modules, submodule trees, type extension / composition (with
pointer cycles), procedures calling procedures (recursion, mutual recursion, unknown callees),
generic interfaces, module-procedure interfaces implemented in submodules, type-bound procedures
and generics, internal procedures, programs, external procedures, block data, several files,
per-entity graph metadata.  All names are unique in the project, so the intended relation is
unambiguous."""


def dag(rng, n, shape):
    """edges i -> j with j < i"""
    e = set()
    if shape == "chain":
        e = {(i, i - 1) for i in range(1, n)}
    elif shape == "diamond" and n >= 4:
        e = {(1, 0), (2, 0), (3, 1), (3, 2)} | {(i, rng.randrange(i)) for i in range(4, n)}
    elif shape == "star":
        e = {(i, 0) for i in range(1, n)}
    elif shape == "split":       # two disconnected chains
        h = max(1, n // 2)
        e = {(i, i - 1) for i in range(1, h)} | {(i, i - 1) for i in range(h + 1, n)}
    else:
        for i in range(1, n):
            for j in range(i):
                if rng.random() < 0.35:
                    e.add((i, j))
    return e


def meta_lines(rng, p_meta, allow_false=True):
    out = []
    if rng.random() < p_meta:
        k = rng.random()
        if k < 0.4 and allow_false:
            out.append("graph: false")
        elif k < 0.7:
            out.append(f"graph_maxdepth: {rng.choice([0, 1, 2, 3])}")
        else:
            out.append(f"graph_maxnodes: {rng.choice([1, 2, 3, 4, 6])}")
    return out


def gen(rng, knobs=None):
    """abstract project: dict with units, files and the intended relation"""
    k = dict(p_meta=0.15, nmods=None, big=False)
    k.update(knobs or {})
    nm = k["nmods"] or rng.choice([1, 2, 3, 3, 4, 5, 6] if not k["big"] else [6, 8, 10])
    shape = rng.choice(["chain", "diamond", "star", "split", "random", "random"])
    muse = dag(rng, nm, shape)
    mods = []
    tcount = pcount = 0
    alltypes, allprocs = [], []          # (name, module index)
    for i in range(nm):
        m = dict(kind="module", name=f"m{i}", uses=sorted(f"m{j}" for (a, j) in muse if a == i), types=[], procs=[],
                 generics=[], mpis=[], extifs=[], private=rng.random() < 0.25, public=[],
                 meta=meta_lines(rng, k["p_meta"]), ext_uses=[])
        if rng.random() < 0.25:
            m["ext_uses"].append(rng.choice(["extlib", "iso_fortran_env", "iso_c_binding", "mpi"]))
        visible_mods = {i} | {j for (a, j) in muse if a == i}
        # types
        for _ in range(rng.choice([0, 0, 1, 2, 3])):
            t = dict(name=f"t{tcount}", extends=None, comps=[], bound=[], generics=[], meta=meta_lines(rng, k["p_meta"]))
            tcount += 1
            cands = [n for n, mi in alltypes if mi in visible_mods]
            if cands and rng.random() < 0.5:
                t["extends"] = rng.choice(cands)
            elif rng.random() < 0.08:
                t["extends"] = "ext_base_t"
            for c in range(rng.choice([0, 0, 1, 2, 3])):
                r = rng.random()
                if r < 0.15:
                    t["comps"].append(("integer", None, f"c{c}"))
                elif r < 0.3:
                    t["comps"].append(("type", "ext_t", f"c{c}"))
                elif r < 0.45:
                    t["comps"].append((rng.choice(["type", "class"]), t["name"], f"c{c}"))     # self cycle
                elif cands:
                    t["comps"].append((rng.choice(["type", "class"]), rng.choice(cands), f"c{c}"))
            m["types"].append(t)
            alltypes.append((t["name"], i))
        # mutual composition cycle inside one module
        if len(m["types"]) >= 2 and rng.random() < 0.4:
            a, b = m["types"][0], m["types"][1]
            a["comps"].append(("type", b["name"], "fwd"))
            b["comps"].append(("class", a["name"], "back"))
        # procedures
        for _ in range(rng.choice([0, 1, 2, 3, 4])):
            p = dict(name=f"p{pcount}", func=rng.random() < 0.3, calls=[], internals=[], this=None, uses=[],
                     meta=meta_lines(rng, k["p_meta"]), obj_calls=[])
            pcount += 1
            if rng.random() < 0.12:
                p["meta"].append("proc_internals: " + rng.choice(["true", "false"]))
            m["procs"].append(p)
            allprocs.append((p["name"], i))
        if m["private"]:
            m["public"] = [p["name"] for p in m["procs"] if rng.random() < 0.5] + \
                          [t["name"] for t in m["types"] if rng.random() < 0.7]
        mods.append(m)
    # calls
    for i, m in enumerate(mods):
        visible_mods = {i} | {j for (a, j) in muse if a == i}
        cands = [n for n, mi in allprocs if mi in visible_mods]
        style = rng.choice(["sparse", "dense", "cycle", "none"])
        for p in m["procs"]:
            if style == "none":
                continue
            for c in cands:
                if rng.random() < {"sparse": 0.2, "dense": 0.5, "cycle": 0.15}[style]:
                    p["calls"].append(c)
            if rng.random() < 0.15:
                p["calls"].append(p["name"])                      # recursion
            if rng.random() < 0.15:
                p["calls"].append(rng.choice(["ext_proc", "ext_other"]))
            if rng.random() < 0.1:
                p["calls"].append(f"p{rng.randrange(max(1, pcount))}")   # maybe not accessible -> unresolved
        if style == "cycle" and len(m["procs"]) >= 2:
            ps = m["procs"]
            for a, b in zip(ps, ps[1:] + ps[:1]):
                a["calls"].append(b["name"])
        # internal procedures
        for p in m["procs"]:
            if rng.random() < 0.3:
                for q in range(rng.choice([1, 2])):
                    ip = dict(name=f"{p['name']}_in{q}", calls=[c for c in cands if rng.random() < 0.25])
                    if rng.random() < 0.6:
                        p["calls"].append(ip["name"])
                    if p["internals"] and rng.random() < 0.5:
                        ip["calls"].append(p["internals"][0]["name"])
                    p["internals"].append(ip)
            if rng.random() < 0.15 and m["uses"]:
                p["uses"].append(rng.choice(m["uses"]))
            if rng.random() < 0.1:
                p["uses"].append("extlib")
        # type-bound procedures and generics
        for t in m["types"]:
            free = [p for p in m["procs"] if p["this"] is None and not p["func"]]
            rng.shuffle(free)
            for b, p in enumerate(free[:rng.choice([0, 0, 1, 2, 3])]):
                p["this"] = t["name"]
                t["bound"].append((f"{t['name']}_b{b}", p["name"]))
            if rng.random() < 0.15:
                t["deferred"] = [(f"{t['name']}_d", f"absif{i}")]
                m["absif"] = (f"absif{i}", t["name"])
            if len(t["bound"]) >= 2 and rng.random() < 0.6:
                t["generics"].append((f"{t['name']}_g", [b for b, _ in t["bound"][:2]]))
            elif len(t["bound"]) >= 1 and rng.random() < 0.3:
                t["generics"].append((f"{t['name']}_g", [t["bound"][0][0]]))
        # calls through objects
        for p in m["procs"]:
            for t in m["types"]:
                names = [b for b, _ in t["bound"]] + [g for g, _ in t["generics"]] + \
                        [b for b, _ in t.get("deferred", [])]
                if names and rng.random() < 0.35:
                    p["obj_calls"].append((t["name"], rng.choice(names)))
        # generic interfaces over module procedures
        plain = [p["name"] for p in m["procs"] if p["this"] is None]
        if len(plain) >= 1 and rng.random() < 0.35:
            m["generics"].append((f"gi{i}", plain[:rng.choice([1, 2])]))
        if rng.random() < 0.15:
            m["extifs"].append(f"xi{i}")
        if rng.random() < 0.35:
            m["mpis"].append(f"sp{i}")
    units = list(mods)
    # submodules
    for i, m in enumerate(mods):
        if rng.random() < 0.4 or m["mpis"]:
            depth = rng.choice([1, 1, 2, 3])
            parent = None
            for d in range(depth):
                s = dict(kind="submodule", name=f"s{i}_{d}", ancestor=m["name"], parent=parent, impl=[], uses=[],
                         meta=meta_lines(rng, k["p_meta"]), impl_style=rng.choice(["subroutine", "procedure"]),
                         calls=[])
                others = [f"m{j}" for j in range(nm) if j < i and (i, j) not in muse]
                if others and rng.random() < 0.3:
                    s["uses"].append(rng.choice(others))
                if d == depth - 1 and rng.random() < 0.85:
                    s["impl"] = list(m["mpis"])
                    s["calls"] = [p["name"] for p in m["procs"] if rng.random() < 0.3]
                units.append(s)
                parent = s["name"]
            if rng.random() < 0.3:      # a sibling branch
                units.append(dict(kind="submodule", name=f"s{i}_x", ancestor=m["name"], parent=None, impl=[],
                                  uses=[], meta=[], impl_style="subroutine", calls=[]))
    if rng.random() < 0.06:
        units.append(dict(kind="submodule", name="s_orphan", ancestor="nomod", parent=None, impl=[], uses=[],
                          meta=[], impl_style="subroutine", calls=[]))
    # programs, external procedures, block data
    for q in range(rng.choice([0, 1, 1, 2])):
        uses = sorted({f"m{rng.randrange(nm)}" for _ in range(rng.choice([0, 1, 2]))})
        acc = [n for n, mi in allprocs if f"m{mi}" in uses]
        pr = dict(kind="program", name=f"prog{q}", uses=uses, calls=[c for c in acc if rng.random() < 0.5],
                  internals=[], meta=meta_lines(rng, k["p_meta"]), ext_uses=[])
        if rng.random() < 0.2:
            pr["calls"].append("ext_proc")
        if rng.random() < 0.4:
            ip = dict(name=f"prog{q}_in", calls=[c for c in acc if rng.random() < 0.4])
            if rng.random() < 0.3:
                ip["calls"].append(ip["name"])
            pr["internals"].append(ip)
            if rng.random() < 0.7:
                pr["calls"].append(ip["name"])
        units.append(pr)
    for q in range(rng.choice([0, 0, 1, 2])):
        uses = sorted({f"m{rng.randrange(nm)}" for _ in range(rng.choice([0, 1]))})
        acc = [n for n, mi in allprocs if f"m{mi}" in uses]
        xp = dict(kind="extproc", name=f"xp{q}", uses=uses, calls=[c for c in acc if rng.random() < 0.5],
                  meta=meta_lines(rng, k["p_meta"]))
        if q > 0 and rng.random() < 0.5:
            xp["calls"].append("xp0")
        if rng.random() < 0.3:
            xp["calls"].append(xp["name"])
        units.append(xp)
    if rng.random() < 0.12:
        units.append(dict(kind="blockdata", name="bd0", uses=[f"m{rng.randrange(nm)}"], meta=[]))
    # files
    nf = rng.choice([1, 2, 3, 4]) if not k["big"] else rng.choice([3, 5])
    files = [[] for _ in range(nf)]
    mode = rng.choice(["one-per-kind", "random", "random"])
    for u in units:
        files[rng.randrange(nf) if mode == "random" else hash_name(u["name"]) % nf].append(u)
    files = [f for f in files if f]
    return dict(files=files, muse=sorted(muse), nm=nm)


def hash_name(n):
    return sum(map(ord, n))


def doc(lines, ind):
    return [f"{ind}!! {x}" for x in lines]


def render_proc_body(p, ind, types_here):
    out = []
    decl = []
    for tname, b in p.get("obj_calls", []):
        decl.append(f"{ind}  type({tname}) :: o_{tname}")
    out += sorted(set(decl))
    for c in p.get("calls", []):
        out.append(f"{ind}  call {c}()")
    for tname, b in p.get("obj_calls", []):
        out.append(f"{ind}  call o_{tname}%{b}()")
    return out


def render_internal(ips, ind):
    out = []
    if ips:
        out.append(f"{ind}contains")
        for ip in ips:
            out.append(f"{ind}  subroutine {ip['name']}()")
            for c in ip["calls"]:
                out.append(f"{ind}    call {c}()")
            out.append(f"{ind}  end subroutine {ip['name']}")
    return out


def render_unit(u):
    o = []
    kind = u["kind"]
    if kind == "module":
        o.append(f"module {u['name']}")
        o += doc(u["meta"], "  ")
        for x in u["uses"] + u["ext_uses"]:
            o.append(f"  use {x}")
        o.append("  implicit none")
        if u["private"]:
            o.append("  private")
            if u["public"]:
                o.append("  public :: " + ", ".join(u["public"]))
        for t in u["types"]:
            ext = f", extends({t['extends']})" if t["extends"] else ""
            if t.get("deferred"):
                ext += ", abstract"
            o.append(f"  type{ext} :: {t['name']}")
            o += doc(t["meta"], "    ")
            for vt, proto, name in t["comps"]:
                if proto is None:
                    o.append(f"    {vt} :: {name}")
                else:
                    o.append(f"    {vt}({proto}), pointer :: {name}")
            if t["bound"] or t["generics"] or t.get("deferred"):
                o.append("  contains")
                for b, ifc in t.get("deferred", []):
                    o.append(f"    procedure({ifc}), deferred :: {b}")
                for b, p in t["bound"]:
                    o.append(f"    procedure :: {b} => {p}")
                for g, bs in t["generics"]:
                    o.append(f"    generic :: {g} => " + ", ".join(bs))
            o.append(f"  end type {t['name']}")
        for g, ps in u["generics"]:
            o.append(f"  interface {g}")
            o.append("    module procedure " + ", ".join(ps))
            o.append(f"  end interface {g}")
        if u.get("absif"):
            ifc, tn = u["absif"]
            o += ["  abstract interface", f"    subroutine {ifc}(this)", f"      import {tn}",
                  f"      class({tn}) :: this", f"    end subroutine {ifc}", "  end interface"]
        if u["extifs"] or u["mpis"]:
            o.append("  interface")
            for x in u["extifs"]:
                o += [f"    subroutine {x}()", f"    end subroutine {x}"]
            for x in u["mpis"]:
                o += [f"    module subroutine {x}()", f"    end subroutine {x}"]
            o.append("  end interface")
        if u["procs"]:
            o.append("contains")
        for p in u["procs"]:
            args = "(this)" if p["this"] else "()"
            if p["func"]:
                o.append(f"  function {p['name']}() result(r)")
            else:
                o.append(f"  subroutine {p['name']}{args}")
            o += doc(p["meta"], "    ")
            for x in p["uses"]:
                o.append(f"    use {x}")
            if p["this"]:
                o.append(f"    class({p['this']}) :: this")
            if p["func"]:
                o.append("    integer :: r")
            o += render_proc_body(p, "  ", None)
            if p["func"]:
                o.append("    r = 1")
            o += render_internal(p["internals"], "  ")
            o.append(f"  end {'function' if p['func'] else 'subroutine'} {p['name']}")
        o.append(f"end module {u['name']}")
    elif kind == "submodule":
        par = f"{u['ancestor']}:{u['parent']}" if u["parent"] else u["ancestor"]
        o.append(f"submodule ({par}) {u['name']}")
        o += doc(u["meta"], "  ")
        for x in u["uses"]:
            o.append(f"  use {x}")
        if u["impl"]:
            o.append("contains")
            for x in u["impl"]:
                if u["impl_style"] == "subroutine":
                    o.append(f"  module subroutine {x}()")
                    for c in u["calls"]:
                        o.append(f"    call {c}()")
                    o.append(f"  end subroutine {x}")
                else:
                    o.append(f"  module procedure {x}")
                    for c in u["calls"]:
                        o.append(f"    call {c}()")
                    o.append(f"  end procedure {x}")
        o.append(f"end submodule {u['name']}")
    elif kind == "program":
        o.append(f"program {u['name']}")
        o += doc(u["meta"], "  ")
        for x in u["uses"]:
            o.append(f"  use {x}")
        o.append("  implicit none")
        for c in u["calls"]:
            o.append(f"  call {c}()")
        o += render_internal(u["internals"], "")
        o.append(f"end program {u['name']}")
    elif kind == "extproc":
        o.append(f"subroutine {u['name']}()")
        o += doc(u["meta"], "  ")
        for x in u["uses"]:
            o.append(f"  use {x}")
        for c in u["calls"]:
            o.append(f"  call {c}()")
        o.append(f"end subroutine {u['name']}")
    elif kind == "blockdata":
        o.append(f"block data {u['name']}")
        for x in u["uses"]:
            o.append(f"  use {x}")
        o.append(f"end block data {u['name']}")
    return o


def render(proj):
    files = {}
    for i, units in enumerate(proj["files"]):
        lines = []
        for u in units:
            lines += render_unit(u) + [""]
        files[f"src/f{i}.f90"] = "\n".join(lines) + "\n"
    return files


def intended(proj):
    """relations that are unambiguous in the generated text: (kind, tail, head)"""
    rel = set()
    for units in proj["files"]:
        for u in units:
            if u["kind"] == "module":
                for x in u["uses"] + u["ext_uses"]:
                    rel.add(("uses", u["name"], x))
                for t in u["types"]:
                    if t["extends"]:
                        rel.add(("extends", t["name"], t["extends"]))
                    for vt, proto, name in t["comps"]:
                        if proto is not None:
                            rel.add(("comp", t["name"], proto))
            elif u["kind"] == "submodule":
                rel.add(("anc", u["name"], u["parent"] or u["ancestor"]))
                for x in u["uses"]:
                    rel.add(("uses", u["name"], x))
            elif u["kind"] == "program":
                for x in u["uses"]:
                    rel.add(("uses", u["name"], x))
    return rel


def settings(rng):
    st = {}
    if rng.random() < 0.6:
        st["graph_maxdepth"] = rng.choice([0, 1, 1, 2, 3, 5])
    if rng.random() < 0.5:
        st["graph_maxnodes"] = rng.choice([1, 2, 3, 4, 5, 6, 8, 12, 20])
    st["show_proc_parent"] = rng.random() < 0.5
    st["proc_internals"] = rng.random() < 0.5
    if rng.random() < 0.4:
        st["display"] = ["public", "private", "protected"]
    return st
