"""C04 — abstract scope bodies (the input type of Sem/Access.v), their generator, the renderer to
Fortran text and the printer to Coq terms.

A case is {"sk": "module"|"submodule", "name": str, "body": [stmt]} with
  stmt = ["default", p] | ["access", p, [names]] | ["var", param, name, [attrs]]
       | ["type", name, [attrs], [tstmt]] | ["iface", ikind, name] | ["contains"] | ["proc", isfun, name]
  tstmt = ["tdefault", p] | ["comp", name, [attrs]] | ["tcontains"] | ["bind", name, [attrs]]
  p, attrs in "public" | "private" | "protected";  ikind in "generic" | "operator" | "abstract" | "explicit"
"""
from harness.core import coq_str, coq_list, coq_bool

PERMS = ["public", "private", "protected"]
CP = {"public": "Public", "private": "Private", "protected": "Protected"}
IK = {"generic": "IGeneric", "operator": "IOperator", "abstract": "IAbstract", "explicit": "IExplicit"}
KINDS = ["variable", "parameter", "type", "subroutine", "function", "generic", "abstract", "operator",
         "component", "binding"]

OPERATORS = ["operator(+)", "operator(.dot.)", "assignment(=)", "operator(==)", "operator(<)", "operator(//)",
             "operator(*)", "operator(.cross.)", "operator(/)", "operator(-)"]


# ------------------------------------------------------------------ Coq printer

def coq_perms(ps):
    return coq_list(CP[p] for p in ps)


def coq_tstmt(t):
    if t[0] == "tdefault":
        return f"TDefault {CP[t[1]]}"
    if t[0] == "comp":
        return f"TComp {coq_str(t[1])} {coq_perms(t[2])}"
    if t[0] == "tcontains":
        return "TContains"
    if t[0] == "bind":
        return f"TBind {coq_str(t[1])} {coq_perms(t[2])}"
    raise ValueError(t)


def coq_stmt(st):
    k = st[0]
    if k == "default":
        return f"SDefault {CP[st[1]]}"
    if k == "access":
        return f"SAccess {CP[st[1]]} {coq_list(coq_str(n) for n in st[2])}"
    if k == "var":
        return f"SVar {coq_bool(st[1])} {coq_str(st[2])} {coq_perms(st[3])}"
    if k == "type":
        return f"SType {coq_str(st[1])} {coq_perms(st[2])} {coq_list(coq_tstmt(t) for t in st[3])}"
    if k == "iface":
        return f"SIface {IK[st[1]]} {coq_str(st[2])}"
    if k == "contains":
        return "SContains"
    if k == "proc":
        return f"SProc {coq_bool(st[1])} {coq_str(st[2])}"
    raise ValueError(st)


def coq_ent(e):
    kind, owner, name, perm = e
    return f"mk_ent {kind} {coq_str(owner)} {coq_str(name)} {CP[perm]}"


def coq_case(case, impl):
    sk = "ScModule" if case["sk"] == "module" else "ScSubmodule"
    body = coq_list(coq_stmt(st) for st in case["body"])
    out = "None" if impl is None else f"(Some {coq_list(coq_ent(e) for e in impl)})"
    return f"({sk}, {body}, {out})"


# ------------------------------------------------------------------ renderer

def kw(rng, word):
    """a keyword in random letter case (Fortran is case-insensitive; the model sees the keyword, not its spelling)"""
    return rng.choice([word, word, word.upper(), word.capitalize(), word[0] + word[1:].upper()])


def _attrs(ats, rng=None):
    return "".join(f", {kw(rng, a) if rng else a}" for a in ats)


def render_tbody(tb, targets, rng, ind):
    out = []
    skip = set()
    for i, t in enumerate(tb):
        if i in skip:
            continue
        if (t[0] == "comp" and i + 1 < len(tb) and tb[i + 1][0] == "comp" and tb[i + 1][2] == t[2]
                and rng.random() < 0.3):
            skip.add(i + 1)
            out.append(f"{ind}{kw(rng, 'integer')}{_attrs(t[2], rng)} :: {t[1]}, {tb[i + 1][1]}")
            continue
        if t[0] == "tdefault":
            out.append(ind + kw(rng, t[1]))
        elif t[0] == "comp":
            typ = rng.choice(["integer", "real", "logical", "character(len=4)"])
            dim = rng.choice(["", "", "(3)"])
            out.append(f"{ind}{typ}{_attrs(t[2], rng)} :: {t[1]}{dim}")
        elif t[0] == "tcontains":
            out.append(ind[:-2] + kw(rng, "contains"))
        elif t[0] == "bind":
            tgt = rng.choice(targets) if targets else t[1] + "_impl"
            mid = rng.choice(["", ", nopass", ", NOPASS"])
            ats = _attrs(t[2], rng)
            # the access attribute before or after the other attribute
            both = rng.choice([mid + ats, ats + mid])
            out.append(f"{ind}{kw(rng, 'procedure')}{both} :: {t[1]} => {tgt}")
    return out


def render_case(case, rng, docs=True):
    """Fortran text of one module / submodule.  Layout choices (spelling of the declarations, doc comments,
    helper procedures) come from rng and do not touch what the model sees."""
    name = case["name"]
    body = case["body"]
    procs = [st[2] for st in body if st[0] == "proc"]
    subs = [st[2] for st in body if st[0] == "proc" and not st[1]]
    funs = [st[2] for st in body if st[0] == "proc" and st[1]]
    out = []
    if case["sk"] == "module":
        out.append(f"module {name}")
    else:
        out += [f"module {name}_parent", f"end module {name}_parent", f"submodule ({name}_parent) {name}"]
    if docs and rng.random() < 0.5:
        out.append("  !! scope " + name)
    if rng.random() < 0.7:
        out.append("  implicit none")
    helper = [0]
    skip = set()
    for i, st in enumerate(body):
        if i in skip:
            continue
        k = st[0]
        # `integer, private :: a, b` — one statement declaring two variables with the same attributes
        if (k == "var" and not st[1] and i + 1 < len(body) and body[i + 1][0] == "var" and not body[i + 1][1]
                and body[i + 1][3] == st[3] and rng.random() < 0.35):
            skip.add(i + 1)
            typ = rng.choice(["integer", "real", "logical"])
            out.append(f"  {typ}{_attrs(st[3], rng)} :: {st[2]}, {body[i + 1][2]}" + rng.choice(["", "(2)"]))
            continue
        if k == "default":
            out.append("  " + kw(rng, st[1]))
        elif k == "access":
            word = kw(rng, st[1])
            sep = rng.choice([" :: ", " ", "::", " ::"])
            out.append(f"  {word}{sep}" + rng.choice([", ", ","]).join(st[2]))
        elif k == "var":
            ats = list(st[3])
            if st[1]:
                pos = rng.randrange(len(ats) + 1)
                parts = ats[:pos] + ["parameter"] + ats[pos:]
                out.append("  integer" + _attrs(parts, rng) + f" :: {st[2]} = {rng.choice(['1', '42', '7'])}")
            else:
                typ = rng.choice(["integer", "real", "logical", "complex", "character(len=8)"])
                extra = rng.choice([[], [], ["save"], ["target"]])
                pos = rng.randrange(len(ats) + 1)
                parts = ats[:pos] + extra + ats[pos:]
                if parts or rng.random() < 0.7:
                    out.append(f"  {typ}{_attrs(parts, rng)} :: {st[2]}" + rng.choice(["", "", "(3)"]))
                else:
                    out.append(f"  {typ} {st[2]}")
            if docs and rng.random() < 0.4:
                out.append(f"    !! doc of {st[2]}")
        elif k == "type":
            if st[2] or rng.random() < 0.6:
                out.append(f"  {kw(rng, 'type')}{_attrs(st[2], rng)} :: {st[1]}")
            else:
                out.append(f"  type {st[1]}")
            if docs and rng.random() < 0.4:
                out.append(f"    !! doc of type {st[1]}")
            out += render_tbody(st[3], procs, rng, "    ")
            out.append(rng.choice([f"  end type {st[1]}", "  end type"]))
        elif k == "iface":
            ik, n = st[1], st[2]
            if ik in ("generic", "operator"):
                out.append(f"  interface {n}")
                want = funs if ik == "operator" and not n.lower().startswith("assignment") else subs
                if want and rng.random() < 0.5:
                    out.append("    module procedure " + rng.choice(want))
                else:
                    helper[0] += 1
                    h = f"{name}_h{helper[0]}"
                    if ik == "operator" and not n.lower().startswith("assignment"):
                        out += [f"    function {h}(a, b)", "      integer, intent(in) :: a, b",
                                f"      integer :: {h}", f"    end function {h}"]
                    else:
                        out += [f"    subroutine {h}(a, b)", "      integer, intent(out) :: a",
                                "      integer, intent(in) :: b", f"    end subroutine {h}"]
                out.append(rng.choice(["  end interface", f"  end interface {n}"]))
            else:
                out.append("  abstract interface" if ik == "abstract" else "  interface")
                if rng.random() < 0.5:
                    out += [f"    subroutine {n}(a)", "      integer, intent(in) :: a", f"    end subroutine {n}"]
                else:
                    out += [f"    function {n}(a) result(r)", "      integer, intent(in) :: a", "      integer :: r",
                            f"    end function {n}"]
                out.append("  end interface")
        elif k == "contains":
            out.append(rng.choice(["contains", "CONTAINS", "  contains"]))
        elif k == "proc":
            n = st[2]
            if st[1]:
                pre = rng.choice(["", "pure ", "integer "])
                if pre == "integer ":
                    out += [f"  integer function {n}(a)", "    integer, intent(in) :: a", f"    {n} = a",
                            f"  end function {n}"]
                else:
                    out += [f"  {pre}function {n}(a) result(r)", "    integer, intent(in) :: a", "    integer :: r",
                            "    r = a", f"  end function {n}"]
            else:
                pre = rng.choice(["", "", "pure ", "recursive "])
                out += [f"  {pre}subroutine {n}(a)", "    integer, intent(in) :: a", "    integer :: local_v",
                        f"  end subroutine {n}"]
                if docs and rng.random() < 0.3:
                    out.insert(len(out) - 3, f"    !! doc of {n}")
    out.append(f"end module {name}" if case["sk"] == "module" else f"end submodule {name}")
    return "\n".join(out) + "\n"


# ------------------------------------------------------------------ structure helpers

def struct_ok(body):
    inc = False
    for st in body:
        if st[0] == "contains":
            if inc:
                return False
            inc = True
        elif st[0] == "proc" and not inc:
            return False
        elif st[0] == "type":
            if sum(1 for t in st[3] if t[0] == "tcontains") > 1:
                return False
    return True


def declared(body):
    return [(st[0], st[2] if st[0] in ("var", "iface", "proc") else st[1])
            for st in body if st[0] in ("var", "type", "iface", "proc")]


# ------------------------------------------------------------------ the exhaustive product

def cells():
    """Every expressible cell of: scope default {none, public, private} x {early, late} x declaration
    attribute {none, public, private, protected} x access statement {none, public, private} x {before, after}
    x entity kind (10).  Inexpressible combinations (an attribute on a procedure or interface statement, an
    access statement naming a component or binding) do not exist in the language and are left out."""
    out = []
    for kind in KINDS:
        for d in [None, "public", "private"]:
            for dpos in (["early"] if d is None else ["early", "late"]):
                if kind in ("variable", "parameter", "component"):
                    attrs = [None, "public", "private", "protected"]
                elif kind in ("type", "binding"):
                    attrs = [None, "public", "private", "protected"]
                else:
                    attrs = [None]
                for a in attrs:
                    stmts = [None] if kind in ("component", "binding") else [None, "public", "private"]
                    for s_ in stmts:
                        for spos in (["before"] if s_ is None else ["before", "after"]):
                            out.append({"kind": kind, "default": d, "dpos": dpos, "attr": a, "stmt": s_, "spos": spos})
    return out


def noise_decl(rng, names):
    n = names()
    r = rng.random()
    if r < 0.35:
        return ["var", rng.random() < 0.3, n, rng.choice([[], [], ["public"], ["private"]])]
    if r < 0.55:
        return ["type", n, rng.choice([[], [], ["public"], ["private"]]), gen_tbody(rng, valid=True)]
    if r < 0.8:
        ik = rng.choice(["generic", "abstract", "explicit", "operator"])
        return ["iface", ik, rng.choice(OPERATORS) if ik == "operator" else n]
    return ["var", False, n, []]


def name_source(rng, prefix="n"):
    pool = ["alpha", "Beta", "gamma_1", "Q1", "delta", "x", "Solve", "init", "t_pt", "w2", "zeta", "Kappa"]
    rng.shuffle(pool)
    cnt = [0]

    def f():
        cnt[0] += 1
        if cnt[0] <= len(pool):
            return pool[cnt[0] - 1]
        return f"{prefix}{cnt[0]}"
    return f


def respell(rng, n):
    """another spelling of the same identifier (letter case only)"""
    return rng.choice([n, n, n.lower(), n.upper(), n.capitalize()])


def cell_case(cell, rng, idx):
    """One module (or type inside a module) that realises the cell, with random declarations around it."""
    names = name_source(rng)
    kind = cell["kind"]
    tname = names()
    if kind == "operator":
        tname = rng.choice(OPERATORS)
    attrs = [cell["attr"]] if cell["attr"] else []
    spec, procs = [], []
    if kind in ("component", "binding"):
        # the "scope" is the derived type: its default statement and the declaration live in the type body
        tb = []
        other_c = [["comp", f"c{i}", rng.choice([[], [], ["public"], ["private"]])] for i in range(rng.choice([0, 1, 2]))]
        other_b = [["bind", f"b{i}", rng.choice([[], [], ["public"], ["private"]])] for i in range(rng.choice([0, 1, 2]))]
        target = ["comp" if kind == "component" else "bind", "tgt", attrs]
        dflt = [["tdefault", cell["default"]]] if cell["default"] else []
        if kind == "component":
            k = rng.randrange(len(other_c) + 1)
            comps = other_c[:k] + [target] + other_c[k:]
            if cell["dpos"] == "early":
                comps = dflt + comps
            else:
                i = comps.index(target)
                j = rng.randrange(i + 1, len(comps) + 1)
                comps = comps[:j] + dflt + comps[j:]
            tb = comps + ([["tcontains"]] + rng.choice([[], [["tdefault", "private"]]]) + other_b if other_b else [])
        else:
            k = rng.randrange(len(other_b) + 1)
            binds = other_b[:k] + [target] + other_b[k:]
            if cell["dpos"] == "early":
                binds = dflt + binds
            else:
                i = binds.index(target)
                j = rng.randrange(i + 1, len(binds) + 1)
                binds = binds[:j] + dflt + binds[j:]
            tb = rng.choice([[], [["tdefault", "private"]]]) + other_c + [["tcontains"]] + binds
        spec = [noise_decl(rng, names) for _ in range(rng.choice([0, 1, 2]))]
        spec.insert(rng.randrange(len(spec) + 1), ["type", tname, rng.choice([[], ["public"], ["private"]]), tb])
        if rng.random() < 0.5:
            spec.insert(0, ["default", rng.choice(["public", "private"])])
        procs = [["proc", rng.random() < 0.5, names()] for _ in range(rng.choice([0, 1, 2]))]
    else:
        before = [noise_decl(rng, names) for _ in range(rng.choice([0, 1, 2]))]
        after = [noise_decl(rng, names) for _ in range(rng.choice([0, 1, 2]))]
        procs = [["proc", rng.random() < 0.5, names()] for _ in range(rng.choice([0, 1, 2]))]
        target = None
        if kind == "variable":
            target = ["var", False, tname, attrs]
        elif kind == "parameter":
            target = ["var", True, tname, attrs]
        elif kind == "type":
            target = ["type", tname, attrs, gen_tbody(rng, valid=True)]
        elif kind in ("generic", "abstract", "operator"):
            target = ["iface", kind, tname]
        else:
            procs.insert(rng.randrange(len(procs) + 1), ["proc", kind == "function", tname])
        stmt = ["access", cell["stmt"], [respell(rng, tname)]] if cell["stmt"] else None
        dflt = ["default", cell["default"]] if cell["default"] else None
        if target is not None:
            pre, post = list(before), list(after)
            if stmt:
                (pre if cell["spos"] == "before" else post).insert(
                    rng.randrange(len(pre if cell["spos"] == "before" else post) + 1), stmt)
            if dflt:
                if cell["dpos"] == "early":
                    pre.insert(0 if rng.random() < 0.7 else rng.randrange(len(pre) + 1), dflt)
                else:
                    post.insert(rng.randrange(len(post) + 1), dflt)
            spec = pre + [target] + post
        else:
            # procedures are declared after CONTAINS: "before/after the declaration" can only be realised for the
            # statement position inside the specification part; both land before the procedure
            spec = before + after
            if stmt:
                spec.insert(0 if cell["spos"] == "before" else len(spec), stmt)
            if dflt:
                spec.insert(0 if cell["dpos"] == "early" else len(spec), dflt)
        # a second access statement about some other declared entity
        others = [n for _, n in declared(spec) if n != tname]
        if others and rng.random() < 0.5:
            spec.insert(rng.randrange(len(spec) + 1), ["access", rng.choice(["public", "private"]),
                                                      [respell(rng, rng.choice(others))]])
    body = spec + ([["contains"]] + procs if procs else [])
    return {"sk": "module", "name": f"cm{idx}", "body": body, "cell": cell}


# ------------------------------------------------------------------ constructor interfaces

def constructor_cases(rng, start=0):
    """a derived type and the generic interface of its name (its constructor): module default {none, public,
    private} x accessibility of the type {none, attribute public/private, statement public/private} x which of
    the two is declared first x statement before/after both, each among random declarations"""
    out = []
    for d in [None, "public", "private"]:
        for how, acc in [(None, None), ("attr", "public"), ("attr", "private"), ("stmt", "public"), ("stmt", "private")]:
            for type_first in (True, False):
                for spos in (["before"] if how != "stmt" else ["before", "after"]):
                    names = name_source(rng)
                    tname = names()
                    typ = ["type", tname, [acc] if how == "attr" else [], gen_tbody(rng, valid=True)]
                    ctor = ["iface", "generic", respell(rng, tname)]
                    pair = [typ, ctor] if type_first else [ctor, typ]
                    if rng.random() < 0.5:
                        pair.insert(1, noise_decl(rng, names))
                    spec = [noise_decl(rng, names) for _ in range(rng.choice([0, 1]))] + pair \
                        + [noise_decl(rng, names) for _ in range(rng.choice([0, 1]))]
                    if how == "stmt":
                        spec.insert(0 if spos == "before" else len(spec), ["access", acc, [respell(rng, tname)]])
                    if d:
                        spec.insert(rng.choice([0, len(spec)]), ["default", d])
                    procs = [["proc", rng.random() < 0.5, names()] for _ in range(rng.choice([1, 2]))]
                    out.append({"sk": "module", "name": f"kc{start + len(out)}", "body": spec + [["contains"]] + procs,
                                "ctor": {"default": d, "how": how, "acc": acc, "type_first": type_first, "spos": spos}})
    return out


# ------------------------------------------------------------------ random stream

def gen_tbody(rng, valid=True):
    tb = []
    if rng.random() < 0.35:
        tb.append(["tdefault", "private"])
    for i in range(rng.choice([0, 1, 2, 3])):
        tb.append(["comp", f"c{i}", rng.choice([[], [], [], ["public"], ["private"]])])
    if rng.random() < 0.5:
        tb.append(["tcontains"])
        if rng.random() < 0.4:
            tb.append(["tdefault", "private"])
        for i in range(rng.choice([0, 1, 2])):
            tb.append(["bind", f"b{i}", rng.choice([[], [], ["public"], ["private"]])])
    if not valid:
        r = rng.random()
        extra = rng.choice([["tdefault", rng.choice(PERMS)], ["comp", "cx", [rng.choice(PERMS)]],
                            ["bind", "bx", [rng.choice(PERMS)]], ["tcontains"],
                            ["comp", "cy", [rng.choice(PERMS), rng.choice(PERMS)]]])
        tb.insert(rng.randrange(len(tb) + 1), extra)
        if r < 0.3:
            tb.insert(rng.randrange(len(tb) + 1), ["tdefault", rng.choice(PERMS)])
    return tb


def gen_case(rng, idx, malformed=False):
    """A random module or submodule.  malformed=False: valid Fortran as far as accessibility goes (one default
    statement at any place of the specification part, consistent specifications); malformed=True adds what a
    compiler rejects (two defaults, bare PROTECTED, conflicting keywords, misplaced statements)."""
    names = name_source(rng)
    sk = "submodule" if rng.random() < 0.15 else "module"
    access_ok = sk == "module" or malformed
    decls = []
    for _ in range(rng.choice([1, 2, 3, 4, 5, 6])):
        r = rng.random()
        n = names()
        if r < 0.3:
            pa = rng.random() < 0.3
            ats = []
            if access_ok:
                ats = rng.choice([[], [], ["public"], ["private"]] + ([] if pa else [["protected"], ["protected", "public"],
                                                                                     ["public", "protected"]]))
            decls.append(["var", pa, n, list(ats)])
        elif r < 0.5:
            decls.append(["type", n, list(rng.choice([[], [], ["public"], ["private"]])) if access_ok else [],
                          gen_tbody(rng, valid=not (malformed and rng.random() < 0.5))])
        elif r < 0.85:
            ik = rng.choice(["generic", "abstract", "explicit", "operator"])
            nm = n
            if ik == "operator":
                nm = rng.choice(OPERATORS)
                if rng.random() < 0.15:
                    nm = nm.replace("(", " (")
            decls.append(["iface", ik, nm])
        else:
            decls.append(["var", False, n, []])
    # identifiers declared twice: several generic blocks of one name, a type with its constructor interface
    if rng.random() < 0.2:
        gens = [d for d in decls if d[0] == "iface" and d[1] in ("generic", "operator")]
        typs = [d for d in decls if d[0] == "type"]
        if gens and rng.random() < 0.5:
            g = rng.choice(gens)
            decls.insert(rng.randrange(len(decls) + 1), ["iface", g[1], respell(rng, g[2])])
        elif typs:
            t = rng.choice(typs)
            decls.insert(rng.randrange(len(decls) + 1), ["iface", "generic", respell(rng, t[1])])
    procs = [["proc", rng.random() < 0.5, names()] for _ in range(rng.choice([0, 0, 1, 2, 3]))]
    spec = list(decls)
    if access_ok:
        allnames = [n for _, n in declared(decls + procs)]
        given = set()
        for _ in range(rng.choice([0, 0, 1, 2, 3])):
            p = rng.choice(["public", "private", "private", "public", "protected"])
            pick = []
            for n in rng.sample(allnames, min(len(allnames), rng.choice([1, 1, 2, 3]))):
                explicit = any(d[0] in ("var", "type") and (d[2] if d[0] == "var" else d[1]) == n
                               and any(a in ("public", "private") for a in (d[3] if d[0] == "var" else d[2]))
                               for d in decls)
                isvar = any(d[0] == "var" and not d[1] and d[2] == n for d in decls)
                if p == "protected":
                    if (isvar and ("prot", n) not in given) or malformed:
                        given.add(("prot", n))
                        pick.append(n)
                elif malformed or (not explicit and ("acc", n.lower()) not in given):
                    given.add(("acc", n.lower()))
                    pick.append(n)
            if malformed and rng.random() < 0.2:
                pick.append("unknown_name")
            if pick:
                pick = [respell(rng, n) if rng.random() < 0.4 else n for n in pick]
                if rng.random() < 0.1:
                    pick = [n.replace("(", " (") if n.lower().startswith(("operator", "assignment")) else n for n in pick]
                spec.insert(rng.randrange(len(spec) + 1), ["access", p, pick])
        if rng.random() < 0.65:
            d = rng.choice(["private", "private", "public"])
            pos = rng.choice([0, 0, rng.randrange(len(spec) + 1), len(spec)])
            spec.insert(pos, ["default", d])
        if malformed and rng.random() < 0.4:
            spec.insert(rng.randrange(len(spec) + 1), ["default", rng.choice(PERMS)])
    body = spec + ([["contains"]] + procs if procs else [])
    if malformed:
        r = rng.random()
        if r < 0.15:
            body.insert(rng.randrange(len(body) + 1), ["contains"])
        elif r < 0.3 and procs:
            body.insert(rng.randrange(len(spec) + 1), ["proc", rng.random() < 0.5, names()])
        elif r < 0.45:
            body.append(["access", rng.choice(PERMS), [n for _, n in declared(body)][:2] or ["zz"]])
        elif r < 0.55:
            body.append(["default", rng.choice(PERMS)])
    return {"sk": sk, "name": f"rm{idx}", "body": body}
