"""Small multi-file Fortran projects for C12 with *controlled* sources of order dependence.

gen(rng, ...) -> (files {relative path: text}, meta) where meta says which recorded sources of
nondeterminism the project can trigger:
  clash      two entities in different files compete for one NameSelector counter
  modclash   two modules of the same name (never USEd)
  multiuse   some entity uses >= 2 modules
  children   some derived type has >= 2 extensions (InheritedByGraph edges)
Names are globally unique unless a flag asks for a collision, so that a project generated with all
flags off must produce byte-identical output whatever the enumeration order.
"""

DIRS = ["src", "src/sub", "src/lib/deep", "src/a", "src/B", "src/a-b"]
# file stems whose sorted order separates str comparison from path-component comparison and exercises
# upper/lower case, digits and punctuation (Project.__init__ parses sorted(set of paths))
STEMS = ["a", "A", "a-b", "a_b", "a.b", "b", "B9", "Z", "sub", "a0", "_x", "lib"]


class Namer:
    def __init__(self, rng, clash):
        self.rng, self.clash, self.n = rng, clash, 0
        self.pool = ["x", "y", "init", "n", "tmp"]

    def uniq(self, stem):
        self.n += 1
        return f"{stem}{self.n}"

    def local(self, stem, taken=()):
        """a name that may collide across files when clashes are wanted (never with [taken]: the names
        already used in the same scope)"""
        if self.clash and self.rng.random() < 0.7:
            n = self.rng.choice(self.pool)
            if n not in taken:
                return n
        return self.uniq(stem)


def _doc(rng, nm, ind):
    if rng.random() < 0.7:
        return [f"{ind}!! about {nm.uniq('word')}"]
    return []


def gen(rng, nfiles=None, clash=False, modclash=False, multiuse=False, children=False, extra=False):
    nm = Namer(rng, clash)
    nfiles = nfiles or rng.choice([2, 3, 4])
    if multiuse:
        nfiles = max(nfiles, 3)
    files, modules, meta_multi, meta_children = {}, [], False, False
    for i in range(nfiles):
        d = rng.choice(DIRS)
        fname = f"{rng.choice(STEMS)}.f90"
        if f"{d}/{fname}" in files:
            fname = f"{rng.choice(STEMS)}{i}_{rng.randrange(100)}.f90"
        lines = []
        mname = nm.uniq("mod")
        usable = list(modules)
        if modclash and i < 2:
            mname = "twin"                       # never USEd: not in `modules`
        uses = []
        if usable:
            k = rng.choice([0, 1, 1]) if not multiuse else min(len(usable), rng.choice([2, 3]))
            uses = rng.sample(usable, min(k, len(usable)))
            if len(uses) >= 2:
                meta_multi = True
        lines.append(f"module {mname}")
        lines += _doc(rng, nm, "  ")
        for u in uses:
            lines.append(f"  use {u}")
        lines.append("  implicit none")
        # types
        tnames = []
        if rng.random() < 0.8 or children:
            base = nm.uniq("base_t")
            tnames.append(base)
            lines.append(f"  type :: {base}")
            lines += _doc(rng, nm, "    ")
            comps = []
            for _ in range(rng.choice([1, 2])):
                c = nm.local("c", comps)
                comps.append(c)
                lines.append(f"    integer :: {c}")
                lines += _doc(rng, nm, "      ")
            lines.append(f"  end type {base}")
            nkids = rng.choice([2, 3]) if children else rng.choice([0, 1])
            if nkids >= 2:
                meta_children = True
            for _ in range(nkids):
                t = nm.uniq("kid_t")
                tnames.append(t)
                lines.append(f"  type, extends({base}) :: {t}")
                c = nm.local("c", comps)
                lines.append(f"    real :: {c}")
                lines.append(f"  end type {t}")
        # variables
        mvars = []
        for _ in range(rng.choice([1, 2, 3])):
            v = nm.local("v", mvars + ["init", "solve"])
            mvars.append(v)
            typ = rng.choice(["integer", "real", "logical"] + ([f"type({tnames[0]})"] if tnames else []))
            lines.append(f"  {typ} :: {v}")
            lines += _doc(rng, nm, "    ")
        # generic interface over the module's procedures
        pnames = [nm.uniq("proc") if not clash or rng.random() < 0.5 else rng.choice(["init", "solve"])
                  for _ in range(rng.choice([1, 2]))]
        pnames = list(dict.fromkeys(pnames))
        if rng.random() < 0.5:
            g = nm.uniq("gen")
            lines.append(f"  interface {g}")
            lines.append(f"    module procedure {pnames[0]}")
            lines.append("  end interface")
        lines.append("contains")
        for k, p in enumerate(pnames):
            # distinct dummy-argument types keep the generic interface unambiguous
            a = nm.local("a", [p])
            b = nm.local("b", [p, a])
            lines.append(f"  subroutine {p}({a}, {b})")
            lines += _doc(rng, nm, "    ")
            lines.append(f"    integer, intent(in) :: {a}")
            lines += _doc(rng, nm, "      ")
            lines.append(f"    real, intent(out) :: {b}")
            loc = nm.local("l", [p, a, b])
            lines.append(f"    integer :: {loc}")
            lines.append(f"    {b} = {a}")
            if rng.random() < 0.5:
                ip = nm.local("inner", [p, a, b, loc] + pnames + mvars)
                lines.append(f"    call {ip}()")
                lines.append("  contains")
                lines.append(f"    subroutine {ip}()")
                lines += _doc(rng, nm, "      ")
                lines.append(f"    end subroutine {ip}")
            lines.append(f"  end subroutine {p}")
        lines.append(f"end module {mname}")
        if mname != "twin":
            modules.append(mname)
        # optional top-level procedure / program
        r = rng.random()
        if r < 0.3:
            tp = nm.uniq("ext") if not clash else rng.choice(["ext", nm.uniq("ext")])
            arg = nm.local("a")
            lines += ["", f"subroutine {tp}({arg})"]
            lines += _doc(rng, nm, "  ")
            if modules:
                lines.append(f"  use {rng.choice(modules)}")
            lines += [f"  integer :: {arg}", f"end subroutine {tp}"]
        elif r < 0.5:
            pg = nm.uniq("prog")
            lines += ["", f"program {pg}"]
            lines += _doc(rng, nm, "  ")
            us = rng.sample(modules, min(len(modules), 2 if multiuse else 1))
            if len(us) >= 2:
                meta_multi = True
            for u in us:
                lines.append(f"  use {u}")
            v = nm.local("v")
            lines += [f"  integer :: {v}", f"end program {pg}"]
        files[f"{d}/{fname}"] = "\n".join(lines) + "\n"
    if extra:
        files["src/notes.inc"] = "! an extra file\n"
        files["src/sub/more.inc"] = "! another extra file\n"
    meta = {"clash": bool(clash), "modclash": bool(modclash) and nfiles >= 2, "multiuse": meta_multi,
            "children": meta_children, "nfiles": nfiles, "extra": bool(extra)}
    return files, meta


def gen_table(rng, nmods=None):
    """a project whose graphs fall back to the HTML table (run it with graph: true and a low graph_maxnodes):
    a module `base` with a procedure `helper`; several modules that use it, each with a procedure of (almost)
    the same name that calls helper - the neighbours of helper (and of base) are many and equally labelled"""
    nmods = nmods or rng.choice([4, 5, 6])
    spell = ["init", "init", "Init", "INIT", "setup"]
    files = {"src/base.f90": "module base\n  !! the base\ncontains\n  subroutine helper()\n    !! helps\n"
                             "  end subroutine helper\nend module base\n"}
    for k in range(1, nmods + 1):
        nm = rng.choice(spell)
        d = rng.choice(["src", "src/sub"])
        files[f"{d}/m{k}.f90"] = (f"module m{k}\n  use base\ncontains\n  subroutine {nm}()\n    call helper()\n"
                                  f"  end subroutine {nm}\nend module m{k}\n")
    meta = {"clash": True, "modclash": False, "multiuse": False, "children": False, "nfiles": nmods + 1,
            "extra": False, "table": True}
    return files, meta


def gen_shapes(rng):
    """shapes whose identifiers used to be assigned while a set of objects was sorted (run with graph: true and
    proc_internals: true): equally named types in different modules, one of them extended through a renamed
    import; generic (multi-target) bindings inherited by several children; equally named, undocumented internal
    procedures.  Mostly undocumented on purpose."""
    tn = rng.choice(["t", "vec", "Node"])
    nkids = rng.choice([2, 3, 4])
    files = {}
    files["src/ta.f90"] = (f"module sa\n  type :: {tn}\n    integer :: i\n  end type {tn}\n"
                           f"  type :: other_a\n    integer :: q\n  end type other_a\nend module sa\n")
    files["src/tb.f90"] = (f"module sb\n  use sa, only: at => {tn}\n  type :: {tn}\n    integer :: j\n  end type {tn}\n"
                           f"  type, extends(at) :: child\n    integer :: k\n  end type child\nend module sb\n")
    gens = rng.sample(["show", "plus", "operator(+)", "assignment(=)"], rng.choice([1, 2]))
    lines = ["module sc", "  type :: base", "    integer :: n", "  contains",
             "    procedure :: show_a", "    procedure :: show_b"]
    for g in gens:
        if g == "assignment(=)":
            lines.append("    procedure :: set_b")
            lines.append("    generic :: assignment(=) => set_b")
        else:
            lines.append(f"    generic :: {g} => show_a, show_b")
    lines.append("  end type base")
    where = rng.choice(["same", "other"])
    kid_lines = []
    for k in range(1, nkids + 1):
        kid_lines += [f"  type, extends(base) :: c{k}", f"    integer :: m{k}", f"  end type c{k}"]
    if where == "same":
        lines += kid_lines
    lines += ["contains",
              "  function show_a(self, o) result(r)", "    class(base), intent(in) :: self", "    type(base), intent(in) :: o",
              "    type(base) :: r", "    r%n = self%n + o%n", "  end function show_a",
              "  function show_b(self, i) result(r)", "    class(base), intent(in) :: self", "    integer, intent(in) :: i",
              "    type(base) :: r", "    r%n = self%n + i", "  end function show_b",
              "  subroutine set_b(self, i)", "    class(base), intent(out) :: self", "    integer, intent(in) :: i",
              "    self%n = i", "  end subroutine set_b",
              "end module sc"]
    files["src/tc.f90"] = "\n".join(lines) + "\n"
    if where == "other":
        files["src/sub/td.f90"] = "\n".join(["module sd", "  use sc"] + kid_lines + ["end module sd"]) + "\n"
    hosts = []
    for k in range(1, rng.choice([2, 3]) + 1):
        hosts += [f"  subroutine host{k}()", "    integer :: w", "    w = 1", "  contains",
                  "    subroutine helper()", "    end subroutine helper", f"  end subroutine host{k}"]
    files["src/te.f90"] = "\n".join(["module se", "contains"] + hosts + ["end module se"]) + "\n"
    meta = {"clash": True, "modclash": False, "multiuse": False, "children": True, "nfiles": len(files),
            "extra": False, "shapes": True,
            "options": {"graph": "true", "proc_internals": "true", "search": "false"}}
    return files, meta


def other_project(rng):
    """an unrelated project whose output is used as the stale content of an output directory"""
    return {"src/zzother.f90": "module zz_stale_mod\n  integer :: zz_stale_var\n  !! stale\ncontains\n"
                               "  subroutine zz_stale_proc()\n  end subroutine\nend module\n"
                               "program zz_stale_prog\nend program\n"}
