"""C16 — generator of pairs of projects: A (externalised) and B (built against A).

Abstract A (what the Coq model Out/External.v takes):
  A   = {"modules": [ent], "display": [perm], "proc_internals": bool, "toplevel": [name], "nfiles": n}
  ent = {"id": n, "kind": module|function|subroutine|generic|absint|type|var|bound, "name": s,
         "perm": public|private|protected, "kids": [ent], ...render hints}
Every entity's documentation holds the unique marker word  zq<id>zq .
The renderer is trusted for the correspondence only.
"""

MOD_NAMES = ["ma", "mb", "geom", "Solver", "mc", "util"]
PROC_NAMES = ["init", "Init", "area", "run", "solve", "reset", "total", "norm", "Area", "step"]
TYPE_NAMES = ["shape_t", "Shape_T", "grid_t", "state_t", "node", "config"]
VAR_NAMES = ["count", "Count", "size0", "tol", "level", "flag"]
GEN_NAMES = ["gen", "apply", "make", "Gen"]
ABS_NAMES = ["cb", "callback_i", "visitor"]
COMP_NAMES = ["side", "n", "val", "next0", "tag"]
BOUND_NAMES = ["describe", "get", "Update", "show"]
LOCAL_NAMES = ["tmp", "i0", "acc"]
INNER_NAMES = ["helper", "inner", "init"]

COQ_KIND = {"module": "KModule", "function": "KFunction", "subroutine": "KSubroutine", "generic": "KGeneric",
            "absint": "KAbsInt", "type": "KType", "var": "KVar", "bound": "KBound", "alias": "KAlias"}
COQ_PERM = {"public": "Public", "private": "Private", "protected": "Protected"}
DISPLAYS = [["public", "protected"], ["public", "protected"], ["public", "protected"], ["protected", "public"],
            ["public", "private", "protected"], ["private"], ["public"], ["public", "private"], []]


def marker(i):
    return f"zq{i}zq"


class Ids:
    def __init__(self):
        self.n = 0

    def __call__(self):
        self.n += 1
        return self.n


def _pick_unique(rng, pool, used, k, prefer=()):
    out = []
    cands = [n for n in pool]
    rng.shuffle(cands)
    if prefer:
        first = [n for n in cands if n.lower() in prefer]
        cands = first + [n for n in cands if n.lower() not in prefer]
    for n in cands:
        if len(out) >= k:
            break
        if n.lower() not in used:
            used.add(n.lower())
            out.append(n)
    return out


def gen_A(rng, knobs=None):
    knobs = knobs or {}
    ids = Ids()
    nmod = knobs.get("nmod") or rng.choice([1, 2, 2, 3, 3])
    display = knobs.get("display") or rng.choice(DISPLAYS)
    internals = knobs.get("proc_internals", rng.random() < 0.3)
    mods = []
    seen_names = set()          # with the "clash" knob later modules reuse the names of earlier ones
    for mname in _pick_unique(rng, MOD_NAMES, set(), nmod):
        prefer = seen_names if knobs.get("clash") else ()
        default = rng.choice(["public", "public", "private"])
        m = {"id": ids(), "kind": "module", "name": mname, "perm": default, "kids": []}
        used = set()

        def perm():
            return rng.choice(["public", "public", "private", default])
        members = set()         # names used inside the module's types / procedures: later ones reuse them
        procs = []
        for n in _pick_unique(rng, PROC_NAMES, used, rng.choice([1, 2, 3] if prefer or knobs.get('clash') else [0, 1, 2, 3]), prefer):
            p = {"id": ids(), "kind": rng.choice(["function", "subroutine"]), "name": n, "perm": perm(), "kids": []}
            if rng.random() < 0.35:
                for ln in _pick_unique(rng, LOCAL_NAMES, set(), rng.choice([1, 2]), members):
                    p["kids"].append({"id": ids(), "kind": "var", "name": ln, "perm": default, "kids": []})
            if rng.random() < 0.25:
                for inn in _pick_unique(rng, INNER_NAMES, {n.lower()}, rng.choice([1, 2]), members):
                    p["kids"].append({"id": ids(), "kind": "subroutine", "name": inn, "perm": default, "kids": []})
            if rng.random() < 0.1:
                lt = {"id": ids(), "kind": "type", "name": "local_t", "perm": default, "kids": []}
                lt["kids"].append({"id": ids(), "kind": "var", "name": "q", "perm": "public", "kids": []})
                p["kids"].append(lt)
            members |= {k["name"].lower() for k in p["kids"]}
            procs.append(p)
        subs = [p for p in procs if p["kind"] == "subroutine"]
        funs = [p for p in procs if p["kind"] == "function"]
        types = []
        for n in _pick_unique(rng, TYPE_NAMES, used, rng.choice([1, 2] if prefer or knobs.get('clash') else [0, 1, 2, 2]), prefer):
            t = {"id": ids(), "kind": "type", "name": n, "perm": perm(), "kids": []}
            for cn in _pick_unique(rng, COMP_NAMES, set(), rng.choice([1, 2, 3] if members else [0, 1, 2, 3]), members):
                t["kids"].append({"id": ids(), "kind": "var", "name": cn,
                                  "perm": rng.choice(["public", "public", "private"]), "kids": []})
            if subs and rng.random() < 0.7:
                cu = {c["name"].lower() for c in t["kids"]}
                for bn in _pick_unique(rng, BOUND_NAMES, cu, rng.choice([1, 2]), members):
                    t["kids"].append({"id": ids(), "kind": "bound", "name": bn,
                                      "perm": rng.choice(["public", "public", "private"]), "kids": [],
                                      "impl": rng.choice(subs)["name"]})
            members |= {k["name"].lower() for k in t["kids"]}
            types.append(t)
        gens = []
        for n in _pick_unique(rng, GEN_NAMES, used, rng.choice([0, 0, 1, 2]), prefer):
            pool = subs if (subs and (not funs or rng.random() < 0.5)) else funs
            if not pool:
                continue
            gens.append({"id": ids(), "kind": "generic", "name": n, "perm": perm(), "kids": [],
                         "targets": [p["name"] for p in pool[:rng.choice([1, 2])]]})
        absints = []
        for n in _pick_unique(rng, ABS_NAMES, used, rng.choice([0, 0, 1])):
            absints.append({"id": ids(), "kind": "absint", "name": n, "perm": perm(), "kids": []})
        vars_ = []
        for n in _pick_unique(rng, VAR_NAMES, used, rng.choice([0, 1, 2, 3]), prefer):
            vars_.append({"id": ids(), "kind": "var", "name": n,
                          "perm": rng.choice(["public", "private", "protected", default]), "kids": []})
        m["kids"] = vars_ + types + absints + gens + procs
        rng.shuffle(m["kids"])
        seen_names |= {e["name"].lower() for e in m["kids"]}
        if knobs.get("clash"):
            for e in m["kids"]:
                if e["kind"] in ("type", "function", "subroutine") and rng.random() < 0.8:
                    e["perm"] = "public"
        mods.append(m)
    if knobs.get("facade", rng.random() < 0.45):
        fac = gen_facade(rng, ids, mods)
        if fac:
            mods.append(fac)
    top = []
    if rng.random() < 0.3:
        top = [rng.choice(PROC_NAMES)]
    return {"modules": mods, "display": display, "proc_internals": internals, "toplevel": top,
            "one_file": rng.random() < 0.3}


def gen_facade(rng, ids, mods):
    """a module that makes entities of other modules accessible again, some under other names
    (`use src, only: local => own`); an alias node carries the id of the defining module and the entity"""
    used_mod = {m["name"].lower() for m in mods}
    names = [n for n in ("api_mod", "facade", "Kit") if n.lower() not in used_mod]
    if not names:
        return None
    default = rng.choice(["public", "public", "private"])
    fac = {"id": ids(), "kind": "module", "name": rng.choice(names), "perm": default, "kids": [], "uses": []}
    taken = set()
    for src in rng.sample(mods, k=min(len(mods), rng.choice([1, 2, 2]))):
        cands = [e for e in src["kids"] if e["kind"] in ("function", "subroutine", "generic", "absint", "type", "var")
                 and e["perm"] != "private"]
        rng.shuffle(cands)
        items = []
        for i, e in enumerate(cands[:rng.choice([1, 2, 3])]):
            own = e["name"]
            local = rng.choice([own, f"new_{own}", f"{own}_v{i}", f"{own}_legacy"])
            if local.lower() in taken:
                local = f"{own}_of_{src['name']}"
            if local.lower() in taken:
                continue
            taken.add(local.lower())
            perm = "public" if default == "public" else rng.choice(["public", "public", "private"])
            fac["kids"].append({"id": src["id"], "kind": "alias", "name": local, "perm": perm, "kids": [e]})
            items.append((local, e))
        if items:
            fac["uses"].append({"src": src, "items": items})
    if not fac["uses"]:
        return None
    if rng.random() < 0.5 and "own_level" not in taken:
        fac["kids"].append({"id": ids(), "kind": "var", "name": "own_level", "perm": default, "kids": []})
    return fac


def walk(e, parent=None):
    if e["kind"] == "alias":        # not an entity of its own: the entity is reached in its defining module
        return
    yield e, parent
    for k in e["kids"]:
        yield from walk(k, e)


def all_entities(A):
    for m in A["modules"]:
        yield from walk(m)


# ---------------------------------------------------------------- rendering A

def _doc(e, ind):
    return f"{ind}!! {marker(e['id'])} documents {e['name']}\n"


def _render_proc(p, ind, internal=False):
    kw = p["kind"]
    out = ""
    if kw == "function":
        out += f"{ind}function {p['name']}(x) result(r)\n" + _doc(p, ind + "  ")
        out += f"{ind}  integer, intent(in) :: x\n{ind}  integer :: r\n"
    else:
        out += f"{ind}subroutine {p['name']}(x)\n" + _doc(p, ind + "  ")
        out += f"{ind}  integer, intent(inout) :: x\n"
    for k in p["kids"]:
        if k["kind"] == "type":
            out += f"{ind}  type :: {k['name']}\n" + _doc(k, ind + "    ")
            for c in k["kids"]:
                out += f"{ind}    integer :: {c['name']}\n" + _doc(c, ind + "      ")
            out += f"{ind}  end type {k['name']}\n"
    for k in p["kids"]:
        if k["kind"] == "var":
            out += f"{ind}  integer :: {k['name']}\n" + _doc(k, ind + "    ")
    out += f"{ind}  r = x\n" if kw == "function" else f"{ind}  x = x + 1\n"
    inner = [k for k in p["kids"] if k["kind"] in ("subroutine", "function")]
    if inner:
        out += f"{ind}contains\n"
        for k in inner:
            out += _render_proc(k, ind + "  ", True)
    out += f"{ind}end {kw} {p['name']}\n"
    return out


def render_module(m, rng=None):
    default = m["perm"]
    out = f"module {m['name']}\n" + _doc(m, "  ")
    for u in m.get("uses", []):
        items = [(l if l.lower() == e["name"].lower() else f"{l} => {e['name']}") for l, e in u["items"]]
        out += f"  use {u['src']['name']}, only: {', '.join(items)}\n"
    out += "  implicit none\n"
    if default == "private":
        out += "  private\n"
    stmts = []
    for e in m["kids"]:
        if e["kind"] == "alias" and default == "private" and e["perm"] == "public":
            stmts.append(f"  public :: {e['name']}\n")
    for e in m["kids"]:
        if e["kind"] in ("function", "subroutine", "generic", "absint", "type"):
            if e["perm"] != default or (e["id"] % 3 == 0):
                stmts.append(f"  {e['perm']} :: {e['name']}\n")
    out += "".join(stmts)
    for e in m["kids"]:
        if e["kind"] == "var":
            attr = f", {e['perm']}" if (e["perm"] != default or e["id"] % 2 == 0) else ""
            out += f"  integer{attr} :: {e['name']} = 1\n" + _doc(e, "    ")
    for e in m["kids"]:
        if e["kind"] == "type":
            out += f"  type :: {e['name']}\n" + _doc(e, "    ")
            for c in e["kids"]:
                if c["kind"] == "var":
                    attr = f", {c['perm']}" if (c["perm"] != "public" or c["id"] % 2 == 0) else ""
                    out += f"    integer{attr} :: {c['name']}\n" + _doc(c, "      ")
            bounds = [c for c in e["kids"] if c["kind"] == "bound"]
            if bounds:
                out += "  contains\n"
                for b in bounds:
                    attr = f", {b['perm']}" if (b["perm"] != "public" or b["id"] % 2 == 0) else ""
                    out += f"    procedure{attr} :: {b['name']} => {b['impl']}\n" + _doc(b, "      ")
            out += f"  end type {e['name']}\n"
    for e in m["kids"]:
        if e["kind"] == "absint":
            out += "  abstract interface\n"
            out += f"    subroutine {e['name']}(x)\n" + _doc(e, "      ")
            out += f"      integer, intent(in) :: x\n    end subroutine {e['name']}\n"
            out += "  end interface\n"
    for e in m["kids"]:
        if e["kind"] == "generic":
            out += f"  interface {e['name']}\n" + _doc(e, "    ")
            out += f"    module procedure {', '.join(e['targets'])}\n  end interface {e['name']}\n"
    procs = [e for e in m["kids"] if e["kind"] in ("function", "subroutine")]
    if procs:
        out += "contains\n"
        for p in procs:
            out += _render_proc(p, "  ")
    out += f"end module {m['name']}\n"
    return out


def render_A(A):
    files = {}
    if A.get("one_file"):
        files["src/all.f90"] = "\n".join(render_module(m) for m in A["modules"])
    else:
        for i, m in enumerate(A["modules"]):
            files[f"src/f{i}_{m['name'].lower()}.f90"] = render_module(m)
    for i, n in enumerate(A.get("toplevel", [])):
        files[f"src/top{i}.f90"] = (f"subroutine {n}(x)\n  !! toplevel {n}\n  integer, intent(inout) :: x\n"
                                    f"  x = 0\nend subroutine {n}\n")
    return files


# ---------------------------------------------------------------- Coq terms

def coq_str(x):
    assert all(ord(c) < 128 for c in x), repr(x)
    return '(s "' + x.replace('"', '""') + '")'


def coq_ent(e):
    kids = "[" + "; ".join(coq_ent(k) for k in e["kids"]) + "]"
    return f"(Ent {e['id']} {COQ_KIND[e['kind']]} {coq_str(e['name'])} {COQ_PERM[e['perm']]} {kids})"


def coq_aproject(A, pre):
    mods = "[" + "; ".join(coq_ent(m) for m in A["modules"]) + "]"
    disp = "[" + "; ".join(COQ_PERM[p] for p in A["display"]) + "]"
    reqs = "[" + "; ".join(f"rq {i} {coq_str(d)} {coq_str(n)}" for i, d, n in pre) + "]"
    return (f"{{| a_modules := {mods}; a_cfg := {{| c_display := {disp}; c_internals := "
            f"{'true' if A['proc_internals'] else 'false'} |}}; a_pre := {reqs} |}}")


def coq_json(j):
    if j is None:
        return "JNull"
    if isinstance(j, bool):
        return f"(JBool {'true' if j else 'false'})"
    if isinstance(j, int):
        assert j >= 0
        return f"(JNum {j})"
    if isinstance(j, str):
        return f"(JStr {coq_str(j)})"
    if isinstance(j, list):
        return "(JList [" + "; ".join(coq_json(x) for x in j) + "])"
    if isinstance(j, dict):
        return "(JDict [" + "; ".join(f"({coq_str(k)}, {coq_json(v)})" for k, v in j.items()) + "])"
    raise TypeError(type(j))


# ---------------------------------------------------------------- project B

def importable(e):
    return e["perm"] != "private" and e["kind"] in ("function", "subroutine", "generic", "absint", "type", "var")


def ln(e):
    """the name under which B's source refers to an imported entity (its own name unless re-exported renamed)"""
    return e.get("local", e["name"])


def views(am):
    """what B can import from module am: its own accessible entities, and for every accessible alias the entity
    behind it, to be named by the alias's local name"""
    out = []
    for e in am["kids"]:
        if e["kind"] == "alias":
            if e["perm"] != "private":
                v = dict(e["kids"][0])
                v.update({"local": e["name"], "perm": e["perm"], "alias": True})
                out.append(v)
        elif importable(e):
            out.append(e)
    return out


def gen_B(rng, A, doc_refs):
    """B refers to A's modules, types (extension, components, variables), procedures (calls), generic
    interfaces, variables, and (doc_refs) [[...]] references.  Name clashes: B may define a module named like
    one of A's, and types / procedures named like A's in modules that do not import them."""
    amods = A["modules"]
    bmods = []
    clash_mod = None
    if len(amods) >= 2 and rng.random() < 0.35:
        clash_mod = rng.choice(amods)["name"]
    nb = rng.choice([1, 2, 3])
    for bi in range(nb):
        bname = f"bm{bi}"
        bm = {"name": bname, "uses": [], "types": [], "vars": [], "procs": [], "refs": [], "own": []}
        for am in rng.sample(amods, k=min(len(amods), rng.choice([1, 1, 2]))):
            if clash_mod and am["name"].lower() == clash_mod.lower():
                continue
            allimps = views(am)
            taken = {n.lower() for u in bm["uses"] for n in u["names"]}
            imps = [e for e in allimps if ln(e).lower() not in taken]
            clash = len(imps) != len(allimps)
            if imps and (clash or rng.random() < 0.8):
                chosen = rng.sample(imps, k=rng.choice(range(1, len(imps) + 1)))
                only = True
            elif clash:
                continue
            else:
                chosen, only = imps, False
            bm["uses"].append({"amod": am, "only": only, "ents": chosen, "names": [ln(e) for e in chosen]})
        imported = [(u["amod"], e) for u in bm["uses"] for e in u["ents"]]
        ti = 0
        for am, e in imported:
            if e["kind"] == "type":
                r = rng.random()
                if r < 0.5:
                    bm["types"].append({"name": f"{bname}_ext{ti}", "extends": e, "comps": []})
                elif r < 0.8:
                    bm["types"].append({"name": f"{bname}_has{ti}", "extends": None, "comps": [e]})
                else:
                    bm["vars"].append({"name": f"{bname}_v{ti}", "type": e})
                ti += 1
        callees = [e for am, e in imported if e["kind"] in ("function", "subroutine", "generic")]
        usedvars = [e for am, e in imported if e["kind"] == "var"]
        if callees or usedvars or rng.random() < 0.5:
            bm["procs"].append({"name": f"{bname}_go", "calls": callees, "vars": usedvars})
        # own entities whose names clash with entities of A that this module does not import
        imported_names = {ln(e).lower() for _, e in imported}
        visible_all = {x.lower() for u in bm["uses"] for e in u["amod"]["kids"] for x in (e["name"],)}
        for am in amods:
            for e in am["kids"]:
                if e["name"].lower() in visible_all or e["name"].lower() in {o["name"].lower() for o in bm["own"]}:
                    continue
                if e["kind"] == "type" and rng.random() < 0.25:
                    bm["own"].append({"kind": "type", "name": e["name"]})
                elif e["kind"] == "subroutine" and rng.random() < 0.25:
                    bm["own"].append({"kind": "subroutine", "name": e["name"]})
        if doc_refs:
            for am, e in imported:
                if e.get("alias"):
                    continue        # [[facade:local]] finds no child of that name in the facade module
                if rng.random() < 0.7:
                    bm["refs"].append({"text": f"[[{am['name']}:{e['name']}]]", "amod": am, "ent": e, "qualified": True})
                if rng.random() < 0.3:
                    bm["refs"].append({"text": f"[[{e['name']}]]", "amod": am, "ent": e, "qualified": False})
            for u in bm["uses"]:
                if rng.random() < 0.5:
                    bm["refs"].append({"text": f"[[{u['amod']['name']}]]", "amod": u["amod"], "ent": None,
                                       "qualified": True})
        bmods.append(bm)
    if doc_refs:
        # [[type:member]] for components / bound procedures of imported types, where the type name is unambiguous
        # (one type of that name in all of A, none in B)
        own_types = {o["name"].lower() for bm in bmods for o in bm["own"] if o["kind"] == "type"}
        a_types = [e["name"].lower() for am in amods for e in am["kids"] if e["kind"] == "type"]
        for bm in bmods:
            for u in bm["uses"]:
                for e in u["ents"]:
                    if e.get("alias") or e["kind"] != "type" or e["name"].lower() in own_types \
                            or a_types.count(e["name"].lower()) != 1:
                        continue
                    if e["perm"] not in A["display"]:
                        continue
                    for c in e["kids"]:
                        if c["perm"] in A["display"] and rng.random() < 0.7:
                            bm["refs"].append({"text": f"[[{e['name']}:{c['name']}]]", "amod": u["amod"], "ent": c,
                                               "qualified": True, "member_of": e})
    if clash_mod:
        # B's own module with the name of one of A's modules, and a module using it
        bmods.append({"name": clash_mod, "uses": [], "types": [], "vars": [], "procs": [], "refs": [],
                      "own": [{"kind": "subroutine", "name": "local_only"}], "clash": True})
        bmods.append({"name": "bm_user", "uses": [{"local": clash_mod}], "types": [], "vars": [], "procs": [],
                      "refs": [], "own": []})
    return {"modules": bmods, "clash_mod": clash_mod, "doc_refs": doc_refs}


def render_B(B):
    files = {}
    for i, bm in enumerate(B["modules"]):
        out = f"module {bm['name']}\n  !! module of B\n"
        for r in bm["refs"]:
            out += f"  !! see {r['text']} here\n"
        for u in bm["uses"]:
            if "local" in u:
                out += f"  use {u['local']}\n"
            elif u["only"]:
                out += f"  use {u['amod']['name']}, only: {', '.join(u['names'])}\n"
            else:
                out += f"  use {u['amod']['name']}\n"
        out += "  implicit none\n"
        for v in bm["vars"]:
            out += f"  type({ln(v['type'])}) :: {v['name']}\n    !! a variable of B\n"
        for o in bm["own"]:
            if o["kind"] == "type":
                out += f"  type :: {o['name']}\n    !! own type of B\n    integer :: own_comp\n  end type {o['name']}\n"
        for t in bm["types"]:
            ext = f", extends({ln(t['extends'])})" if t["extends"] else ""
            out += f"  type{ext} :: {t['name']}\n    !! a type of B\n"
            for j, c in enumerate(t["comps"]):
                out += f"    type({ln(c)}) :: part{j}\n"
            out += "    integer :: extra\n"
            out += f"  end type {t['name']}\n"
        subs = [o for o in bm["own"] if o["kind"] == "subroutine"]
        if bm["procs"] or subs:
            out += "contains\n"
        for p in bm["procs"]:
            out += f"  subroutine {p['name']}(x)\n    !! a procedure of B\n    integer, intent(inout) :: x\n"
            for c in p["calls"]:
                if c["kind"] == "function":
                    out += f"    x = {ln(c)}(x)\n"
                else:
                    out += f"    call {ln(c)}(x)\n"
            for v in p["vars"]:
                out += f"    x = x + {ln(v)}\n"
            out += f"  end subroutine {p['name']}\n"
        for o in subs:
            out += (f"  subroutine {o['name']}(x)\n    !! own procedure of B\n    integer, intent(inout) :: x\n"
                    f"    x = 2\n  end subroutine {o['name']}\n")
        out += f"end module {bm['name']}\n"
        files[f"src/b{i}.f90"] = out
    return files


# ---------------------------------------------------------------- descriptions (modules.json) and their mutations

def small_description(rng):
    """a hand-made description in the shape FORD writes"""
    def var(n, page):
        return {"name": n, "external_url": f"./{page}#variable-{n.lower()}", "obj": "variable", "vartype": "integer",
                "permission": "public", "attribs": []}

    def proc(n, kind):
        return {"name": n, "external_url": f"./proc/{n.lower()}.html", "obj": "proc", "proctype": kind,
                "functions": [], "subroutines": [], "interfaces": [], "absinterfaces": [], "types": [],
                "variables": [], "permission": "public", "attribs": []}
    mods = []
    for mn in rng.sample(MOD_NAMES, k=rng.choice([1, 2])):
        page = f"module/{mn.lower()}.html"
        procs = [proc(n, rng.choice(["Function", "Subroutine"])) for n in rng.sample(PROC_NAMES[:5], k=rng.choice([0, 1, 2]))]
        tys = []
        for tn in rng.sample(TYPE_NAMES[:3], k=rng.choice([0, 1])):
            tp = f"type/{tn.lower()}.html"
            tys.append({"name": tn, "external_url": f"./{tp}", "obj": "type",
                        "variables": [var(c, tp) for c in rng.sample(COMP_NAMES, k=rng.choice([0, 1, 2]))],
                        "boundprocs": [{"name": b, "external_url": f"./{tp}#boundprocedure-{b.lower()}",
                                        "obj": "boundprocedure", "permission": "public", "deferred": "False",
                                        "generic": "False", "attribs": []}
                                       for b in rng.sample(BOUND_NAMES, k=rng.choice([0, 1]))],
                        "permission": "public", "attribs": []})
        gens = [{"name": g, "external_url": f"./interface/{g.lower()}.html", "obj": "interface",
                 "proctype": "Interface", "functions": [], "subroutines": [], "variables": [],
                 "permission": "public", "generic": "True"} for g in rng.sample(GEN_NAMES[:2], k=rng.choice([0, 1]))]
        vs = [var(v, page) for v in rng.sample(VAR_NAMES[:4], k=rng.choice([0, 1, 2]))]
        mods.append({"name": mn, "external_url": f"./{page}", "obj": "module",
                     "pub_procs": {p["name"].lower(): copy_json(p) for p in procs + gens},
                     "pub_absints": {}, "pub_types": {t["name"].lower(): copy_json(t) for t in tys},
                     "pub_vars": {v["name"].lower(): copy_json(v) for v in vs},
                     "functions": [p for p in procs if p["proctype"] == "Function"],
                     "subroutines": [p for p in procs if p["proctype"] == "Subroutine"],
                     "interfaces": gens, "absinterfaces": [], "types": tys, "variables": vs,
                     "permission": "public"})
    return {"ford-metadata": {"version": "0"}, "modules": mods}


def copy_json(j):
    import json
    return json.loads(json.dumps(j))


def entity_nodes(j, path=()):
    """paths of all dicts that look like entity descriptions"""
    if isinstance(j, dict):
        if "name" in j or "obj" in j:
            yield path
        for k, v in j.items():
            yield from entity_nodes(v, path + (k,))
    elif isinstance(j, list):
        for i, v in enumerate(j):
            yield from entity_nodes(v, path + (i,))


def get_at(j, path):
    for p in path:
        j = j[p]
    return j


JUNK = [None, 0, 3, "", "text", [], [1], {}, {"k": "v"}, True, False, ["ford-metadata"]]
URLS = ["", "./proc/x.html", "proc/y.html", "z.html", "/abs/p.html", "./type/t.html#variable-q", None, 0, 7, [], ["u"]]
OBJS = ["module", "MODULE", "type", "Type", "variable", "function", "subroutine", "boundprocedure", "interface",
        "proc", "program", "", None, 4, []]


def mutate_description(rng, j):
    """one random mutation; returns a new JSON value"""
    j = copy_json(j)
    r = rng.random()
    if r < 0.12:
        return rng.choice([None, 5, "plain", "has ford-metadata inside", [], {}, ["ford-metadata"], {"ford-metadata": {}},
                           {"ford-metadata": {}, "modules": rng.choice([None, 3, "abc", {}, {"a": 1}])},
                           j.get("modules", []) if isinstance(j, dict) else j,
                           {"modules": j.get("modules", [])} if isinstance(j, dict) else j,
                           [None], [3], ["str"], [[]], [{}]])
    nodes = list(entity_nodes(j))
    if not nodes:
        return j
    node = get_at(j, rng.choice(nodes))
    r = rng.random()
    if r < 0.3:
        k = rng.choice(["name", "external_url", "obj", "proctype"] + list(node.keys()))
        node.pop(k, None)
    elif r < 0.45:
        node["external_url"] = rng.choice(URLS)
    elif r < 0.6:
        if rng.random() < 0.5:
            node["obj"] = rng.choice(OBJS)
        else:
            node["proctype"] = rng.choice(OBJS + ["Function", "Subroutine", "Interface"])
    elif r < 0.9:
        k = rng.choice(["pub_procs", "pub_types", "pub_vars", "functions", "subroutines", "types", "variables",
                        "boundprocs", "permission", "attribs", "interfaces", "absinterfaces", "generic"])
        node[k] = rng.choice(JUNK + [[node.get("name", "x")], {"a": "b"}, [{"name": "n"}], ["s", None, 0]])
    else:
        node["name"] = rng.choice(["Other", "init", None, 3, []])
    return j
