"""C05 — abstract entity trees (the input type of Sem/Display.v), their generator, the renderer to Fortran
text and the printer to Coq terms.

A node is {"id", "kind", "nk", "name", "perm", "doc", "doc2", "display", "internals", "children"} with
  kind     what to render: file module submodule program subroutine function modproc modsub modfun type generic
           explicit abstract mpiface var comp bound final enum enumerator common commonvar namelist blockdata arg
  nk       the model's node kind (NFile NModule NSubmodule NProgram NProc NType NBlockData NOther)
  perm     the accessibility Fortran defines for the entity (the renderer writes the attribute / access
           statement that makes it so: default statement first, explicit keyword otherwise; a constructor
           interface takes its type's);  fperm  entity.permission as FORD reports it, filled in by the harness
  doc      the entity carries a doc comment with tracer words  zq<id>w0 zq<id>w1
  doc2     (nameless / abstract interface blocks) the procedure inside carries its own comment  zq<id>w5
  display  words of a `display:` metadata entry ([] = none given);  internals  None | True | False
  children [[list name, node], ...] in the order of the model
Every name ends in the node id, so FORD's objects are matched to nodes by name.
"""
from harness.core import coq_list, coq_bool

WORDS = {"public": "WPublic", "private": "WPrivate", "protected": "WProtected", "none": "WNone"}
CP = {"public": "Public", "private": "Private", "protected": "Protected"}
LN = {"modules": "LModules", "submodules": "LSubmodules", "programs": "LPrograms", "procs": "LProcs",
      "blockdata": "LBlockData", "functions": "LFunctions", "subroutines": "LSubroutines", "types": "LTypes",
      "interfaces": "LInterfaces", "absinterfaces": "LAbsInterfaces", "variables": "LVariables",
      "enums": "LEnums", "common": "LCommon", "namelists": "LNamelists", "modprocedures": "LModProcedures",
      "modfunctions": "LModFunctions", "modsubroutines": "LModSubroutines", "boundprocs": "LBoundProcs",
      "finalprocs": "LFinalProcs", "args": "LArgs"}
DISPLAYS = [[], ["public"], ["private"], ["protected"], ["public", "private"], ["public", "protected"],
            ["private", "protected"], ["public", "private", "protected"], ["none"]]


class Ids:
    def __init__(self):
        self.n = 0

    def __call__(self):
        self.n += 1
        return self.n


def mk(ids, kind, nk, prefix, perm="public", doc=True, **kw):
    i = ids()
    n = {"id": i, "kind": kind, "nk": nk, "name": f"{prefix}{i}", "perm": perm, "doc": doc, "doc2": False,
         "display": [], "internals": None, "children": []}
    n.update(kw)
    return n


def walk(n, path=()):
    """yield (node, path of (list name, parent node)) for the whole tree"""
    yield n, path
    for l, c in n["children"]:
        yield from walk(c, path + ((l, n),))


# ------------------------------------------------------------------ Coq printer

def coq_word(w):
    return WORDS.get(w, "WOther")


def coq_node(n):
    internals = "None" if n["internals"] is None else f"(Some {coq_bool(n['internals'])})"
    a = (f"(mk_attrs {n['id']} {CP[n.get('fperm') or n['perm']]} {CP[n['perm']]} {coq_bool(n['doc'])} {coq_bool(n['doc2'])} "
         f"{coq_list(coq_word(w) for w in n['display'])} {internals})")
    cs = coq_list(f"({LN[l]}, {coq_node(c)})" for l, c in n["children"])
    return f"Node {n['nk']} {a} {cs}"


def coq_cfg(cfg):
    return (f"(mk_cfg {coq_list(coq_word(w) for w in cfg['display'])} {coq_bool(cfg['proc_internals'])} "
            f"{coq_bool(cfg['hide_undoc'])} {coq_bool(cfg.get('incl_src', True))})")


# ------------------------------------------------------------------ generator

def rdoc(rng, p=0.75):
    return rng.random() < p


def rdisplay(rng, p):
    if rng.random() >= p:
        return []
    d = list(rng.choice(DISPLAYS[1:]))
    if rng.random() < 0.1:
        d.append(rng.choice(["foo", "all"]))          # unknown words are ignored
    if rng.random() < 0.05:
        d = [rng.choice(["foo", "everything"])]
    return d


def gen_args(rng, ids, perm, n=None):
    return [["args", mk(ids, "arg", "NOther", "a", perm, rdoc(rng, 0.5))] for _ in range(rng.choice([0, 1, 2]) if n is None else n)]


def gen_proc(rng, ids, kind, perm, inner_perm, knobs, depth=0, prefix=None):
    """a function / subroutine (kind) whose own permission is perm and whose contents inherit inner_perm"""
    p = mk(ids, kind, "NProc", prefix or ("f" if kind in ("function", "modfun") else "s"), perm, rdoc(rng))
    p["display"] = rdisplay(rng, knobs.get("p_meta", 0.2))
    if rng.random() < knobs.get("p_internals_meta", 0.25):
        p["internals"] = rng.random() < 0.5
    ch = p["children"]
    if kind != "modproc":
        ch += gen_args(rng, ids, inner_perm)
    for _ in range(rng.choice([0, 1, 2])):
        ch.append(["variables", mk(ids, "var", "NOther", "v", inner_perm, rdoc(rng))])
    if depth == 0:
        if rng.random() < knobs.get("p_local_type", 0.3):
            ch.append(["types", gen_type(rng, ids, inner_perm, [], knobs, in_proc=True)])
        if rng.random() < knobs.get("p_local_iface", 0.2):
            ch.append(["interfaces", gen_explicit(rng, ids, "explicit", inner_perm)])
        if rng.random() < knobs.get("p_enum", 0.15):
            ch.append(["enums", gen_enum(rng, ids, inner_perm)])
        if rng.random() < knobs.get("p_common", 0.15):
            ch.append(["common", gen_common(rng, ids)])
        nvars = [c for l, c in ch if l == "variables"]
        if nvars and rng.random() < knobs.get("p_namelist", 0.2):
            nl = mk(ids, "namelist", "NOther", "nl", inner_perm, False)
            nl["vars"] = [v["name"] for v in nvars]
            ch.append(["namelists", nl])
        for _ in range(rng.choice([0, 0, 1, 2]) if rng.random() < knobs.get("p_internal", 0.5) else 0):
            k2 = rng.choice(["function", "subroutine"])
            ch.append(["functions" if k2 == "function" else "subroutines",
                       gen_proc(rng, ids, k2, inner_perm, inner_perm, knobs, depth + 1)])
    return p


def gen_type(rng, ids, perm, targets, knobs, in_proc=False, finals=()):
    t = mk(ids, "type", "NType", "t", perm, rdoc(rng))
    t["display"] = rdisplay(rng, knobs.get("p_meta", 0.2))
    t["by_stmt"] = (not in_proc) and rng.random() < 0.4       # accessibility by access statement, not attribute
    t["comp_default"] = rng.choice([None, None, "private"])
    t["bind_default"] = rng.choice([None, None, "private"])
    for _ in range(rng.choice([0, 1, 2, 3])):
        cp = rng.choice(["public", "private"])
        t["children"].append(["variables", mk(ids, "comp", "NOther", "c", cp, rdoc(rng))])
    if targets and not in_proc:
        for _ in range(rng.choice([0, 1, 2])):
            b = mk(ids, "bound", "NOther", "b", rng.choice(["public", "private"]), rdoc(rng))
            b["target"] = rng.choice(targets)
            t["children"].append(["boundprocs", b])
        for f in finals:
            fn = mk(ids, "final", "NOther", "fin", "public", rdoc(rng))
            fn["target"] = f
            t["children"].append(["finalprocs", fn])
    return t


def gen_explicit(rng, ids, kind, perm, module_proc=False):
    """one interface block holding one procedure: FORD makes a FortranModuleProcedureInterface of it"""
    x = mk(ids, kind, "NOther", {"explicit": "x", "abstract": "ai", "mpiface": "mp"}[kind], perm, False)
    r = rng.random()
    if r < 0.4:
        x["doc"] = True
    elif r < 0.8:
        x["doc2"] = True
    elif r < 0.9:
        x["doc"] = x["doc2"] = True
    x["isfun"] = rng.random() < 0.5
    x["children"] = gen_args(rng, ids, perm)
    return x


def gen_enum(rng, ids, perm):
    e = mk(ids, "enum", "NEnum", "en", perm, rdoc(rng))
    for _ in range(rng.choice([1, 2])):
        e["children"].append(["variables", mk(ids, "enumerator", "NOther", "e", perm, rdoc(rng))])
    return e


def gen_common(rng, ids):
    c = mk(ids, "common", "NCommon", "cb", "public", rdoc(rng))
    for _ in range(rng.choice([1, 2])):
        c["children"].append(["variables", mk(ids, "commonvar", "NOther", "cv", "public", False)])
    return c


def gen_module(rng, ids, knobs, with_submodule=False):
    default = rng.choice([None, "public", "private", "private"])
    dflt = default or "public"
    m = mk(ids, "module", "NModule", "m", dflt, rdoc(rng))
    m["default"] = default
    m["display"] = rdisplay(rng, knobs.get("p_meta", 0.2))
    ch = m["children"]

    def perm(protected_ok=False):
        return rng.choice(["public", "private", dflt] + (["protected"] if protected_ok else []))
    procs = []
    for _ in range(rng.choice([1, 2, 3])):
        k = rng.choice(["function", "subroutine"])
        procs.append(gen_proc(rng, ids, k, perm(), dflt, knobs))
    finals = []
    if rng.random() < knobs.get("p_final", 0.3):
        f = gen_proc(rng, ids, "subroutine", perm(), dflt, knobs)
        procs.append(f)
        finals = [f["name"]]
    targets = [p["name"] for p in procs]
    for _ in range(rng.choice([0, 1, 2])):
        ch.append(["types", gen_type(rng, ids, perm(), targets, knobs, finals=finals if rng.random() < 0.7 else ())])
        finals = []
    # constructor interfaces: a generic interface named after a derived type has the type's accessibility
    for t in [c for l, c in ch if l == "types"]:
        if rng.random() < knobs.get("p_constructor", 0.5):
            g = mk(ids, "constructor", "NOther", "g", t["perm"], rdoc(rng))
            g["ctor_of"] = t["name"]
            g["members"] = rng.sample(targets, rng.choice([1, min(2, len(targets))]))
            ch.append(["interfaces", g])
    for _ in range(rng.choice([0, 1, 2])):
        r = rng.random()
        if r < 0.5:
            g = mk(ids, "generic", "NOther", "g", perm(), rdoc(rng))
            g["members"] = rng.sample(targets, rng.choice([1, min(2, len(targets))]))
            ch.append(["interfaces", g])
        else:
            ch.append(["interfaces", gen_explicit(rng, ids, "explicit", perm())])
    if rng.random() < knobs.get("p_abstract", 0.4):
        ch.append(["absinterfaces", gen_explicit(rng, ids, "abstract", perm())])
    mps = []
    if with_submodule:
        for _ in range(rng.choice([1, 2, 3])):
            x = gen_explicit(rng, ids, "mpiface", perm(), module_proc=True)
            ch.append(["interfaces", x])
            mps.append(x)
    # separate module procedures implemented in the module itself: short form (`module procedure x`, kept in
    # modprocedures) or long form (`module subroutine x(..)`, an ordinary entry of subroutines / functions);
    # interface and implementation are one identifier and share its accessibility
    self_impls = []
    for _ in range(rng.choice([1, 2]) if rng.random() < knobs.get("p_self_impl", 0.3) else 0):
        x = gen_explicit(rng, ids, "mpiface", perm(), module_proc=True)
        ch.append(["interfaces", x])
        if rng.random() < 0.6:
            p = gen_proc(rng, ids, "modproc", x["perm"], dflt, knobs, prefix="mpi")
            p["implements"] = x
            self_impls.append(["modprocedures", p])
        else:
            p = gen_proc(rng, ids, "modfun" if x["isfun"] else "modsub", x["perm"], dflt, knobs, prefix="mpi")
            p["implements"] = x
            p["children"] = gen_args(rng, ids, dflt, n=len(x["children"])) + [c for c in p["children"] if c[0] != "args"]
            self_impls.append(["functions" if x["isfun"] else "subroutines", p])
    for _ in range(rng.choice([0, 1, 2, 3])):
        ch.append(["variables", mk(ids, "var", "NOther", "v", perm(True), rdoc(rng))])
    if rng.random() < knobs.get("p_enum", 0.25):
        ch.append(["enums", gen_enum(rng, ids, dflt)])
    if rng.random() < knobs.get("p_common", 0.2):
        ch.append(["common", gen_common(rng, ids)])
    mvars = [c for l, c in ch if l == "variables"]
    if mvars and rng.random() < knobs.get("p_namelist", 0.2):
        nl = mk(ids, "namelist", "NOther", "nl", dflt, False)
        nl["vars"] = [v["name"] for v in mvars]
        ch.append(["namelists", nl])
    for p in procs:
        ch.append(["functions" if p["kind"] == "function" else "subroutines", p])
    ch += self_impls
    units = [m]
    if with_submodule:
        sm = mk(ids, "submodule", "NSubmodule", "sm", "private", rdoc(rng))
        sm["ancestor"] = m["name"]
        sm["display"] = rdisplay(rng, knobs.get("p_meta", 0.2))
        for _ in range(rng.choice([0, 1, 2])):
            sm["children"].append(["variables", mk(ids, "var", "NOther", "v", "private", rdoc(rng))])
        if rng.random() < 0.4:
            sm["children"].append(["types", gen_type(rng, ids, "private", [], knobs, in_proc=True)])
        for x in mps:
            r = rng.random()
            if r < 0.5:        # short form: module procedure <name>
                p = gen_proc(rng, ids, "modproc", "private", "private", knobs, prefix="mpi")
                p["implements"] = x
                sm["children"].append(["modprocedures", p])
            else:              # module subroutine / module function with the interface repeated
                kind = "modfun" if x["isfun"] else "modsub"
                p = gen_proc(rng, ids, kind, "private", "private", knobs, prefix="mpi")
                p["implements"] = x
                p["children"] = [c for c in p["children"] if c[0] != "args"]
                p["children"] = gen_args(rng, ids, "private", n=len(x["children"])) + p["children"]
                sm["children"].append(["modfunctions" if x["isfun"] else "modsubroutines", p])
        for _ in range(rng.choice([0, 1])):
            k = rng.choice(["function", "subroutine"])
            sm["children"].append(["functions" if k == "function" else "subroutines",
                                   gen_proc(rng, ids, k, "private", "private", knobs)])
        units.append(sm)
    return units


def gen_program(rng, ids, knobs):
    p = mk(ids, "program", "NProgram", "pg", "public", rdoc(rng))
    p["display"] = rdisplay(rng, knobs.get("p_meta", 0.2))
    ch = p["children"]
    for _ in range(rng.choice([0, 1, 2])):
        ch.append(["variables", mk(ids, "var", "NOther", "v", "public", rdoc(rng))])
    if rng.random() < 0.3:
        ch.append(["types", gen_type(rng, ids, "public", [], knobs, in_proc=True)])
    if rng.random() < 0.3:
        ch.append(["interfaces", gen_explicit(rng, ids, "explicit", "public")])
    pvars = [c for l, c in ch if l == "variables"]
    if pvars and rng.random() < knobs.get("p_namelist", 0.2):
        nl = mk(ids, "namelist", "NOther", "nl", "public", False)
        nl["vars"] = [v["name"] for v in pvars]
        ch.append(["namelists", nl])
    for _ in range(rng.choice([0, 1, 2])):
        k = rng.choice(["function", "subroutine"])
        ch.append(["functions" if k == "function" else "subroutines", gen_proc(rng, ids, k, "public", "public", knobs, 1)])
    return p


def gen_blockdata(rng, ids, knobs):
    b = mk(ids, "blockdata", "NBlockData", "bd", "public", rdoc(rng))
    b["display"] = rdisplay(rng, knobs.get("p_meta", 0.2))
    for _ in range(rng.choice([0, 1, 2])):
        b["children"].append(["variables", mk(ids, "var", "NOther", "v", "public", rdoc(rng))])
    if rng.random() < 0.5:
        b["children"].append(["common", gen_common(rng, ids)])
    return b


def gen_file(rng, ids, knobs):
    f = mk(ids, "file", "NFile", "src", "public", rdoc(rng, 0.4))
    f["name"] = f"src{f['id']}.f90"
    f["display"] = rdisplay(rng, knobs.get("p_file_meta", 0.15))
    units = []
    for _ in range(rng.choice([1, 1, 2])):
        r = rng.random()
        if r < 0.6:
            units += gen_module(rng, ids, knobs, with_submodule=rng.random() < knobs.get("p_submodule", 0.3))
        elif r < 0.75:
            units.append(gen_proc(rng, ids, rng.choice(["function", "subroutine"]), "public", "public", knobs))
        elif r < 0.9:
            units.append(gen_blockdata(rng, ids, knobs))
    if rng.random() < knobs.get("p_program", 0.3):
        units.append(gen_program(rng, ids, knobs))
    if not units:
        units = gen_module(rng, ids, knobs)
    lst = {"module": "modules", "submodule": "submodules", "program": "programs", "blockdata": "blockdata",
           "function": "procs", "subroutine": "procs"}
    # the model's order: modules, submodules, programs, procedures, block data — any order will do, the
    # comparison is per id; keep source order
    f["children"] = [[lst[u["kind"]], u] for u in units]
    return f


def spell(rng, w):
    """a `display:` word in random letter case (the words are keywords: case is not significant)"""
    return rng.choice([w, w, w.upper(), w.capitalize(), w[0] + w[1:].upper()])


def respell_display(rng, files):
    for f in files:
        for n, _ in walk(f):
            if n["display"]:
                n["display_spell"] = [spell(rng, w) for w in n["display"]]


def gen_project(rng, knobs=None):
    knobs = dict(knobs or {})
    ids = Ids()
    files = [gen_file(rng, ids, knobs) for _ in range(knobs.get("nfiles") or rng.choice([1, 1, 2]))]
    respell_display(rng, files)
    return files


# ------------------------------------------------------------------ renderer

def doc_lines(n, ind, second=False):
    out = []
    if not second:
        for w in (n.get("display_spell") or n["display"]):     # same words, possibly in another letter case
            out.append(f"{ind}!! display: {w}")
        if n["internals"] is not None:
            out.append(f"{ind}!! proc_internals: {'true' if n['internals'] else 'false'}")
        if n["doc"]:
            out.append(f"{ind}!! zq{n['id']}w0 zq{n['id']}w1")
    elif n["doc2"]:
        out.append(f"{ind}!! zq{n['id']}w5 zq{n['id']}w6")
    return out


def kids(n, l):
    return [c for ll, c in n["children"] if ll == l]


def render_args_decl(n, ind):
    out = []
    for a in kids(n, "args"):
        out.append(f"{ind}integer, intent(in) :: {a['name']}")
        out += doc_lines(a, ind + "  ")
    return out


def arglist(n):
    return "(" + ", ".join(a["name"] for a in kids(n, "args")) + ")"


def render_type(t, ind, dflt):
    attr = f", {t['perm']}" if t["perm"] != dflt and not t.get("by_stmt") else ""
    out = [f"{ind}type{attr} :: {t['name']}"] + doc_lines(t, ind + "  ")
    i2 = ind + "  "
    cd = "private" if t.get("comp_default") else "public"
    if t.get("comp_default"):
        out.append(i2 + "private")
    for c in kids(t, "variables"):
        a = f", {c['perm']}" if c["perm"] != cd else ""
        out.append(f"{i2}integer{a} :: {c['name']}")
        out += doc_lines(c, i2 + "  ")
    binds, fins = kids(t, "boundprocs"), kids(t, "finalprocs")
    if binds or fins:
        out.append(ind + "contains")
        bd = "private" if t.get("bind_default") else "public"
        if t.get("bind_default"):
            out.append(i2 + "private")
        for b in binds:
            a = f", {b['perm']}" if b["perm"] != bd else ""
            out.append(f"{i2}procedure, nopass{a} :: {b['name']} => {b['target']}")
            out += doc_lines(b, i2 + "  ")
        for f in fins:
            out.append(f"{i2}final :: {f['target']}")
            out += doc_lines(f, i2 + "  ")
    out.append(f"{ind}end type {t['name']}")
    return out


def render_iface_block(x, ind):
    """nameless / abstract interface block with one procedure; module procedure interfaces likewise"""
    head = "abstract interface" if x["kind"] == "abstract" else "interface"
    out = [ind + head] + doc_lines(x, ind + "  ")
    i2 = ind + "  "
    pre = "module " if x["kind"] == "mpiface" else ""
    if x["isfun"]:
        out.append(f"{i2}{pre}function {x['name']}{arglist(x)}")
        out += doc_lines(x, i2 + "  ", second=True)
        out += render_args_decl(x, i2 + "  ")
        out.append(f"{i2}  integer :: {x['name']}")
        out.append(f"{i2}end function {x['name']}")
    else:
        out.append(f"{i2}{pre}subroutine {x['name']}{arglist(x)}")
        out += doc_lines(x, i2 + "  ", second=True)
        out += render_args_decl(x, i2 + "  ")
        out.append(f"{i2}end subroutine {x['name']}")
    out.append(ind + "end interface")
    return out


def render_enum(e, ind):
    out = [f"{ind}enum, bind(c)"] + doc_lines(e, ind + "  ")
    for k, v in enumerate(kids(e, "variables")):
        out.append(f"{ind}  enumerator :: {v['name']} = {k}")
        out += doc_lines(v, ind + "    ")
    out.append(f"{ind}end enum")
    return out


def render_common(c, ind):
    return [f"{ind}common /{c['name']}/ " + ", ".join(v["name"] for v in kids(c, "variables"))] + doc_lines(c, ind + "  ")


def render_spec(n, ind, dflt, access_ok):
    """specification part of a module / program / procedure body"""
    out = []
    for t in kids(n, "types"):
        out += render_type(t, ind, dflt)
    for x in kids(n, "interfaces"):
        if x["kind"] in ("generic", "constructor"):
            out.append(f"{ind}interface {fname(x)}")
            out += doc_lines(x, ind + "  ")
            out.append(f"{ind}  module procedure " + ", ".join(x["members"]))
            out.append(f"{ind}end interface {fname(x)}")
        else:
            out += render_iface_block(x, ind)
    for x in kids(n, "absinterfaces"):
        out += render_iface_block(x, ind)
    for v in kids(n, "variables"):
        a = f", {v['perm']}" if access_ok and v["perm"] != dflt else ""
        out.append(f"{ind}integer{a} :: {v['name']}")
        out += doc_lines(v, ind + "  ")
    for e in kids(n, "enums"):
        out += render_enum(e, ind)
    for c in kids(n, "common"):
        out += render_common(c, ind)
    for nl in kids(n, "namelists"):
        out.append(f"{ind}namelist /{nl['name']}/ " + ", ".join(nl["vars"]))
        out += doc_lines(nl, ind + "  ")
    return out


def render_proc(p, ind, dflt):
    k = p["kind"]
    out = []
    if k == "modproc":
        out.append(f"{ind}module procedure {p['implements']['name']}")
        end = f"{ind}end procedure {p['implements']['name']}"
        name = p["implements"]["name"]
    else:
        name = p["implements"]["name"] if k in ("modsub", "modfun") else p["name"]
        pre = "module " if k in ("modsub", "modfun") else ""
        word = "function" if k in ("function", "modfun") else "subroutine"
        out.append(f"{ind}{pre}{word} {name}{arglist(p)}")
        end = f"{ind}end {word} {name}"
    i2 = ind + "  "
    out += doc_lines(p, i2)
    out += render_args_decl(p, i2)
    if k in ("function", "modfun"):
        out.append(f"{i2}integer :: {name}")
    out += render_spec(p, i2, dflt, access_ok=False)
    if k in ("function", "modfun"):
        out.append(f"{i2}{name} = 1")
    inner = kids(p, "functions") + kids(p, "subroutines")
    if inner:
        out.append(ind + "contains")
        for q in inner:
            out += render_proc(q, i2, dflt)
    out.append(end)
    return out


def fname(n):
    """the name FORD will report for the node (module-procedure implementations carry the interface's name,
    constructor interfaces the type's)"""
    if n["kind"] == "constructor":
        return n["ctor_of"]
    return n["implements"]["name"] if n["kind"] in ("modproc", "modsub", "modfun") else n["name"]


def render_unit(u):
    k = u["kind"]
    out = []
    if k in ("function", "subroutine"):
        return render_proc(u, "", "public")
    if k == "module":
        dflt = u["perm"]
        out.append(f"module {u['name']}")
        out += doc_lines(u, "  ")
        out.append("  implicit none")
        if u.get("default"):
            out.append("  " + u["default"])
        named = [c for l, c in u["children"] if l in ("functions", "subroutines", "interfaces", "absinterfaces")
                 and c["kind"] not in ("constructor", "modsub", "modfun")]
        named += [c for l, c in u["children"] if l == "types" and c.get("by_stmt")]
        for acc in ("public", "private"):
            names = [c["name"] for c in named if c["perm"] == acc and acc != dflt]
            if names:
                out.append(f"  {acc} :: " + ", ".join(names))
        out += render_spec(u, "  ", dflt, access_ok=True)
        procs = kids(u, "functions") + kids(u, "subroutines") + kids(u, "modprocedures")
        if procs:
            out.append("contains")
            for p in procs:
                out += render_proc(p, "  ", dflt)
        out.append(f"end module {u['name']}")
    elif k == "submodule":
        out.append(f"submodule ({u['ancestor']}) {u['name']}")
        out += doc_lines(u, "  ")
        out += render_spec(u, "  ", "private", access_ok=False)
        procs = (kids(u, "modprocedures") + kids(u, "modfunctions") + kids(u, "modsubroutines")
                 + kids(u, "functions") + kids(u, "subroutines"))
        if procs:
            out.append("contains")
            for p in procs:
                out += render_proc(p, "  ", "private")
        out.append(f"end submodule {u['name']}")
    elif k == "program":
        out.append(f"program {u['name']}")
        out += doc_lines(u, "  ")
        out += render_spec(u, "  ", "public", access_ok=False)
        procs = kids(u, "functions") + kids(u, "subroutines")
        if procs:
            out.append("contains")
            for p in procs:
                out += render_proc(p, "  ", "public")
        out.append(f"end program {u['name']}")
    elif k == "blockdata":
        out.append(f"block data {u['name']}")
        out += doc_lines(u, "  ")
        out += render_spec(u, "  ", "public", access_ok=False)
        out.append(f"end block data {u['name']}")
    else:
        raise ValueError(k)
    return out


def render_file(f):
    out = doc_lines(f, "")
    for _, u in f["children"]:
        out += render_unit(u)
        out.append("")
    return "\n".join(out) + "\n"


def render_project(files):
    return {f"src/{f['name']}": render_file(f) for f in files}


# ------------------------------------------------------------------ the fixed program of the exhaustive layer

def template_project():
    """One file: a default-private module with entities of every permission and kind that prune() filters
    (types with components and bindings, generic / nameless / abstract interfaces, variables, procedures with
    dummy arguments, locals, an internal procedure and a local type), a program with a contained procedure and
    a top-level procedure, a submodule implementing separate module procedures of the module in short and long
    form (locals, namelists), with a type, a variable and a namelist of its own.
    -> (files, {level: node}) where level in file / module / type / procedure / submodule"""
    ids = Ids()
    f = mk(ids, "file", "NFile", "src", "public", True)
    f["name"] = f"src{f['id']}.f90"
    m = mk(ids, "module", "NModule", "m", "private", True)
    m["default"] = "private"

    def proc(kind, perm, inner, doc=True):
        p = mk(ids, kind, "NProc", "f" if kind == "function" else "s", perm, doc)
        p["children"] = [["args", mk(ids, "arg", "NOther", "a", inner, True)],
                         ["variables", mk(ids, "var", "NOther", "v", inner, True)],
                         ["variables", mk(ids, "var", "NOther", "v", inner, False)]]
        return p
    p_pub, p_priv = proc("subroutine", "public", "private"), proc("function", "private", "private")
    lt = mk(ids, "type", "NType", "t", "private", True)
    lt["comp_default"] = lt["bind_default"] = None
    lt["children"] = [["variables", mk(ids, "comp", "NOther", "c", "public", True)]]
    p_pub["children"].append(["types", lt])
    inner = proc("subroutine", "private", "private")
    p_pub["children"].append(["subroutines", inner])
    p_undoc = proc("subroutine", "public", "private", doc=False)
    targets = [p_pub["name"], p_priv["name"]]
    t = mk(ids, "type", "NType", "t", "public", True)
    t["comp_default"] = t["bind_default"] = None
    for perm, doc in (("public", True), ("private", True), ("public", False)):
        t["children"].append(["variables", mk(ids, "comp", "NOther", "c", perm, doc)])
    for perm, doc, tg in (("public", True, targets[0]), ("private", True, targets[1]), ("public", False, targets[1])):
        b = mk(ids, "bound", "NOther", "b", perm, doc)
        b["target"] = tg
        t["children"].append(["boundprocs", b])
    # final procedures: a documented one, and an undocumented one whose target subroutine is documented
    for doc, tg in ((True, targets[0]), (False, targets[1])):
        fn = mk(ids, "final", "NOther", "fin", "public", doc)
        fn["target"] = tg
        t["children"].append(["finalprocs", fn])
    t2 = mk(ids, "type", "NType", "t", "private", True)
    t2["comp_default"] = t2["bind_default"] = None
    t2["children"] = [["variables", mk(ids, "comp", "NOther", "c", "public", True)]]
    g = mk(ids, "generic", "NOther", "g", "public", True)
    g["members"] = [targets[1]]
    g2 = mk(ids, "generic", "NOther", "g", "private", False)
    g2["members"] = [targets[0]]
    x = mk(ids, "explicit", "NOther", "x", "public", True, isfun=False)
    x["children"] = [["args", mk(ids, "arg", "NOther", "a", "public", True)]]
    ai = mk(ids, "abstract", "NOther", "ai", "private", True, isfun=True)
    ai["children"] = [["args", mk(ids, "arg", "NOther", "a", "private", False)]]
    k1 = mk(ids, "constructor", "NOther", "g", "public", True)
    k1["ctor_of"], k1["members"] = t["name"], [targets[0]]
    k2 = mk(ids, "constructor", "NOther", "g", "private", True)
    k2["ctor_of"], k2["members"] = t2["name"], [targets[1]]
    m["children"] = [["types", t], ["types", t2], ["interfaces", g], ["interfaces", g2], ["interfaces", x],
                     ["interfaces", k1], ["interfaces", k2], ["absinterfaces", ai]]
    for perm, doc in (("public", True), ("private", True), ("protected", True), ("public", False)):
        m["children"].append(["variables", mk(ids, "var", "NOther", "v", perm, doc)])
    # an undocumented common block and an undocumented namelist naming documented variables, an enum with an
    # undocumented enumerator
    cb = mk(ids, "common", "NCommon", "cb", "public", False)
    cb["children"] = [["variables", mk(ids, "commonvar", "NOther", "cv", "public", False)]]
    cb2 = mk(ids, "common", "NCommon", "cb", "public", True)
    cb2["children"] = [["variables", mk(ids, "commonvar", "NOther", "cv", "public", False)]]
    mnl = mk(ids, "namelist", "NOther", "nl", "private", False)
    mnl["vars"] = [c["name"] for l, c in m["children"] if l == "variables"][:2]
    en = mk(ids, "enum", "NEnum", "en", "private", True)
    en["children"] = [["variables", mk(ids, "enumerator", "NOther", "e", "private", True)],
                      ["variables", mk(ids, "enumerator", "NOther", "e", "private", False)]]
    m["children"] += [["enums", en], ["common", cb], ["common", cb2], ["namelists", mnl]]
    m["children"] += [["subroutines", p_pub], ["functions", p_priv], ["subroutines", p_undoc]]
    pg = mk(ids, "program", "NProgram", "pg", "public", True)
    pg["children"] = [["variables", mk(ids, "var", "NOther", "v", "public", True)],
                      ["subroutines", proc("subroutine", "public", "public")]]
    top = proc("function", "public", "public")
    # separate module procedures: interfaces in the module, implementations (short form `module procedure`,
    # long form `module subroutine` / `module function`) in a submodule, each with locals and a namelist
    def mp_iface(isfun, perm):
        x = mk(ids, "mpiface", "NOther", "mp", perm, True, isfun=isfun)
        x["children"] = [["args", mk(ids, "arg", "NOther", "a", perm, True)]]
        return x

    def mp_impl(kind, x):
        p = mk(ids, kind, "NProc", "mpi", "private", True)
        p["implements"] = x
        ch = []
        if kind != "modproc":
            ch.append(["args", mk(ids, "arg", "NOther", "a", "private", True)])
        v1, v2 = mk(ids, "var", "NOther", "v", "private", True), mk(ids, "var", "NOther", "v", "private", False)
        nl = mk(ids, "namelist", "NOther", "nl", "private", True)
        nl["vars"] = [v1["name"], v2["name"]]
        p["children"] = ch + [["variables", v1], ["variables", v2], ["namelists", nl]]
        return p
    x1, x2, x3 = mp_iface(False, "public"), mp_iface(False, "private"), mp_iface(True, "public")
    m["children"][6:6] = [["interfaces", x1], ["interfaces", x2], ["interfaces", x3]]
    sm = mk(ids, "submodule", "NSubmodule", "sm", "private", True)
    sm["ancestor"] = m["name"]
    st = mk(ids, "type", "NType", "t", "private", True)
    st["comp_default"] = st["bind_default"] = None
    st["children"] = [["variables", mk(ids, "comp", "NOther", "c", "public", True)]]
    snl_v = mk(ids, "var", "NOther", "v", "private", True)
    snl = mk(ids, "namelist", "NOther", "nl", "private", True)
    snl["vars"] = [snl_v["name"]]
    sm["children"] = [["types", st], ["variables", snl_v], ["namelists", snl],
                      ["modprocedures", mp_impl("modproc", x1)], ["modsubroutines", mp_impl("modsub", x2)],
                      ["modfunctions", mp_impl("modfun", x3)], ["subroutines", proc("subroutine", "private", "private")]]
    # a default-public module: derived types made private by attribute / by statement, and a public one, each
    # with its constructor interface (which has the type's accessibility)
    m2 = mk(ids, "module", "NModule", "m", "public", True)
    m2["default"] = None
    helper = proc("subroutine", "public", "public")
    for perm, by_stmt in (("private", False), ("private", True), ("public", False)):
        ty = mk(ids, "type", "NType", "t", perm, True)
        ty["comp_default"] = ty["bind_default"] = None
        ty["by_stmt"] = by_stmt
        ty["children"] = [["variables", mk(ids, "comp", "NOther", "c", "public", True)]]
        kc = mk(ids, "constructor", "NOther", "g", perm, True)
        kc["ctor_of"], kc["members"] = ty["name"], [helper["name"]]
        m2["children"] += [["types", ty], ["interfaces", kc]]
    m2["children"].append(["subroutines", helper])
    # metadata words in other letter cases, present in every run: `display: Public` on the second module,
    # `display: PRIVATE` on the submodule, `display: None` on the program
    m2["display"], m2["display_spell"] = ["public"], ["Public"]
    sm["display"], sm["display_spell"] = ["private"], ["PRIVATE"]
    pg["display"], pg["display_spell"] = ["none"], ["None"]
    f["children"] = [["modules", m], ["modules", m2], ["submodules", sm], ["programs", pg], ["procs", top]]
    return [f], {"file": f, "module": m, "type": t, "procedure": p_pub, "submodule": sm}
