"""Spelled statements (terms of Sem/CascadeSpec.sline) for the classification layer of C01.

Only Coq terms are produced here: the text of a line is computed by the Coq renderer
(CascadeSpec.render) and read back, so there is no second renderer to keep in step."""
from harness.core import coq_str, coq_list, coq_bool

NAMES = ["alpha", "beta2", "x", "solve_it", "t_node", "m1", "Grid", "a_b_c", "res", "n", "iso_c_binding"]
# identifiers that look like keywords (outside or at the border of the theorem's side conditions)
TRICKY = ["function_x", "myfunction", "subroutine", "my_subroutine", "end", "type", "is", "block", "data", "procedure",
          "module", "contains", "result", "bind", "program", "interface", "final", "use", "blockdata", "enum",
          "functions", "procedures", "endfile", "real", "integer", "public", "sequence", "format", "associate", "block_x"]
PWORDS = ["PPure", "PElemental", "PRecursive", "PImpure", "PModule"]
EWORDS = ["EModule", "ESubmodule", "ESubroutine", "EFunction", "EProcedure", "EProgram", "EType", "EInterface", "EEnum",
          "EBlockData"]
GENERIC = ["operator(+)", "assignment(=)", "operator(.dot.)", "write(formatted)", "operator( == )"]


def mask(rng, n=10):
    r = rng.random()
    if r < 0.5:
        return "[]"
    if r < 0.7:
        return coq_list(["true"] * n)
    if r < 0.8:
        return "[true]"
    return coq_list(rng.choice(["true", "false"]) for _ in range(n))


def nb(rng):
    return rng.choice([0, 0, 0, 1, 1, 2, 3])


def ident(rng, tricky=0.15):
    if rng.random() < tricky:
        return rng.choice(TRICKY)
    n = rng.choice(NAMES)
    if rng.random() < 0.2:
        n = n.upper() if rng.random() < 0.5 else n.capitalize()
    return n


def label(rng):
    if rng.random() < 0.85:
        return "None"
    return f"(Some ({coq_str(rng.choice(['10', '999', '1']))}, {nb(rng)}))"


def opt_name(rng, tricky=0.15):
    if rng.random() < 0.4:
        return "None"
    return f"(Some ({nb(rng)}, {coq_str(ident(rng, tricky))}))"


def prefixes(rng):
    k = rng.choice([0, 0, 1, 1, 2])
    return coq_list(f"({w}, {mask(rng)}, {nb(rng)})" for w in rng.sample(PWORDS, k))


def tspell(rng):
    return (f"(mkts {mask(rng)} {mask(rng, 4)} {rng.choice([0, 1, 2, 3, 4])} {nb(rng)} {nb(rng)} {nb(rng)} {nb(rng)} "
            f"{rng.choice([0, 0, 1, 3])})")


def atype(rng):
    r = rng.random()
    if r < 0.45:
        b = rng.choice(["BInteger", "BReal", "BComplex", "BLogical"])
        k = rng.choice(["None", '(Some (s "8"))', '(Some (s "dp"))', '(Some (s "4"))'])
        return f"(ANum {b} {k})"
    if r < 0.55:
        return rng.choice(["ADouble", "ADoubleComplex"])
    if r < 0.8:
        l = rng.choice(["None", '(Some (s "10"))', '(Some (s "*"))', '(Some (s "n+1"))'])
        k = rng.choice(["None", "None", '(Some (s "1"))'])
        return f"(AChar {l} {k})"
    return f"(ADerived {coq_bool(rng.random() < 0.3)} {coq_str(ident(rng))})"


def gen_line(rng, tricky=0.15):
    """-> (constructor name, Coq term of type sline, natural contexts)"""
    I = lambda: ident(rng, tricky)  # noqa
    forms = ["XModule", "XSubmodule", "XProgram", "XBlockData", "XType", "XEnum", "XInterface", "XAbstract",
             "XModProcImpl", "XSubroutine", "XFunction", "XEnd", "XEndUnit", "XEndBlock", "XEndAssociate", "XContains",
             "XAccess", "XSequence", "XUse", "XCommon", "XNamelist", "XBound", "XFinal", "XModProcRef", "XDecl",
             "XEnumerator", "XBlock", "XAssociate", "XImplicitNone", "XExec"]
    f = rng.choice(forms)
    unit_ctx = [("KModule", False, 0), ("KProgram", False, 0), ("KSubroutine", False, 0), ("KFunction", False, 0)]
    if f == "XModule":
        return f, f"XModule {mask(rng)} {nb(rng)} {coq_str(I())}", [("KFile", False, 0)]
    if f == "XSubmodule":
        par = f"(Some {coq_str(I())})" if rng.random() < 0.4 else "None"
        return f, f"XSubmodule {mask(rng)} {nb(rng)} {nb(rng)} {nb(rng)} {coq_str(I())} {par} {coq_str(I())}", [("KFile", False, 0)]
    if f == "XProgram":
        return f, f"XProgram {mask(rng)} {opt_name(rng, tricky)}", [("KFile", False, 0)]
    if f == "XBlockData":
        return f, f"XBlockData {mask(rng)} {mask(rng)} {nb(rng)} {opt_name(rng, tricky)}", [("KFile", False, 0)]
    if f == "XType":
        r = rng.random()
        if r < 0.3:
            tf = f"(TSpace {nb(rng)})"
        elif r < 0.6:
            tf = f"(TColons {nb(rng)} {nb(rng)})"
        else:
            attrs = []
            for _ in range(rng.choice([1, 1, 2])):
                a = rng.choice(["TAbstract", "TPublic", "TPrivate", "TBindC", f"(TExtends {coq_str(I())})"])
                attrs.append(f"({a}, {mask(rng)})")
            tf = f"(TAttrs {nb(rng)} {nb(rng)} {nb(rng)} {nb(rng)} {coq_list(attrs)})"
        return f, f"XType {mask(rng)} {tf} {coq_str(I())}", unit_ctx[:3] + [("KBlockData", False, 0)]
    if f == "XEnum":
        return f, f"XEnum {mask(rng)} {mask(rng)} {mask(rng)} {nb(rng)} {nb(rng)} {nb(rng)} {nb(rng)}", unit_ctx
    if f == "XInterface":
        if rng.random() < 0.3:
            nm = f"(Some ({nb(rng)}, {coq_str(rng.choice(GENERIC))}))"
        else:
            nm = opt_name(rng, tricky)
        return f, f"XInterface {mask(rng)} {nm}", unit_ctx
    if f == "XAbstract":
        return f, f"XAbstract {mask(rng)} {mask(rng)} {nb(rng)}", unit_ctx
    if f == "XModProcImpl":
        return f, f"XModProcImpl {mask(rng)} {mask(rng)} {nb(rng)} {nb(rng)} {coq_str(I())}", \
            [("KSubmodule", False, 0), ("KModule", True, 0), ("KSubmodule", True, 0)]
    proc_ctx = [("KFile", False, 0), ("KModule", True, 0), ("KInterface", False, 0), ("KSubroutine", True, 0),
                ("KProgram", True, 0)]
    if f == "XSubroutine":
        args = "None" if rng.random() < 0.3 else \
            f"(Some ({nb(rng)}, {nb(rng)}, {coq_list(coq_str(I()) for _ in range(rng.choice([0, 1, 2, 3])))}))"
        return f, f"XSubroutine {prefixes(rng)} {mask(rng)} {nb(rng)} {coq_str(I())} {args}", proc_ctx
    if f == "XFunction":
        res = "None" if rng.random() < 0.5 else f"(Some ({nb(rng)}, {mask(rng)}, {nb(rng)}, {coq_str(I())}))"
        args = coq_list(coq_str(I()) for _ in range(rng.choice([0, 1, 2])))
        return f, f"XFunction {prefixes(rng)} {mask(rng)} {nb(rng)} {coq_str(I())} {nb(rng)} {nb(rng)} {args} {res}", proc_ctx
    any_ctx = unit_ctx + [("KType", False, 0), ("KType", True, 0), ("KInterface", False, 0), ("KEnum", False, 0),
                          ("KBlockData", False, 0), ("KModule", True, 0), ("KSubmodule", False, 0),
                          ("KModProcImpl", False, 0)]
    if f == "XEnd":
        return f, f"XEnd {label(rng)} {mask(rng)}", any_ctx
    if f == "XEndUnit":
        return f, (f"XEndUnit {label(rng)} {mask(rng)} {mask(rng)} {nb(rng)} {rng.choice([1, 1, 1, 0, 2])} {rng.choice(EWORDS)} "
                   f"{opt_name(rng, tricky)}"), any_ctx
    if f == "XEndBlock":
        return f, f"XEndBlock {mask(rng)} {mask(rng)} {nb(rng)} {opt_name(rng, tricky)}", [("KSubroutine", False, 1), ("KProgram", False, 1)] + unit_ctx
    if f == "XEndAssociate":
        return f, f"XEndAssociate {mask(rng)} {mask(rng)} {nb(rng)} {opt_name(rng, tricky)}", unit_ctx[1:]
    if f == "XContains":
        return f, f"XContains {mask(rng)}", any_ctx
    if f == "XAccess":
        return f, f"XAccess {rng.choice(['APublic', 'APrivate', 'AProtected'])} {mask(rng)}", any_ctx
    if f == "XSequence":
        return f, f"XSequence {mask(rng)}", [("KType", False, 0)] + unit_ctx
    if f == "XUse":
        return f, f"XUse {mask(rng)} {nb(rng)} {coq_str(I())}", unit_ctx + [("KBlockData", False, 0), ("KSubmodule", False, 0)]
    vars_ = lambda: coq_list(coq_str(I()) for _ in range(rng.choice([1, 1, 2, 3])))  # noqa
    if f == "XCommon":
        return f, f"XCommon {mask(rng)} {nb(rng)} {nb(rng)} {nb(rng)} {nb(rng)} {coq_str(I())} {vars_()}", unit_ctx + [("KBlockData", False, 0)]
    if f == "XNamelist":
        return f, f"XNamelist {mask(rng)} {nb(rng)} {nb(rng)} {nb(rng)} {coq_str(I())} {vars_()}", unit_ctx
    if f == "XBound":
        binds = coq_list(f"({coq_str(I())}, {coq_str(I())})" for _ in range(rng.choice([1, 1, 2, 3])))
        return f, (f"XBound {mask(rng)} {mask(rng)} {nb(rng)} {nb(rng)} {nb(rng)} {nb(rng)} {nb(rng)} {binds}"), \
            [("KType", True, 0)]
    if f == "XFinal":
        dc = "None" if rng.random() < 0.25 else f"(Some ({nb(rng)}, {nb(rng)}))"
        return f, f"XFinal {mask(rng)} {dc} {nb(rng)} {nb(rng)} {vars_()}", [("KType", True, 0)]
    if f == "XModProcRef":
        dc = "None" if rng.random() < 0.6 else f"(Some ({nb(rng)}, {nb(rng)}))"
        return f, f"XModProcRef {mask(rng)} {mask(rng)} {nb(rng)} {dc} {nb(rng)} {nb(rng)} {vars_()}", [("KInterface", False, 0)]
    if f == "XDecl":
        dc = "None" if rng.random() < 0.4 else f"(Some {nb(rng)})"
        return f, f"XDecl {tspell(rng)} {atype(rng)} {dc} {nb(rng)} {vars_()}", unit_ctx + [("KType", False, 0), ("KInterface", False, 0)]
    if f == "XEnumerator":
        return f, f"XEnumerator {mask(rng)} {nb(rng)} {nb(rng)} {coq_str(I())}", [("KEnum", False, 0)]
    if f == "XBlock":
        lab = "None" if rng.random() < 0.5 else f"(Some ({coq_str(I())}, {nb(rng)}, {nb(rng)}))"
        return f, f"XBlock {lab} {mask(rng)}", unit_ctx[1:]
    if f == "XAssociate":
        return f, f"XAssociate {mask(rng)} {nb(rng)} {coq_str(I())} {coq_str(I())}", unit_ctx[1:]
    if f == "XImplicitNone":
        return f, f"XImplicitNone {mask(rng)} {mask(rng)} {nb(rng)}", unit_ctx
    return f, f"XExec {rng.randrange(11)}", unit_ctx[1:]


def parse_coq_strings(out):
    """the strings of a printed `list string` (quotes doubled inside)"""
    import re
    body = out.split("= [", 1)[1] if "= [" in out else out
    return [m.group(1).replace('""', '"') for m in re.finditer(r'"((?:[^"]|"")*)"%string', body)]
