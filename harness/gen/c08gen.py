"""C08 — generator of executable parts: the statement/expression AST of coq/theories/Sem/CallsSpec.v
as Python tuples, its renderer (Fortran text, with real character literals), its serialiser to Coq
terms (literals masked the way FORD masks them), an abstract project around the bodies (modules with
types, arrays and procedures, a program with internal procedures), the project renderer with
continuation / ';' layouts, and the symbol tables Fortran's scoping rules give for every unit.

AST (tuples):
  expr  : ("lit", text) | ("str", quote, body) | ("des", desig) | ("par", e) | ("un", op, e) | ("bin", a, op, b)
  desig : ("l0", x) | ("la", x, a) | ("p0", x, r) | ("pa", x, a, r)
  form  : (name, field...)            name = constructor of Coq's [form]
  stmt  : ("form", lab, sp, form) | ("call", lab, d) | ("ifcall", lab, sp, c, d) | ("assoc", sp, [(n, e)])
          | ("endassoc",) | ("format", lab, sp, ptree) | ("goto", [labels], e)
  ptree : list of items, item = character | ("g", ptree)
"""
from harness.core import coq_str, coq_list, coq_bool, coq_opt

# ----------------------------------------------------------------------------- rendering

def r_lit(q, body):
    return q + body.replace(q, q + q) + q


def r_e(e):
    k = e[0]
    if k == "lit":
        return e[1]
    if k == "str":
        return r_lit(e[1], e[2])
    if k == "des":
        return r_d(e[1])
    if k == "par":
        return "(" + r_e(e[1]) + ")"
    if k == "un":
        return e[1] + r_e(e[2])
    if k == "bin":
        return r_e(e[1]) + e[2] + r_e(e[3])
    raise ValueError(e)


def r_d(d):
    k = d[0]
    if k == "l0":
        return d[1]
    if k == "la":
        return d[1] + "(" + r_e(d[2]) + ")"
    if k == "p0":
        return d[1] + "%" + r_d(d[2])
    if k == "pa":
        return d[1] + "(" + r_e(d[2]) + ")%" + r_d(d[3])
    raise ValueError(d)


def lit(t):
    return ("lit", t)


def name(x):
    return ("des", ("l0", x))


def assign(l, r):
    return ("bin", l, " = ", r)


IOKW = {"KWrite": "write", "KRead": "read", "KOpen": "open", "KClose": "close", "KInquire": "inquire",
        "KRewind": "rewind", "KBackspace": "backspace", "KEndfile": "endfile", "KFlush": "flush", "KWait": "wait"}
ALLOCKW = {"KAllocate": "allocate", "KDeallocate": "deallocate", "KNullify": "nullify"}


def segs_of(sp, f):
    k = f[0]
    W = lambda w: ("w", w)
    K = lambda kw, c: ("k", kw, sp, c)
    E = lambda e: ("e", e)
    if k == "FAssign":
        return [E(assign(f[1], f[2]))]
    if k == "FPtrAssign":
        return [E(("bin", f[1], " => ", f[2]))]
    if k == "FIfThen":
        return [K("if", f[1]), W("then")]
    if k == "FElseIf":
        return [W("else"), K("if", f[1]), W("then")]
    if k == "FIfAssign":
        return [K("if", f[1]), E(assign(f[2], f[3]))]
    if k == "FIfArith":
        return [K("if", f[1]), E(("bin", lit(f[2]), ", ", ("bin", lit(f[3]), ", ", lit(f[4]))))]
    if k == "FWhere":
        return [K("where", f[1])]
    if k == "FElseWhere":
        return [K("elsewhere", f[1])]
    if k == "FWhereAssign":
        return [K("where", f[1]), E(assign(f[2], f[3]))]
    if k == "FDoWhile":
        return [W("do"), K("while", f[1])]
    if k == "FDo":
        return [W("do"), E(assign(name(f[1]), ("bin", f[2], ", ", f[3])))]
    if k == "FSelectCase":
        return [W("select"), K("case", f[1])]
    if k == "FCase":
        return [K("case", f[1])]
    if k == "FForall":
        return [K("forall", f[1])]
    if k == "FForallAssign":
        return [K("forall", f[1]), E(assign(f[2], f[3]))]
    if k == "FIo":
        return [K(IOKW[f[1]], f[2])]
    if k == "FIoItems":
        return [K(IOKW[f[1]], f[2]), E(f[3])]
    if k == "FPrint":
        return [W("print"), E(("bin", f[1], ", ", f[2]))]
    if k == "FAlloc":
        return [K(ALLOCKW[f[1]], f[2])]
    if k == "FStop":
        return [W("stop"), E(f[1])]
    if k == "FPlain":
        return [W(f[1])] + ([W(f[2])] if f[2] else [])
    raise ValueError(f)


def r_seg(g):
    if g[0] == "w":
        return g[1]
    if g[0] == "k":
        return g[1] + (" " if g[2] else "") + "(" + r_e(g[3]) + ")"
    return r_e(g[1])


def r_segs(gs):
    return " ".join(r_seg(g) for g in gs)


def lab_segs(lab):
    return [("w", lab)] if lab else []


def assoc_list(pairs):
    if not pairs:
        return lit("")
    n, e = pairs[0]
    first = ("bin", name(n), " => ", e)
    if len(pairs) == 1:
        return first
    return ("bin", first, ", ", assoc_list(pairs[1:]))


def r_ptree(t):
    return "".join(c if isinstance(c, str) else "(" + r_ptree(c[1]) + ")" for c in t)


def r_stmt(st):
    k = st[0]
    if k == "form":
        return r_segs(lab_segs(st[1]) + segs_of(st[2], st[3]))
    if k == "call":
        return r_segs(lab_segs(st[1]) + [("w", "call"), ("e", ("des", st[2]))])
    if k == "ifcall":
        return r_segs(lab_segs(st[1]) + [("k", "if", st[2], st[3]), ("w", "call"), ("e", ("des", st[4]))])
    if k == "assoc":
        return r_segs([("k", "associate", st[1], assoc_list(st[2]))])
    if k == "endassoc":
        return "end associate"
    if k == "format":
        return st[1] + " format" + (" " if st[2] else "") + "(" + r_ptree(st[3]) + ")"
    if k == "goto":
        return "go to (" + ", ".join(st[1]) + "), " + r_e(st[2])
    raise ValueError(st)


# ----------------------------------------------------------------------------- Coq terms

class Masker:
    """numbers the character literals of one statement in rendering order"""

    def __init__(self):
        self.k = 0

    def next(self):
        self.k += 1
        return '"%d"' % (self.k - 1)


def c_e(e, m):
    k = e[0]
    if k == "lit":
        return f"(ELit {coq_str(e[1])})"
    if k == "str":
        return f"(ELit {coq_str(m.next())})"
    if k == "des":
        return f"(EDes {c_d(e[1], m)})"
    if k == "par":
        return f"(EPar {c_e(e[1], m)})"
    if k == "un":
        return f"(EUn {coq_str(e[1])} {c_e(e[2], m)})"
    a = c_e(e[1], m)
    b = c_e(e[3], m)
    return f"(EBin {a} {coq_str(e[2])} {b})"


def c_d(d, m):
    k = d[0]
    if k == "l0":
        return f"(DLast0 {coq_str(d[1])})"
    if k == "la":
        return f"(DLastA {coq_str(d[1])} {c_e(d[2], m)})"
    if k == "p0":
        return f"(DPart0 {coq_str(d[1])} {c_d(d[2], m)})"
    a = c_e(d[2], m)
    r = c_d(d[3], m)
    return f"(DPartA {coq_str(d[1])} {a} {r})"


def c_form(f, m):
    k = f[0]
    if k in ("FIo", "FIoItems", "FAlloc"):
        rest = " ".join(c_e(x, m) for x in f[2:])
        return f"({k} {f[1]} {rest})"
    if k == "FIfArith":
        return f"(FIfArith {c_e(f[1], m)} {coq_str(f[2])} {coq_str(f[3])} {coq_str(f[4])})"
    if k == "FDo":
        a = c_e(f[2], m)
        b = c_e(f[3], m)
        return f"(FDo {coq_str(f[1])} {a} {b})"
    if k == "FPlain":
        return f"(FPlain {coq_str(f[1])} {coq_str(f[2])})"
    parts = []
    for x in f[1:]:
        parts.append(c_e(x, m))
    return f"({k} {' '.join(parts)})"


def c_ptree(t):
    out = "PNil"
    for c in reversed(t):
        if isinstance(c, str):
            ch = '""""%char' if c == '"' else f'"{c}"%char'
            out = f"(PCh {ch} {out})"
        else:
            out = f"(PGrp {c_ptree(c[1])} {out})"
    return out


def c_lab(lab):
    return coq_opt(lab, coq_str)


def c_stmt(st):
    m = Masker()
    k = st[0]
    if k == "form":
        return f"(SForm {c_lab(st[1])} {coq_bool(st[2])} {c_form(st[3], m)})"
    if k == "call":
        return f"(SCall {c_lab(st[1])} {c_d(st[2], m)})"
    if k == "ifcall":
        c = c_e(st[3], m)
        d = c_d(st[4], m)
        return f"(SIfCall {c_lab(st[1])} {coq_bool(st[2])} {c} {d})"
    if k == "assoc":
        pairs = []
        for n, e in st[2]:
            pairs.append(f"({coq_str(n)}, {c_e(e, m)})")
        return f"(SAssoc {coq_bool(st[1])} {coq_list(pairs)})"
    if k == "endassoc":
        return "SEndAssoc"
    if k == "format":
        return f"(SFormat {coq_str(st[1])} {coq_bool(st[2])} {c_ptree(st[3])})"
    if k == "goto":
        return f"(SGoto {coq_list(coq_str(l) for l in st[1])} {c_e(st[2], m)})"
    raise ValueError(st)


def c_entity(e):
    k = e[0]
    if k == "func":
        return f"(EFunc {coq_str(e[1])} {coq_str(e[2])})"
    if k == "proc":
        return f"(EProc {coq_str(e[1])})"
    if k == "var":
        return f"(EVar {coq_str(e[1])} {coq_bool(e[2])} {coq_bool(e[3] if len(e) > 3 else False)})"
    return f"(EType {coq_str(e[1])})"


def c_labels(ls):
    return coq_list(f"({coq_str(n)}, {c_entity(e)})" for n, e in ls)


def c_symtab(tb):
    scope, types = tb[0], tb[1]
    ext = tb[2] if len(tb) > 2 else []
    return (f"(mk_symtab {c_labels(scope)} {coq_list(f'({coq_str(n)}, {c_labels(l)})' for n, l in types)} "
            f"{coq_list(f'({coq_str(n)}, {coq_str(i)})' for n, i in ext)})")


# ----------------------------------------------------------------------------- abstract projects

# spellings that overlap between user procedures, arrays, intrinsics and statement keywords
PROC_NAMES = ["f", "g", "sum2", "isum", "sizes", "iff", "wait_for", "compute", "solve", "init", "getval",
              "mysize", "maxval2", "callme", "ifx", "printer", "opener", "reader", "casex", "whiles"]
ARRAY_NAMES = ["arr", "vec", "sums", "size_v", "ifs", "mat", "buf", "whr", "printv", "calls", "writes", "abs2",
               "count", "index"]      # the last two: arrays spelled like INTRINSICS entries (candidates that resolve to variables)
SCALAR_NAMES = ["i", "j", "k", "n", "m", "x", "y", "tmp", "ios", "total"]
OBJ_NAMES = ["obj", "p", "q", "self_o"]
INTRINSIC_FUNCS = ["size", "sum", "abs", "max", "min", "mod", "maxval", "int", "real", "sqrt", "len", "trim",
                   "allocated", "present", "merge", "any", "count"]
INTRINSIC_NAMED_PROCS = ["wait", "system", "flush", "rank", "time", "exit"]   # user procedures spelled like INTRINSICS entries
ASSOC_NAMES = ["aa", "bb", "cc", "sel"]
# the project's own external procedures (top level of a file), referenced through EXTERNAL declarations
EXTERNAL_NAMES = ["ext_area", "ext_vol", "ext_report", "xsum", "ext_init", "callext"]
EXTERNAL_FORMS_FUNC = ["attr", "attr", "pair", "pair", "pair_colon", "untyped", "typed_only", "typed_only"]
EXTERNAL_FORMS_SUB = ["untyped", "untyped_colon"]
LIT_BODIES = ["", "abc", "call q(1)", "x = g(2)", "it's", 'say "f(1)"', "(a,i0)", "if (f(x)) then", "obj%run()",
              "a(1)%b(2)", "100 format (i5)", "go to (1,2)"]
NUMS = ["0", "1", "2", "3", "10", "42", "1.0", "2.5e0", "1.0e-3_dp", "3_8", ".true.", ".false."]
BINOPS = [" + ", " - ", "*", "/", "**", " == ", " /= ", " < ", " <= ", " > ", " >= ", " .and. ", " .or. ", "+", "-",
          " .eqv. ", " .lt. ", ".gt."]
UNOPS = ["-", "+", ".not. ", ".not."]


class Env:
    """what a body may refer to"""

    def __init__(self):
        self.funcs = []      # (name, nargs)
        self.subs = []       # (name, nargs)
        self.arrays = []     # names
        self.scalars = []
        self.objs = []       # (name, typename)
        self.types = {}      # typename -> type dict
        self.unknown_arrays = []   # arrays FORD cannot see (region: unresolved array)
        self.unknown_procs = []    # external procedures declared nowhere
        self.assoc = []      # stack of lists of (name, kind) kind in "array","obj:<type>","func"
        self.recent = []     # call-like references of the statement being generated
        self.knobs = {}


def gen_expr(rng, env, depth, want="any"):
    """an integer/logical-ish expression"""
    r = rng.random()
    if depth <= 0 or r < 0.22:
        c = rng.random()
        if c < 0.35 or not env.scalars:
            return lit(rng.choice(NUMS))
        return name(rng.choice(env.scalars))
    if r < 0.62:
        return gen_ref(rng, env, depth)
    if r < 0.70:
        return ("par", gen_expr(rng, env, depth - 1))
    if r < 0.76:
        return ("un", rng.choice(UNOPS), gen_expr(rng, env, depth - 1))
    if r < 0.80 and want != "nostr":
        return ("str", rng.choice("'\""), rng.choice(LIT_BODIES))
    return ("bin", gen_expr(rng, env, depth - 1), rng.choice(BINOPS), gen_expr(rng, env, depth - 1))


def gen_args(rng, env, depth, n=None):
    n = rng.choice([0, 1, 1, 2, 3]) if n is None else n
    if n == 0:
        return lit("")
    args = []
    for i in range(n):
        a = gen_expr(rng, env, depth)
        if i == n - 1 and n > 1 and rng.random() < 0.2:
            a = ("bin", lit(rng.choice(["n", "key", "stat"])), rng.choice(["=", " = "]), a)
        args.append(a)
    out = args[-1]
    for a in reversed(args[:-1]):
        out = ("bin", a, rng.choice([", ", ","]), out)
    return out


def gen_index(rng, env, depth):
    c = rng.random()
    if c < 0.7:
        return gen_expr(rng, env, depth)
    if c < 0.85:
        return ("bin", gen_expr(rng, env, depth), ":", gen_expr(rng, env, depth))
    return lit(":")


def chain_through(rng, env, depth, obj, tname, call):
    """a designator starting at object obj of type tname; call=True: must end in a subroutine binding"""
    t = env.types[tname]
    opts = []
    if not call:
        opts += [("arr", c) for c in t["arrays"]]
        opts += [("fbind", b) for b in t["fbinds"]]
        opts += [("scalar_after_arr", c) for c in t["typed_arrays"]]
    else:
        opts += [("sbind", b) for b in t["sbinds"]]
    opts += [("inner", c) for c in t["typed"]]
    if not opts:
        return None
    kind, item = rng.choice(opts)
    if kind == "arr":
        return ("p0", obj, ("la", item, gen_index(rng, env, depth - 1)))
    if kind == "fbind":
        return ("p0", obj, ("la", item, gen_args(rng, env, depth - 1)))
    if kind == "sbind":
        if rng.random() < 0.3:
            return ("p0", obj, ("l0", item))
        return ("p0", obj, ("la", item, gen_args(rng, env, depth - 1)))
    if kind == "scalar_after_arr":
        cname, ctype = item
        sub = env.types[ctype]
        idx = gen_index(rng, env, depth - 1)
        if sub["arrays"] and rng.random() < 0.5:
            return ("p0", obj, ("pa", cname, idx, ("la", rng.choice(sub["arrays"]), gen_index(rng, env, depth - 1))))
        return ("p0", obj, ("pa", cname, idx, ("l0", "n")))
    cname, ctype = item
    inner = chain_through(rng, env, depth, cname, ctype, call)
    if inner is None:
        return None
    return ("p0", obj, inner)


def gen_ref(rng, env, depth):
    """a reference; often one that the same statement already holds: verbatim (same or another nesting
    level, condition + CALL arguments) or nested in itself, g(g(x))"""
    rec = env.recent
    if rec and rng.random() < env.knobs.get("p_repeat", 0.3):
        prev = rng.choice(rec)
        if prev[1][0] == "la" and rng.random() < 0.4:
            return ("des", ("la", prev[1][1], prev))
        return prev
    r, k = gen_ref_new(rng, env, depth)
    if k in ("func", "uproc", "chain") and r[0] == "des":
        rec.append(r)
    return r


def gen_ref_new(rng, env, depth):
    """(name(args) in one of its meanings, or a component chain; what it is)"""
    r, k = _gen_ref_new(rng, env, depth)
    return r, k


def _gen_ref_new(rng, env, depth):
    opts = []
    if env.funcs:
        opts += ["func"] * 4
    if env.arrays:
        opts += ["array"] * 3
    opts += ["intrinsic"] * 2
    if env.objs:
        opts += ["chain"] * 2
    if env.types:
        opts += ["ctor"]
    if env.unknown_arrays:
        opts += ["uarray"]
    if env.unknown_procs:
        opts += ["uproc"]
    live = [a for fr in env.assoc for a in fr]
    if live:
        opts += ["assoc"] * 2
    k = rng.choice(opts)
    if k == "func":
        f, n = rng.choice(env.funcs)
        return ("des", ("la", f, gen_args(rng, env, depth - 1, n if rng.random() < 0.8 else None))), k
    if k == "array":
        return ("des", ("la", rng.choice(env.arrays), gen_index(rng, env, depth - 1))), k
    if k == "intrinsic":
        return ("des", ("la", rng.choice(INTRINSIC_FUNCS), gen_args(rng, env, depth - 1, rng.choice([1, 1, 2])))), k
    if k == "ctor":
        return ("des", ("la", rng.choice(sorted(env.types)), gen_args(rng, env, depth - 1, 1))), k
    if k == "uarray":
        return ("des", ("la", rng.choice(env.unknown_arrays), gen_index(rng, env, depth - 1))), k
    if k == "uproc":
        return ("des", ("la", rng.choice(env.unknown_procs), gen_args(rng, env, depth - 1))), k
    if k == "assoc":
        an, akind = rng.choice(live)
        if akind.startswith("obj:"):
            d = chain_through(rng, env, depth, an, akind[4:], False)
            if d is not None:
                return ("des", d), k
            return name(an), k
        return ("des", ("la", an, gen_index(rng, env, depth - 1))), k
    k = "chain"
    obj, tname = rng.choice(env.objs)
    d = chain_through(rng, env, depth, obj, tname, False)
    if d is None:
        return name(obj), k
    return ("des", d), k


def gen_lhs(rng, env, depth):
    c = rng.random()
    if c < 0.4 and env.scalars:
        return name(rng.choice(env.scalars))
    if c < 0.8 and env.arrays:
        return ("des", ("la", rng.choice(env.arrays), gen_index(rng, env, depth - 1)))
    if env.objs:
        obj, tname = rng.choice(env.objs)
        t = env.types[tname]
        if t["arrays"]:
            return ("des", ("p0", obj, ("la", rng.choice(t["arrays"]), gen_index(rng, env, depth - 1))))
        return ("des", ("p0", obj, ("l0", "n")))
    return name(rng.choice(env.scalars or ["x"]))


def gen_call_target(rng, env, depth):
    opts = []
    if env.subs:
        opts += ["sub"] * 4
    if env.objs:
        opts += ["bound"] * 2
    if env.unknown_procs:
        opts += ["uproc"]
    if not opts:
        return None
    k = rng.choice(opts)
    if k == "sub":
        f, n = rng.choice(env.subs)
        if n == 0 and rng.random() < 0.6:
            return ("l0", f)
        return ("la", f, gen_args(rng, env, depth - 1, n if rng.random() < 0.8 else None))
    if k == "uproc":
        f = rng.choice(env.unknown_procs)
        return ("l0", f) if rng.random() < 0.3 else ("la", f, gen_args(rng, env, depth - 1))
    obj, tname = rng.choice(env.objs)
    return chain_through(rng, env, depth, obj, tname, True)


def bare_target(d):
    """the designator without the argument list of its last part"""
    if d[0] == "la":
        return ("l0", d[1])
    if d[0] == "l0":
        return d
    if d[0] == "p0":
        return ("p0", d[1], bare_target(d[2]))
    return ("pa", d[1], d[2], bare_target(d[3]))


def gen_if_bare_call(rng, env, depth, lab, sp):
    """IF whose condition holds function references (nested, keyword arguments, through component
    chains) guarding a CALL without argument list: plain, labelled, through a binding"""
    d = gen_call_target(rng, env, depth)
    if d is None:
        return None
    d = bare_target(d)
    refs = []
    for _ in range(rng.choice([1, 1, 2])):
        c = rng.random()
        if c < 0.55 and env.funcs:
            f, n = rng.choice(env.funcs)
            inner = gen_args(rng, env, max(depth - 1, 1), max(n, 1))
            if rng.random() < 0.4:
                inner = ("bin", inner, ", ", ("bin", lit(rng.choice(["n", "key"])), "=", gen_expr(rng, env, 1)))
            r = ("des", ("la", f, inner))
            if rng.random() < 0.3:
                r = ("des", ("la", f, r))
            refs.append(r)
        elif c < 0.8 and env.objs:
            obj, tname = rng.choice(env.objs)
            dd = chain_through(rng, env, max(depth, 2), obj, tname, False)
            refs.append(("des", dd) if dd is not None else gen_ref(rng, env, depth))
        else:
            refs.append(gen_ref(rng, env, depth))
    cond = ("bin", refs[0], rng.choice([" > ", " == ", " .and. "]), refs[1] if len(refs) > 1 else lit("0"))
    if rng.random() < 0.3:
        cond = ("par", cond)
    return ("ifcall", lab, sp, cond, d)


def recase_name(rng, x):
    """another spelling of the same Fortran identifier (letter case is not significant)"""
    k = rng.random()
    if k < 0.35:
        return x.upper()
    if k < 0.6:
        return x.capitalize()
    return "".join(c.upper() if rng.random() < 0.4 else c for c in x)


def recase_e(rng, e, p):
    k = e[0]
    if k in ("lit", "str"):
        return e
    if k == "des":
        return ("des", recase_d(rng, e[1], p))
    if k == "par":
        return ("par", recase_e(rng, e[1], p))
    if k == "un":
        return ("un", e[1], recase_e(rng, e[2], p))
    return ("bin", recase_e(rng, e[1], p), e[2], recase_e(rng, e[3], p))


def recase_d(rng, d, p):
    n = recase_name(rng, d[1]) if rng.random() < p else d[1]
    k = d[0]
    if k == "l0":
        return ("l0", n)
    if k == "la":
        return ("la", n, recase_e(rng, d[2], p))
    if k == "p0":
        return ("p0", n, recase_d(rng, d[2], p))
    return ("pa", n, recase_e(rng, d[2], p), recase_d(rng, d[3], p))


def recase_stmt(rng, st, p):
    """the statement with some identifiers spelled in another letter case, occurrence by occurrence"""
    k = st[0]
    R = lambda e: recase_e(rng, e, p)
    if k == "form":
        f = st[3]
        if f[0] in ("FIo", "FIoItems", "FAlloc"):
            f = (f[0], f[1]) + tuple(R(x) for x in f[2:])
        elif f[0] == "FIfArith":
            f = (f[0], R(f[1])) + f[2:]
        elif f[0] == "FDo":
            f = (f[0], recase_name(rng, f[1]) if rng.random() < p else f[1], R(f[2]), R(f[3]))
        elif f[0] != "FPlain":
            f = (f[0],) + tuple(R(x) for x in f[1:])
        return ("form", st[1], st[2], f)
    if k == "call":
        return ("call", st[1], recase_d(rng, st[2], p))
    if k == "ifcall":
        return ("ifcall", st[1], st[2], R(st[3]), recase_d(rng, st[4], p))
    if k == "assoc":
        return ("assoc", st[1], [(recase_name(rng, n) if rng.random() < p else n, R(e)) for n, e in st[2]])
    if k == "goto":
        return ("goto", st[1], R(st[2]))
    return st


def gen_label(rng, p=0.08):
    return str(rng.choice([10, 20, 100, 999])) if rng.random() < p else None


def gen_ptree(rng, depth):
    out = []
    for _ in range(rng.choice([1, 2, 3, 4])):
        c = rng.random()
        if c < 0.5 or depth <= 0:
            out += list(rng.choice(["i5", "a", "f8.2", "1x", "3", "e12.4", ", ", "/", "2", "i0"]))
        else:
            out.append(("g", gen_ptree(rng, depth - 1)))
        if rng.random() < 0.6:
            out += list(", ")
    return out


def gen_simple_stmt(rng, env, depth):
    """one statement that is not a construct"""
    sp = rng.random() < 0.7
    env.recent = []
    lab = gen_label(rng, env.knobs.get("p_label", 0.06))
    E = lambda d=depth, **kw: gen_expr(rng, env, d, **kw)
    k = rng.choice(["assign"] * 6 + ["call"] * 5 + ["ifcall"] * 3 + ["ifbare"] * 3 + ["ifassign"] * 2 + ["io"] * 3 + ["print"] * 2 +
                   ["alloc", "whereassign", "forallassign", "stop", "plain", "ifarith", "ptr", "format", "goto", "goto"])
    if k == "assign":
        return ("form", lab, sp, ("FAssign", gen_lhs(rng, env, depth), E()))
    if k == "ptr":
        return ("form", lab, sp, ("FPtrAssign", gen_lhs(rng, env, 1), gen_ref(rng, env, depth)))
    if k == "ifbare":
        st = gen_if_bare_call(rng, env, depth, gen_label(rng, 0.25), sp)
        if st is not None:
            return st
        return ("form", lab, sp, ("FAssign", gen_lhs(rng, env, depth), E()))
    if k in ("call", "ifcall"):
        d = gen_call_target(rng, env, depth)
        if d is None:
            return ("form", lab, sp, ("FAssign", gen_lhs(rng, env, depth), E()))
        if lab and not env.knobs.get("labelled_bare_call", False) and last_part(d)[0] == "l0":
            lab = None      # a labelled CALL without argument list is a recorded defect region: only on request
        if k == "call":
            return ("call", lab, d)
        return ("ifcall", lab, sp, E(depth - 1), d)
    if k == "ifassign":
        return ("form", lab, sp, ("FIfAssign", E(depth - 1), gen_lhs(rng, env, depth), E()))
    if k == "ifarith":
        return ("form", lab, sp, ("FIfArith", E(depth - 1), "10", "20", "30"))
    if k == "io":
        kw = rng.choice(["KWrite"] * 3 + ["KRead"] * 2 + ["KOpen", "KClose", "KInquire", "KRewind", "KBackspace", "KEndfile",
                                                          "KFlush", "KWait"])
        ctl = rng.choice([lit("*"), lit("6"), ("bin", lit("unit"), "=", E(depth - 1, want="nostr"))])
        ctl = ("bin", ctl, ", ", rng.choice([lit("*"), ("str", "'", rng.choice(["(a)", "(i0, a(3))", "(3(i5))"])),
                                              ("bin", lit("iostat"), "=", name("ios"))]))
        if kw in ("KWrite", "KRead") and rng.random() < 0.8:
            items = gen_args(rng, env, depth, rng.choice([1, 2]))
            return ("form", lab, sp, ("FIoItems", kw, ctl, items))
        return ("form", lab, sp, ("FIo", kw, ctl))
    if k == "print":
        fmt = rng.choice([lit("*"), ("str", "'", "(a, i0)"), ("str", '"', "(a)")])
        return ("form", lab, sp, ("FPrint", fmt, gen_args(rng, env, depth, rng.choice([1, 2, 3]))))
    if k == "alloc":
        kw = rng.choice(["KAllocate", "KAllocate", "KDeallocate", "KNullify"])
        if kw == "KAllocate":
            l = ("des", ("la", rng.choice(env.arrays or ["arr"]), E(depth - 1)))
            if rng.random() < 0.4:
                l = ("bin", l, ", ", ("bin", lit("stat"), "=", name("ios")))
        else:
            l = name(rng.choice(env.arrays or ["arr"]))
        return ("form", lab, sp, ("FAlloc", kw, l))
    if k == "whereassign":
        return ("form", lab, sp, ("FWhereAssign", E(depth - 1), name(rng.choice(env.arrays or ["arr"])), E()))
    if k == "forallassign":
        hdr = ("bin", ("bin", name("i"), "=", ("bin", lit("1"), ":", E(depth - 1))), ", ", E(depth - 1))
        return ("form", lab, sp, ("FForallAssign", hdr, gen_lhs(rng, env, depth), E()))
    if k == "stop":
        e = E(depth - 1)
        if r_e(e)[:1] in ("(", ""):
            e = lit("1")
        return ("form", lab, sp, ("FStop", e))
    if k == "plain":
        w = rng.choice([("cycle", ""), ("exit", ""), ("return", ""), ("continue", ""), ("else", "")])
        return ("form", lab, sp, ("FPlain", w[0], w[1]))
    if k == "format":
        return ("format", str(rng.choice([100, 200, 9000])), not env.knobs.get("format_nospace", False) or rng.random() < 0.5,
                gen_ptree(rng, 2))
    if k == "goto":
        # the selector of a computed GO TO: any integer expression, references included
        sel = E(depth) if rng.random() < 0.7 else name(rng.choice(env.scalars or ["i"]))
        if r_e(sel).lstrip()[:1] in ("(", ""):
            sel = name(rng.choice(env.scalars or ["i"]))
        return ("goto", [rng.choice(["10", "20", "30"]) for _ in range(rng.choice([1, 2, 3]))], sel)
    raise ValueError(k)


def last_part(d):
    while d[0] in ("p0", "pa"):
        d = d[-1]
    return d


def gen_body(rng, env, n, depth):
    """a list of statements with balanced constructs"""
    out = []
    while len(out) < n:
        r = rng.random()
        sp = rng.random() < 0.7
        env.recent = []
        E = lambda d=depth: gen_expr(rng, env, d)
        if r < 0.62:
            out.append(gen_simple_stmt(rng, env, depth))
        elif r < 0.70:
            out.append(("form", None, sp, ("FIfThen", E())))
            out += gen_body(rng, env, rng.choice([1, 2]), depth)
            if rng.random() < 0.5:
                out.append(("form", None, sp, ("FElseIf", E())))
                out += gen_body(rng, env, 1, depth)
            out.append(("form", None, sp, ("FPlain", "end", "if")))
        elif r < 0.76:
            out.append(("form", None, sp, ("FDoWhile", E())))
            out += gen_body(rng, env, rng.choice([1, 2]), depth)
            out.append(("form", None, sp, ("FPlain", "end", "do")))
        elif r < 0.80:
            out.append(("form", None, sp, ("FDo", rng.choice(["i", "j"]), E(depth - 1), E(depth - 1))))
            out += gen_body(rng, env, 1, depth)
            out.append(("form", None, sp, ("FPlain", "end", "do")))
        elif r < 0.85:
            out.append(("form", None, sp, ("FSelectCase", E())))
            out.append(("form", None, sp, ("FCase", rng.choice([lit("1"), ("bin", lit("2"), ":", lit("5")), lit(":0")]))))
            out += gen_body(rng, env, 1, depth)
            out.append(("form", None, sp, ("FPlain", "end", "select")))
        elif r < 0.89:
            out.append(("form", None, sp, ("FWhere", E())))
            out.append(("form", None, sp, ("FAssign", name(rng.choice(env.arrays or ["arr"])), E())))
            if rng.random() < 0.4:
                out.append(("form", None, sp, ("FElseWhere", E())))
                out.append(("form", None, sp, ("FAssign", name(rng.choice(env.arrays or ["arr"])), E())))
            out.append(("form", None, sp, ("FPlain", "end", "where")))
        elif r < 0.92:
            hdr = ("bin", name("i"), "=", ("bin", lit("1"), ":", E(depth - 1)))
            out.append(("form", None, sp, ("FForall", hdr)))
            out.append(("form", None, sp, ("FAssign", gen_lhs(rng, env, depth), E())))
            out.append(("form", None, sp, ("FPlain", "end", "forall")))
        else:
            pairs, frame = [], []
            for an in rng.sample(ASSOC_NAMES, rng.choice([1, 1, 2])):
                c = rng.random()
                if c < 0.35 and env.arrays:
                    sel, kind = name(rng.choice(env.arrays)), "array"
                elif c < 0.55 and env.objs:
                    obj, tname = rng.choice(env.objs)
                    t = env.types[tname]
                    if t["arrays"] and rng.random() < 0.6:
                        sel, kind = ("des", ("p0", obj, ("l0", rng.choice(t["arrays"])))), "array"
                    else:
                        sel, kind = name(obj), "obj:" + tname
                elif c < 0.8 and env.funcs:
                    f, nn = rng.choice(env.funcs)
                    sel, kind = ("des", ("la", f, gen_args(rng, env, depth - 1, nn))), "func"
                elif env.knobs.get("assoc_expr", False) and env.arrays:
                    sel, kind = ("bin", name(rng.choice(env.arrays)), " + ", lit("1")), "array"
                else:
                    sel, kind = gen_ref(rng, env, depth), "func"
                pairs.append((an, sel))
                frame.append((an, kind))
            out.append(("assoc", sp, pairs))
            env.assoc.append(frame)
            out += gen_body(rng, env, rng.choice([1, 2, 3]), depth)
            env.assoc.pop()
            out.append(("endassoc",))
    return out


# ----------------------------------------------------------------------------- projects

def gen_type(rng, tname, earlier, fprocs, sprocs):
    t = {"name": tname, "arrays": [], "typed": [], "typed_arrays": [], "fbinds": [], "sbinds": [], "targets": {}}
    for c in rng.sample(["items", "vals", "size_c", "sum_c"], rng.choice([1, 2])):
        t["arrays"].append(c)
    if earlier and rng.random() < 0.6:
        et = rng.choice(earlier)
        if rng.random() < 0.5:
            t["typed"].append(("inner", et))
        else:
            t["typed_arrays"].append(("parts", et))
    for b, pool, key in (("get", fprocs, "fbinds"), ("run", sprocs, "sbinds"), ("total", fprocs, "fbinds"),
                         ("reset", sprocs, "sbinds")):
        if pool and rng.random() < 0.5:
            t[key].append(b)
            t["targets"][b] = rng.choice(pool)
    return t


def gen_proc_shell(rng, pname, kind=None):
    kind = kind or rng.choice(["function", "subroutine"])
    nargs = 0 if kind == "program" else rng.choice([0, 1, 1, 2])
    return {"name": pname, "kind": kind, "nargs": nargs, "args": [f"a{i}" for i in range(nargs)], "locals": {},
            "body": [], "internal": []}


def prefix_statements(fname, nargs):
    """[(statement, extra scalar or None)]: statements whose FIRST token has the name of the function [fname] as a
    proper prefix and whose only reference is to that function (an INTRINSICS spelling: the statement does not begin
    with the keyword, it begins with a longer name)"""
    args = [lit(x) for x in ["1", "2", "3"][:nargs]]
    a = lit("") if not args else args[-1]
    for x in reversed(args[:-1]):
        a = ("bin", x, ", ", a)
    ref = ("des", ("la", fname, a))
    return [(("form", None, True, ("FAssign", name(f"{fname}_local"), ref)), f"{fname}_local"),
            (("form", None, True, ("FAssign", name(f"{fname}2"), ref)), f"{fname}2"),
            (("form", "10", True, ("FAssign", name(f"{fname}_v"), ref)), f"{fname}_v"),
            (("form", "20", False, ("FIfAssign", ("bin", name(f"{fname}_rc"), " > ", lit("0")), name(f"{fname}_rc"), ref)), f"{fname}_rc"),
            (("call", None, ("la", f"{fname}_helper", ref)), None)]


def rebind_bodies(env):
    """unit bodies with nested ASSOCIATE constructs in which the inner one declares the associate name of the outer one
    again, with another selector, and a procedure is referenced through the name inside the inner block (the innermost
    declaration decides)"""
    out = []
    bound = [(o, t, b, key) for o, t in env.objs for key in ("sbinds", "fbinds") for b in env.types[t][key]]
    for o, t, b, key in bound:
        d = ("p0", "aa", ("la", b, lit("") if key == "sbinds" else lit("1")))
        ref = ("call", None, d) if key == "sbinds" else ("form", None, True, ("FAssign", name("ios"), ("des", d)))
        outers = [("bin", ("des", ("la", a, ("bin", lit("1"), ":", lit("2")))), " + ", lit("1")) for a in env.arrays[:1]]
        outers += [name(o2) for o2, t2 in env.objs if t2 != t and b in env.types[t2][key]]
        for sel in outers:
            out.append([("assoc", True, [("aa", sel)]), ("assoc", True, [("aa", name(o))]), ref, ("endassoc",), ("endassoc",)])
            out.append([("assoc", True, [("aa", sel), ("bb", name(o))]), ("assoc", False, [("cc", name("ios")), ("aa", name(o))]),
                        ref, ("endassoc",), ref, ("endassoc",)][:5] + [("endassoc",)])
    return out


def gen_project(rng, knobs=None):
    """-> abstract project {modules: [...], program: {...} | None}"""
    knobs = dict(knobs or {})
    nmod = rng.choice([1, 1, 2])
    pnames = rng.sample(PROC_NAMES, rng.randint(3, 7))
    if knobs.get("intrinsic_named"):
        pnames = pnames[:4] + rng.sample(INTRINSIC_NAMED_PROCS, 2)     # recorded like any other since the repair
    mods = []
    for mi in range(nmod):
        mine = pnames[mi::nmod]
        procs = [gen_proc_shell(rng, p, "function" if knobs.get("prefix_stmt") and p in INTRINSIC_NAMED_PROCS else None)
                 for p in mine]
        fprocs = [p["name"] for p in procs if p["kind"] == "function"]
        sprocs = [p["name"] for p in procs if p["kind"] == "subroutine"]
        uses = [m["name"] for m in mods] if mi and rng.random() < 0.8 else []
        visible_types = [t for m in mods if m["name"] in uses for t in m["types"]]
        types = []
        for ti in range(rng.choice([1, 2] if knobs.get("rebind_assoc") else [0, 1, 2])):
            tname = f"t{mi}{ti}"
            types.append(gen_type(rng, tname, [t["name"] for t in visible_types + types], fprocs, sprocs))
            if knobs.get("rebind_assoc") and not (types[-1]["fbinds"] or types[-1]["sbinds"]):
                b, pool, key = ("run", sprocs, "sbinds") if sprocs else ("get", fprocs, "fbinds")
                if pool:
                    types[-1][key].append(b)
                    types[-1]["targets"][b] = rng.choice(pool)
        arrays = rng.sample(ARRAY_NAMES, rng.choice([1, 2, 3]))
        mods.append({"name": f"m{mi}", "uses": uses,
                     "types": types, "arrays": arrays, "procs": procs,
                     "objs": [(f"gobj{mi}", rng.choice(types)["name"])] if types and rng.random() < 0.5 else []})
    program = None
    if rng.random() < 0.7:
        internals = [gen_proc_shell(rng, n) for n in rng.sample(["helper", "show", "sum3", "iffy"], rng.choice([0, 1, 2]))]
        program = {"name": "main_p", "uses": [m["name"] for m in mods if rng.random() < 0.85], "procs": internals,
                   "unit": gen_proc_shell(rng, "main_p", "program")}
    externals = []
    if rng.random() < knobs.get("p_externals", 0.8):
        for n in rng.sample(EXTERNAL_NAMES, rng.choice([1, 2, 3, 4])):
            externals.append(gen_proc_shell(rng, n))
    for mi, m in enumerate(mods):
        m["modprocs"] = []
        if rng.random() < knobs.get("p_submodule", 0.5):
            mp = gen_proc_shell(rng, f"mp{mi}", "subroutine")
            mp["nargs"], mp["args"], mp["modproc"] = 0, [], True
            m["modprocs"].append(mp)
    proj = {"modules": mods, "program": program, "knobs": knobs, "externals": externals}
    # bodies
    for m in mods:
        for p in m["procs"] + m["modprocs"]:
            fill_unit(rng, proj, m, p, host=None)
    if program:
        fill_unit(rng, proj, None, program["unit"], host=None)
        for p in program["procs"]:
            fill_unit(rng, proj, None, p, host=program)
    return proj


def visible(proj, mod, unit, host):
    """(modules whose entities are visible, host procedures)"""
    byname = {m["name"]: m for m in proj["modules"]}
    mods = []
    if mod is not None:
        mods.append(mod)
        for u in mod["uses"]:
            mods.append(byname[u])
    else:
        for u in proj["program"]["uses"]:
            mods.append(byname[u])
            # a used module's own USE makes those public entities visible too (default public)
            for uu in byname[u]["uses"]:
                if byname[uu] not in mods:
                    mods.append(byname[uu])
    return mods


def fill_unit(rng, proj, mod, unit, host):
    knobs = proj["knobs"]
    env = Env()
    env.knobs = knobs
    mods = visible(proj, mod, unit, host)
    alltypes = {t["name"]: t for m in proj["modules"] for t in m["types"]}
    env.types = {t["name"]: alltypes[t["name"]] for m in mods for t in m["types"]}
    # the type environment must be closed under component types
    for t in list(env.types.values()):
        for _, ct in t["typed"] + t["typed_arrays"]:
            env.types.setdefault(ct, alltypes[ct])
    # locals: arrays, scalars, objects; some shadow module-level names on purpose
    larrays = rng.sample(ARRAY_NAMES, rng.choice([1, 2]))
    if knobs.get("shadow") and rng.random() < 0.5:
        cand = [p["name"] for m in mods for p in m["procs"] if p["name"] != unit["name"]]
        if cand:
            larrays.append(rng.choice(cand))      # a local array with the spelling of a visible procedure
    lscalars = rng.sample(SCALAR_NAMES, rng.choice([3, 4, 5])) + ["ios"]
    lobjs = []
    for on in rng.sample(OBJ_NAMES, rng.choice([1, 2, 2] if knobs.get("rebind_assoc") else [0, 1, 2])):
        if env.types:
            lobjs.append((on, rng.choice(sorted(env.types))))
    unit["locals"] = {"arrays": sorted(set(larrays)), "scalars": sorted(set(lscalars) - set(larrays)), "objs": lobjs}
    local_names = set(unit["locals"]["arrays"]) | set(unit["locals"]["scalars"]) | {o for o, _ in lobjs} | set(unit["args"])
    if unit["kind"] == "function":
        local_names.add(unit["name"])
    procs = []
    if host is not None:
        procs += host["procs"]
    if proj["program"] and unit is proj["program"]["unit"]:
        procs += proj["program"]["procs"]
    for m in mods:
        procs += m["procs"]
    seen = set(local_names)
    for p in procs:
        if p["name"] in seen:
            continue
        seen.add(p["name"])
        (env.funcs if p["kind"] == "function" else env.subs).append((p["name"], p["nargs"]))
    env.arrays = list(unit["locals"]["arrays"])
    for m in mods:
        for a in m["arrays"]:
            if a not in seen:
                seen.add(a)
                env.arrays.append(a)
    env.scalars = list(unit["locals"]["scalars"]) + list(unit["args"])
    env.objs = list(lobjs) + [(o, t) for m in mods for (o, t) in m["objs"] if o not in seen]
    # external procedures of the project, declared EXTERNAL in this unit in one of the accepted ways
    unit["externals"] = []
    pool = [e for e in proj.get("externals", []) if e["name"] not in seen]
    for e in rng.sample(pool, min(len(pool), rng.choice([0, 1, 2, 3]))):
        form = rng.choice(EXTERNAL_FORMS_FUNC if e["kind"] == "function" else EXTERNAL_FORMS_SUB)
        unit["externals"].append((e["name"], e["kind"], form))
        seen.add(e["name"])
        (env.funcs if e["kind"] == "function" else env.subs).append((e["name"], e["nargs"]))
        # referenced more often than the rest
        (env.funcs if e["kind"] == "function" else env.subs).append((e["name"], e["nargs"]))
    if knobs.get("unknown_array"):
        env.unknown_arrays = ["w_imp", "z_blk"]
        unit["locals"]["implicit_arrays"] = ["w_imp", "z_blk"]
    if knobs.get("unknown_proc", True):
        env.unknown_procs = rng.sample(["ext_fn", "extsub", "sum_ext"], rng.choice([0, 1]))
    body = gen_body(rng, env, rng.choice([2, 4, 6, 9]), rng.choice([1, 2, 2, 3]))
    # the only reference of the unit: a function spelled like an INTRINSICS entry, in a statement that begins with a
    # longer name (`rank_local = rank(1)`)
    cands = [(f, n) for f, n in env.funcs if f in INTRINSIC_NAMED_PROCS and f != unit["name"]]
    if cands and rng.random() < knobs.get("prefix_stmt", 0):
        f, n = rng.choice(sorted(set(cands)))
        st, var = rng.choice(prefix_statements(f, n))
        body = [st]
        if var:
            unit["locals"]["scalars"] = sorted(set(unit["locals"]["scalars"]) | {var})
        unit["prefix_stmt"] = f
    if knobs.get("rebind_assoc") and rng.random() < knobs["rebind_assoc"]:
        bodies = rebind_bodies(env)
        if bodies:
            body = rng.choice(bodies)
            unit["rebind_assoc"] = True
    p_case = knobs.get("p_case", rng.choice([0.0, 0.15, 0.3, 0.6]))
    unit["body"] = [recase_stmt(rng, s_, p_case) for s_ in body] if p_case else body
    unit["env_types"] = sorted(env.types)


# ----------------------------------------------------------------------------- truth tables

def unit_id(mod, host, unit):
    if mod is not None:
        return f"{mod['name']}.{unit['name']}"
    if host is not None:
        return f"{host['name']}.{unit['name']}"
    return unit["name"]


def type_labels(proj):
    out = []
    for m in proj["modules"]:
        for t in m["types"]:
            ls = []
            for c in t["arrays"]:
                ls.append((c, ("var", "integer", True)))
            ls.append(("n", ("var", "integer", True)))
            for c, ct in t["typed"] + t["typed_arrays"]:
                ls.append((c, ("var", ct, True)))
            for b in t["fbinds"] + t["sbinds"]:
                ls.append((b, ("proc", f"@{m['name']}.{t['name']}.{b}")))
            out.append((t["name"], ls))
    return out


def truth_table(proj, mod, unit, host):
    """labels of the unit by Fortran's rules: local, then host, then use association (first match wins)"""
    scope = []
    loc = unit["locals"]
    for a in loc["arrays"] + loc["scalars"] + list(unit["args"]):
        scope.append((a, ("var", "integer", True)))
    for a in loc.get("implicit_arrays", []):
        scope.append((a, ("var", "real", True)))
    for o, t in loc["objs"]:
        scope.append((o, ("var", t, True)))
    if unit["kind"] == "function":
        scope.append((unit["name"], ("var", "integer", True)))
    for n, k, _ in unit.get("externals", []):
        scope.append((n, ("func", "@" + n, "integer") if k == "function" else ("proc", "@" + n)))

    def proc_ent(owner, p):
        pid = f"@{owner}.{p['name']}"
        return ("func", pid, "integer") if p["kind"] == "function" else ("proc", pid)
    if proj["program"] and unit is proj["program"]["unit"]:
        for p in proj["program"]["procs"]:
            scope.append((p["name"], proc_ent("main_p", p)))
    if host is not None:
        for p in host["procs"]:
            scope.append((p["name"], proc_ent(host["name"], p)))
        hl = host["unit"]["locals"]
        for a in hl["arrays"] + hl["scalars"]:
            scope.append((a, ("var", "integer", True)))
        for o, t in hl["objs"]:
            scope.append((o, ("var", t, True)))
    for m in visible(proj, mod, unit, host):
        for p in m["procs"]:
            scope.append((p["name"], proc_ent(m["name"], p)))
        for a in m["arrays"]:
            scope.append((a, ("var", "integer", True)))
        for o, t in m["objs"]:
            scope.append((o, ("var", t, True)))
        for t in m["types"]:
            scope.append((t["name"], ("type", t["name"])))
    # first match wins in the Spec's lookup; drop shadowed duplicates so the table has unique keys
    seen, uniq = set(), []
    for n, e in scope:
        if n not in seen:
            seen.add(n)
            uniq.append((n, e))
    return (uniq, type_labels(proj), [(e["name"], "@" + e["name"]) for e in proj.get("externals", [])])


# ----------------------------------------------------------------------------- Fortran text

def layout_statements(rng, stmts, knobs):
    """physical lines for a list of statement texts: ';' joins, '&'...'&' continuations, comments"""
    lines = []
    i = 0
    p_cut = knobs.get("p_cut", 0.015)
    while i < len(stmts):
        group = [stmts[i]]
        i += 1
        while i < len(stmts) and rng.random() < knobs.get("p_semi", 0.15) and not group[-1][:1].isdigit() \
                and not stmts[i][:1].isdigit():
            group.append(stmts[i])
            i += 1
        text = rng.choice([" ; ", ";", "; "]).join(group) if len(group) > 1 else group[0]
        # cut anywhere (also inside names and literals): trailing '&' + leading '&' keeps the stream intact
        cuts = [p for p in range(1, len(text)) if rng.random() < p_cut]
        good, prev = [], 0
        for p in cuts:
            if text[prev:p].strip() and text[p:].strip() and text[p] != "!" :
                good.append(p)
                prev = p
        prev = 0
        ind = "    "
        first = True
        inq = None
        for p in good + [len(text)]:
            seg = text[prev:p]
            started_in = inq
            for ch in seg:
                if inq:
                    if ch == inq:
                        inq = None
                elif ch in "'\"":
                    inq = ch
            line = ind + ("" if first else "&") + seg
            if p != len(text):
                line += "&"
                if not inq and not started_in and rng.random() < 0.2:
                    line += " ! call commented(1)"
            elif not started_in and rng.random() < 0.15:
                line += " ! x = g(3)"
            lines.append(line)
            if p != len(text) and not inq and rng.random() < 0.1:
                lines.append("   ! call in_comment(2)")
            first = False
            prev = p
        if rng.random() < 0.08:
            lines.append("")
    return lines


def render_unit(rng, proj, mod, unit, host, ind, knobs):
    out = []
    k = unit["kind"]
    args = "(" + ", ".join(unit["args"]) + ")"
    if k == "program":
        out.append(f"{ind}program {unit['name']}")
        for u in proj["program"]["uses"]:
            out.append(f"{ind}  use {u}")
    elif unit.get("modproc"):
        out.append(f"{ind}module procedure {unit['name']}")
    else:
        out.append(f"{ind}{k} {unit['name']}{args}")
    if not unit["locals"].get("implicit_arrays"):
        out.append(f"{ind}  implicit none")
    loc = unit["locals"]
    for a in unit["args"]:
        out.append(f"{ind}  integer :: {a}")
    if k == "function":
        out.append(f"{ind}  integer :: {unit['name']}")
    for a in loc["arrays"]:
        out.append(f"{ind}  integer :: {a}(10)")
    if loc["scalars"]:
        out.append(f"{ind}  integer :: " + ", ".join(loc["scalars"]))
    for o, t in loc["objs"]:
        out.append(f"{ind}  type({t}) :: {o}")
    for a in loc.get("implicit_arrays", []):
        out.append(f"{ind}  dimension {a}(10)")
    for n, _, form in unit.get("externals", []):
        if form == "attr":
            out.append(f"{ind}  integer, external :: {n}")
        elif form == "pair":
            out += [f"{ind}  integer {n}", f"{ind}  external {n}"]
        elif form == "pair_colon":
            out += [f"{ind}  integer :: {n}", f"{ind}  EXTERNAL :: {n}"]
        elif form == "typed_only":      # only the result type is declared: still a function, a scalar cannot be indexed
            out.append(f"{ind}  integer :: {n}")
        elif form == "untyped_colon":
            out.append(f"{ind}  external :: {n}")
        else:
            out.append(f"{ind}  external {n}")
    stmts = [r_stmt(s) for s in unit["body"]]
    if knobs.get("respace"):
        stmts = [knobs["respace"](x) for x in stmts]
    unit["srcs"] = stmts
    out += layout_statements(rng, stmts, knobs)
    if k == "function":
        out.append(f"{ind}  {unit['name']} = 1")
    if k == "program" and proj["program"]["procs"]:
        out.append(f"{ind}contains")
        for p in proj["program"]["procs"]:
            out += render_unit(rng, proj, None, p, proj["program"], ind + "  ", knobs)
    out.append(f"{ind}end {'procedure' if unit.get('modproc') else k} {unit['name']}")
    return out


def render_project(rng, proj, knobs=None):
    knobs = dict(knobs or {})
    lines = []
    for m in proj["modules"]:
        lines.append(f"module {m['name']}")
        for u in m["uses"]:
            lines.append(f"  use {u}")
        lines.append("  implicit none")
        for t in m["types"]:
            lines.append(f"  type {t['name']}")
            for c in t["arrays"]:
                lines.append(f"    integer :: {c}(5)")
            lines.append("    integer :: n")
            for c, ct in t["typed"]:
                lines.append(f"    type({ct}) :: {c}")
            for c, ct in t["typed_arrays"]:
                lines.append(f"    type({ct}) :: {c}(3)")
            if t["fbinds"] or t["sbinds"]:
                lines.append("  contains")
                for b in t["fbinds"] + t["sbinds"]:
                    lines.append(f"    procedure, nopass :: {b} => {t['targets'][b]}")
            lines.append(f"  end type {t['name']}")
        for a in m["arrays"]:
            lines.append(f"  integer :: {a}(10)")
        for o, t in m["objs"]:
            lines.append(f"  type({t}) :: {o}")
        for p in m.get("modprocs", []):
            lines += ["  interface", f"    module subroutine {p['name']}()", f"    end subroutine {p['name']}", "  end interface"]
        if m["procs"]:
            lines.append("contains")
            for p in m["procs"]:
                lines += render_unit(rng, proj, m, p, None, "  ", knobs)
        lines.append(f"end module {m['name']}")
        lines.append("")
        if m.get("modprocs"):
            lines.append(f"submodule ({m['name']}) s{m['name']}")
            lines.append("contains")
            for p in m["modprocs"]:
                lines += render_unit(rng, proj, m, p, None, "  ", knobs)
            lines.append(f"end submodule s{m['name']}")
            lines.append("")
    if proj["program"]:
        lines += render_unit(rng, proj, None, proj["program"]["unit"], None, "", knobs)
    files = {"src/c08.f90": "\n".join(lines) + "\n"}
    if proj.get("externals"):      # F77 style: procedures at the top level of their own file
        ext = []
        for e in proj["externals"]:
            a = "(" + ", ".join(e["args"]) + ")"
            if e["kind"] == "function":
                ext += [f"integer function {e['name']}{a}"] + [f"  integer :: {x}" for x in e["args"]] + [f"  {e['name']} = 1"]
            else:
                ext += [f"subroutine {e['name']}{a}"] + [f"  integer :: {x}" for x in e["args"]]
            ext += [f"end {e['kind']} {e['name']}", ""]
        files["src/c08_ext.f90"] = "\n".join(ext) + "\n"
    return files


def units_of(proj):
    """yield (mod, unit, host, FORD path of names)"""
    for m in proj["modules"]:
        for p in m["procs"]:
            yield m, p, None, (m["name"], p["name"])
        for p in m.get("modprocs", []):
            yield m, p, None, ("s" + m["name"], p["name"])
    if proj["program"]:
        yield None, proj["program"]["unit"], None, ("main_p",)
        for p in proj["program"]["procs"]:
            yield None, p, proj["program"], ("main_p", p["name"])
