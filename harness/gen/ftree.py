"""Abstract Fortran programs as entity trees, rendered with random spellings (C01, C03-attach, C20).

A node is a dict:
  container: {"k": kind, "name": str, "abstract": bool, "generic": bool, "docs": [str], "children": [node],
              "body": [...]}  (kind in K* below)
  leaf:      {"l": lkind, "name": str, "docs": [str], "decl": {...}}
render_file(node, rng) -> list of events (stmt_term, text_line): the statement-kind sequence for the
Coq model and the Fortran text, from one traversal.
"""
from harness.core import coq_str, coq_list, coq_bool

KINDS = ["KFile", "KModule", "KSubmodule", "KProgram", "KSubroutine", "KFunction", "KModProcImpl", "KType",
         "KEnum", "KInterface", "KBlockData"]
END_WORD = {"KModule": "module", "KSubmodule": "submodule", "KProgram": "program", "KSubroutine": "subroutine",
            "KFunction": "function", "KModProcImpl": "procedure", "KType": "type", "KEnum": "enum",
            "KInterface": "interface", "KBlockData": "block data"}
NAMES = ["alpha", "beta", "gamma", "delta", "eps", "zeta", "eta", "theta", "iota", "kappa", "lam", "mu", "nu", "xi",
         "omicron", "rho", "sigma", "tau", "phi", "chi", "psi", "omega", "solve", "init", "run", "stepper", "grid"]


class Ctx:
    def __init__(self, rng, docs=True, spell=True, styles=False, idcase=False):
        self.styles = styles
        self.idcase = idcase
        self.known = set()
        self.rng = rng
        self.n = 0
        self.docs = docs
        self.spell = spell
        self.used = set()

    def name(self, base=None):
        self.n += 1
        b = base or self.rng.choice(NAMES)
        self.known.add(f"{b}{self.n}")
        return f"{b}{self.n}"

    def recase(self, text):
        """Fortran is case-insensitive: spell each occurrence of a declared identifier in the code part
        of a line with a random letter case (declaration and use sites then differ)"""
        if not self.idcase or not self.known:
            return text
        cut = text.find("!")
        code, rest = (text, "") if cut < 0 else (text[:cut], text[cut:])
        if "'" in code or '"' in code:
            return text

        def sub(m):
            w = m.group(0)
            if w not in self.known or self.rng.random() > 0.35:
                return w
            return self.rng.choice([w.upper(), w.capitalize(), w[:1] + w[1:].upper()])
        import re as _re
        return _re.sub(r"[A-Za-z_][A-Za-z_0-9]*", sub, code) + rest

    def docs_for(self):
        if not self.docs or self.rng.random() < 0.3:
            return []
        self.n += 1
        k = self.rng.choice([1, 1, 2, 3])
        return [f" zq{self.n}w{i} text" for i in range(k)]


def leaf(l, name, docs, **decl):
    return {"l": l, "name": name, "docs": docs, "decl": decl}


def container(k, name, docs, children, abstract=False, generic=False, **extra):
    d = {"k": k, "name": name, "abstract": abstract, "generic": generic, "docs": docs, "children": children}
    d.update(extra)
    return d


# ------------------------------------------------------------------ generation

TYPESPECS = [
    # (declared vartype, kind, strlen, spellings)
    ("integer", None, None, ["integer"]),
    ("integer", "4", None, ["integer(4)", "integer(kind=4)", "integer*4", "integer( KIND = 4 )"]),
    ("real", None, None, ["real"]),
    ("real", "8", None, ["real(8)", "real(kind=8)", "real*8", "real (8)"]),
    ("real", "dp", None, ["real(dp)", "real(kind=dp)"]),
    ("double precision", None, None, ["double precision", "doubleprecision", "DOUBLE   PRECISION"]),
    ("complex", "8", None, ["complex(8)", "complex(kind=8)", "complex*8"]),
    ("logical", None, None, ["logical"]),
    ("character", None, "10", ["character(10)", "character(len=10)", "character*10", "character(LEN = 10)"]),
    ("character", None, "*", ["character(*)", "character(len=*)", "character*(*)"]),
    ("character", "1", "5", ["character(len=5,kind=1)", "character(5,1)", "character(kind=1,len=5)",
                             "character(5,kind=1)"]),
    ("character", None, None, ["character"]),
]


def gen_var(cx, intent=False, in_type=False):
    rng = cx.rng
    ts = rng.choice(TYPESPECS)
    name = cx.name(rng.choice(["v", "x", "idx", "buf"]))
    attrs = []
    if not intent and rng.random() < 0.3:
        attrs.append(rng.choice(["allocatable", "pointer", "target", "save"] if not in_type else ["allocatable", "pointer"]))
    dim = None
    if rng.random() < 0.3:
        dim = "(:)" if attrs and attrs[0] in ("allocatable", "pointer") else rng.choice(["(3)", "(2,2)", "(0:4)"])
    init = None
    if not intent and not in_type and not attrs and dim is None and ts[0] in ("integer", "real", "logical") \
            and rng.random() < 0.35:
        init = {"integer": rng.choice(["1", "42"]), "real": rng.choice(["1.0", "2.5e0"]),
                "logical": rng.choice([".true.", ".false."])}[ts[0]]
    it = rng.choice(["in", "out", "inout"]) if intent else None
    opt = bool(intent and rng.random() < 0.2)
    return leaf("LVariable", name, cx.docs_for(), ts=ts, attrs=attrs, dim=dim, init=init, intent=it, optional=opt)


def gen_var_group(cx):
    rng = cx.rng
    n = rng.choice([2, 3])
    spec = rng.choice(["integer", "real(8)", "logical", "character(len=4)", "real*8", "double precision"])
    return {"g": "LVariable", "names": [cx.name("gv") for _ in range(n)], "docs": cx.docs_for(),
            "decl": {"spec": spec, "dims": [rng.choice(["", "", "(3)", "(2,2)"]) for _ in range(n)]}}


def gen_proc(cx, depth=0, in_interface=False, name=None):
    rng = cx.rng
    k = rng.choice(["KSubroutine", "KFunction"])
    name = name or cx.name(rng.choice(["proc", "calc", "do_it"]))
    nargs = rng.choice([0, 1, 2])
    args = [gen_var(cx, intent=True) for _ in range(nargs)]
    children = list(args)
    result = None
    if k == "KFunction":
        result = cx.name("res") if rng.random() < 0.5 else None
        rv = leaf("LVariable", result or name, [] if rng.random() < 0.5 else cx.docs_for(),
                  ts=rng.choice(TYPESPECS[:5]), attrs=[], dim=None, init=None, intent=None, optional=False)
        children.append(rv)
    if not in_interface:
        for _ in range(rng.choice([0, 1, 2])):
            children.append(gen_var(cx))
        if rng.random() < 0.2:
            children.append(gen_type(cx, []))
        if rng.random() < 0.15:
            children.append(leaf("LNamelist", cx.name("nml"), cx.docs_for(),
                                 vars=[c["name"] for c in children if c.get("l") == "LVariable"][:2] or ["zz"]))
    internal = []
    if depth == 0 and not in_interface and rng.random() < 0.3:
        internal = [gen_proc(cx, 1) for _ in range(rng.choice([1, 2]))]
    return container(k, name, cx.docs_for(), children + internal, args=[a["name"] for a in args], result=result,
                     attrs=rng.sample(["pure", "elemental", "recursive"], rng.choice([0, 0, 1])),
                     exec=rng.choice([0, 1, 2, 3]), internal=[p["name"] for p in internal])


def gen_type(cx, procnames):
    rng = cx.rng
    name = cx.name(rng.choice(["t_", "shape", "node"]))
    comps = [gen_var(cx, in_type=True) for _ in range(rng.choice([0, 1, 2, 3]))]
    bound, finals = [], []
    if procnames and rng.random() < 0.6:
        nb = rng.choice([1, 2, 3])
        bound = [leaf("LBoundProc", cx.name("b"), cx.docs_for(), target=rng.choice(procnames)) for _ in range(nb)]
        if rng.random() < 0.3:
            finals = [leaf("LFinal", rng.choice(procnames), cx.docs_for())]
    if procnames and rng.random() < 0.3:
        bound.append({"g": "LBoundProc", "names": [cx.name("gb") for _ in range(rng.choice([2, 3]))], "docs": cx.docs_for(),
                      "decl": {"targets": [rng.choice(procnames) for _ in range(3)]}})
        if len(procnames) > 1 and rng.random() < 0.5:
            finals.append({"g": "LFinal", "names": rng.sample(procnames, 2), "docs": cx.docs_for(), "decl": {}})
    if rng.random() < 0.3:
        comps.append(gen_var_group(cx))
    return container("KType", name, cx.docs_for(), comps + bound + finals, attrs=rng.choice([[], ["public"], ["abstract"]]))


def gen_module(cx, modnames, submodule_of=None):
    rng = cx.rng
    name = cx.name("mod")
    procs = [gen_proc(cx) for _ in range(rng.choice([0, 1, 2, 3]))]
    pnames = [p["name"] for p in procs]
    children = []
    for m in modnames:
        if rng.random() < 0.4:
            children.append(leaf("LUse", m, [], only=None))
    for _ in range(rng.choice([0, 1, 2])):
        children.append(gen_type(cx, pnames))
    for _ in range(rng.choice([0, 1, 2, 3])):
        children.append(gen_var(cx) if rng.random() < 0.75 else gen_var_group(cx))
    if rng.random() < 0.3:
        enum_vars = [leaf("LVariable", cx.name("e"), cx.docs_for(), enumerator=True) for _ in range(rng.choice([1, 2, 3]))]
        children.append(container("KEnum", "", cx.docs_for(), enum_vars))
    if rng.random() < 0.25:
        children.append(leaf("LCommon", cx.name("blk"), cx.docs_for(), vars=[cx.name("cv")]))
    if rng.random() < 0.2:
        children.append(leaf("LNamelist", cx.name("nml"), cx.docs_for(), vars=["zz"]))
    # interfaces
    if pnames and rng.random() < 0.4:
        picked = rng.sample(pnames, rng.choice([1, min(2, len(pnames))]))
        if len(picked) > 1 and rng.random() < 0.5:
            refs = [{"g": "LModProcRef", "names": picked, "docs": cx.docs_for(), "decl": {}}]
        else:
            refs = [leaf("LModProcRef", n, []) for n in picked]
        gname = rng.choice([cx.name("gen"), "operator(+)", "assignment(=)", "operator(.dot.)"])
        children.append(container("KInterface", gname, cx.docs_for(), refs, generic=True))
    if rng.random() < 0.3:
        bodies = [gen_proc(cx, 1, in_interface=True) for _ in range(rng.choice([1, 2]))]
        children.append(container("KInterface", "", cx.docs_for(), bodies, abstract=rng.random() < 0.5))
    kind = "KSubmodule" if submodule_of else "KModule"
    extra = {}
    if submodule_of:
        extra["ancestor"] = submodule_of
        if rng.random() < 0.5:
            procs.append(container("KModProcImpl", cx.name("mp"), cx.docs_for(), [gen_var(cx) for _ in range(rng.choice([0, 1]))],
                                   exec=1, internal=[]))
    return container(kind, name, cx.docs_for(), children + procs, has_procs=bool(procs), **extra)


def gen_program(cx, modnames):
    rng = cx.rng
    name = cx.name("prog") if rng.random() < 0.85 else ""
    children = [leaf("LUse", m, [], only=None) for m in modnames if rng.random() < 0.4]
    children += [gen_var(cx) for _ in range(rng.choice([0, 1, 2]))]
    procs = [gen_proc(cx, 1) for _ in range(rng.choice([0, 1]))]
    return container("KProgram", name, cx.docs_for(), children + procs, has_procs=bool(procs), exec=rng.choice([0, 2, 4]))


def gen_blockdata(cx):
    rng = cx.rng
    name = cx.name("bd") if rng.random() < 0.7 else ""
    v = gen_var(cx)
    return container("KBlockData", name, cx.docs_for(),
                     [v, leaf("LCommon", cx.name("cb"), cx.docs_for(), vars=[v["name"]])])


def gen_file(cx, fname, modnames, allow_program=True):
    rng = cx.rng
    units = []
    for _ in range(rng.choice([1, 1, 2, 3])):
        r = rng.random()
        if r < 0.5:
            m = gen_module(cx, list(modnames))
            modnames.append(m["name"])
            units.append(m)
        elif r < 0.6 and modnames:
            units.append(gen_module(cx, [], submodule_of=rng.choice(modnames)))
        elif r < 0.8:
            units.append(gen_proc(cx))
        elif r < 0.9 and allow_program and not any(u["k"] == "KProgram" for u in units):
            units.append(gen_program(cx, list(modnames)))
        else:
            units.append(gen_blockdata(cx))
    return container("KFile", fname, [], units)


# ------------------------------------------------------------------ rendering

def kw(cx, word):
    if not cx.spell:
        return word
    r = cx.rng.random()
    return word.upper() if r < 0.2 else (word.capitalize() if r < 0.3 else word)


def stmt_unit(k, name):
    return f"SUnit {k} {coq_str(name)}"


class Out:
    def __init__(self):
        self.events = []   # (stmt term or None, text or None)
        self.style_counts = {}

    def emit(self, term, text):
        if text is not None and getattr(self, "cx", None) is not None:
            text = self.cx.recase(text)
        self.events.append((term, text))

    def docs(self, lines, ind):
        for d in lines:
            self.emit(f"SDoc {coq_str(d)}", f"{ind}!!{d}")

    def entity(self, cx, term, text, docs, ind):
        """a statement that creates an entity, with its documentation in one of the four marker styles
        (FORD's defaults: !! after, !> before, !* block after, !| block before); the reader delivers
        the documentation after the statement in every style, so the statement-kind sequence is the same"""
        style = cx.rng.choice(["post", "post", "pre", "premixed", "altpost", "altpre", "inline"]) if (cx.styles and docs) else "post"
        i2 = ind + "  "
        self.style_counts[style] = self.style_counts.get(style, 0) + 1
        if style in ("pre", "premixed"):
            for i, d in enumerate(docs):
                # the pre-marker is only required on the first line of a preceding block
                self.emit(None, f"{ind}!>{d}" if (style == "pre" or i == 0) else f"{ind}!!{d}")
            if cx.rng.random() < 0.3:
                self.emit(None, "")
            self.emit(term, text)
        elif style == "altpre":
            for i, d in enumerate(docs):
                self.emit(None, f"{ind}!|{d}" if i == 0 else f"{ind}!{d}")
            if cx.rng.random() < 0.3:
                self.emit(None, "")
            self.emit(term, text)
        elif style == "altpost":
            self.emit(term, text)
            for i, d in enumerate(docs):
                self.emit(None, f"{i2}!*{d}" if i == 0 else f"{i2}!{d}")
            self.emit(None, "")     # a blank line ends the block
        elif style == "inline":
            self.emit(term, f"{text} !!{docs[0]}")
            for d in docs[1:]:
                self.emit(None, f"{i2}!!{d}")
        else:
            self.emit(term, text)
            for d in docs:
                self.emit(f"SDoc {coq_str(d)}", f"{i2}!!{d}")
            return
        for d in docs:
            self.events.append((f"SDoc {coq_str(d)}", None))


def end_line(cx, k, name):
    rng = cx.rng
    w = END_WORD[k]
    if k == "KBlockData" and not name:
        forms = ["end", "end block data", "endblockdata"]
    else:
        # block data: "endblockdata", "end blockdata name" (END_RE accepts block\s*data since the repair of C01
        # end-blockdata-spelling)
        forms = ["end", f"end {w}", f"end {w} {name}".rstrip(), f"end{w.replace(' ', '')}",
                 f"end{w.replace(' ', '')} {name}".rstrip() if k != "KBlockData" else f"end blockdata {name}".rstrip()]
    if k == "KEnum":
        forms = ["end enum", "endenum", "END ENUM"]
    if k == "KInterface":
        forms = ["end interface", "endinterface", f"end interface {name}".rstrip() if not name.startswith(("operator", "assignment")) else "end interface"]
    if k == "KModProcImpl":
        forms = ["end procedure", "endprocedure", f"end procedure {name}", "end"]
    if k == "KType":
        forms = ["end type", "endtype", f"end type {name}"]
    f = rng.choice(forms) if cx.spell else forms[1 if len(forms) > 1 else 0]
    if cx.spell and rng.random() < 0.25:
        f = f.upper()
    return f


def render_var_decl(cx, v, ind):
    """one variable per declaration line; returns text"""
    rng = cx.rng
    d = v["decl"]
    if d.get("enumerator"):
        return f"{ind}{kw(cx, 'enumerator')} :: {v['name']}"
    ts = d["ts"]
    spec = rng.choice(ts[3]) if cx.spell else ts[3][0]
    if cx.spell and rng.random() < 0.2:
        spec = spec.upper()
    parts = [spec]
    if d.get("intent"):
        parts.append(rng.choice([f"intent({d['intent']})", f"INTENT( {d['intent']} )", f"intent ({d['intent']})"])
                     if cx.spell else f"intent({d['intent']})")
    if d.get("optional"):
        parts.append(kw(cx, "optional"))
    parts += [kw(cx, a) for a in d["attrs"]]
    use_dim_attr = d["dim"] and cx.spell and rng.random() < 0.3
    if use_dim_attr:
        parts.append(f"dimension{d['dim']}")
    name = v["name"] + ("" if use_dim_attr or not d["dim"] else d["dim"])
    if d.get("init") is not None:
        name += " = " + d["init"]
    sep = " :: "
    if cx.spell and len(parts) == 1 and d.get("init") is None and rng.random() < 0.3 and "*" not in spec and "(" not in spec:
        sep = " "
    return f"{ind}{', '.join(parts)}{sep}{name}"


def render_group(cx, out, node, ind):
    """one statement declaring several leaf entities"""
    l, names = node["g"], node["names"]
    term = f"SLeaf {l} {coq_list(coq_str(n) for n in names)}"
    if l == "LVariable":
        text = f"{ind}{node['decl']['spec']} :: " + ", ".join(n + d for n, d in zip(names, node["decl"]["dims"]))
    elif l == "LBoundProc":
        text = f"{ind}{kw(cx, 'procedure')}, nopass :: " + ", ".join(f"{n} => {tg}" for n, tg in zip(names, node["decl"]["targets"]))
    elif l == "LFinal":
        text = f"{ind}{kw(cx, 'final')} :: " + ", ".join(names)
    else:
        text = f"{ind}module procedure " + ", ".join(names)
    out.entity(cx, term, text, node["docs"], ind)


def expand_group(node):
    l, names, docs = node["g"], node["names"], node["docs"]
    if l == "LVariable":
        return [leaf(l, n, docs) for n in names]
    return [leaf(l, n, docs if n == names[-1] else []) for n in names]


def render_leaf(cx, out, node, ind):
    if "g" in node:
        return render_group(cx, out, node, ind)
    l = node["l"]
    if l == "LVariable":
        term, text = f"SLeaf LVariable [{coq_str(node['name'])}]", render_var_decl(cx, node, ind)
    elif l == "LUse":
        term, text = f"SLeaf LUse [{coq_str(node['name'])}]", f"{ind}{kw(cx, 'use')} {node['name']}"
    elif l == "LCommon":
        term, text = (f"SLeaf LCommon [{coq_str(node['name'])}]",
                      f"{ind}{kw(cx, 'common')} /{node['name']}/ {', '.join(node['decl']['vars'])}")
    elif l == "LNamelist":
        term, text = (f"SLeaf LNamelist [{coq_str(node['name'])}]",
                      f"{ind}{kw(cx, 'namelist')} /{node['name']}/ {', '.join(node['decl']['vars'])}")
    elif l == "LBoundProc":
        term, text = (f"SLeaf LBoundProc [{coq_str(node['name'])}]",
                      f"{ind}{kw(cx, 'procedure')}, nopass :: {node['name']} => {node['decl']['target']}")
    elif l == "LFinal":
        term, text = f"SLeaf LFinal [{coq_str(node['name'])}]", f"{ind}{kw(cx, 'final')} :: {node['name']}"
    else:
        mp = cx.rng.choice(['module procedure', 'module procedure ::', 'MODULE PROCEDURE']) if cx.spell else 'module procedure'
        term, text = f"SLeaf LModProcRef [{coq_str(node['name'])}]", f"{ind}{mp} {node['name']}"
    out.entity(cx, term, text, node["docs"], ind)


def first_line(cx, node):
    k, name = node["k"], node["name"]
    rng = cx.rng
    if k == "KModule":
        return f"{kw(cx, 'module')} {name}"
    if k == "KSubmodule":
        return f"{kw(cx, 'submodule')} ({node['ancestor']}) {name}"
    if k == "KProgram":
        return f"{kw(cx, 'program')} {name}".rstrip()
    if k == "KBlockData":
        return f"{rng.choice(['block data', 'BLOCK DATA', 'blockdata']) if cx.spell else 'block data'} {name}".rstrip()
    if k == "KType":
        attrs = node.get("attrs", [])
        if attrs:
            return f"{kw(cx, 'type')}, {', '.join(attrs)} :: {name}"
        return rng.choice([f"type :: {name}", f"type {name}", f"TYPE::{name}"]) if cx.spell else f"type :: {name}"
    if k == "KEnum":
        return rng.choice(["enum, bind(c)", "ENUM, BIND(C)", "enum , bind( c )"]) if cx.spell else "enum, bind(c)"
    if k == "KInterface":
        if node["abstract"]:
            return rng.choice(["abstract interface", "ABSTRACT INTERFACE"]) if cx.spell else "abstract interface"
        return f"{kw(cx, 'interface')} {name}".rstrip()
    if k == "KModProcImpl":
        return f"{kw(cx, 'module')} {kw(cx, 'procedure')} {name}"
    if k in ("KSubroutine", "KFunction"):
        prefix = " ".join(node.get("attrs", []))
        prefix = (prefix + " ") if prefix else ""
        args = "(" + ", ".join(node["args"]) + ")"
        if k == "KSubroutine":
            if not node["args"] and cx.spell and rng.random() < 0.4:
                args = ""
            return f"{prefix}{kw(cx, 'subroutine')} {name}{args}"
        res = f" {kw(cx, 'result')}({node['result']})" if node["result"] else ""
        return f"{prefix}{kw(cx, 'function')} {name}{args}{res}"
    raise ValueError(k)


def stmt_first(node):
    k = node["k"]
    if k == "KInterface":
        return f"SIface {coq_bool(node['abstract'])} {coq_str(node['name'])}"
    if k == "KModProcImpl":
        return f"SModProcImpl {coq_str(node['name'])}"
    return stmt_unit(k, node["name"])


EXEC = ["x1 = x1 + 1", "call helper(x1)", "if (x1 > 0) x1 = 0", "print *, 'hello ! not a comment'", "y2 = f(x1) + g(3)",
        "do i = 1, 3", "end do", "write(*,*) \"end module fake\"", "continue", "100 format (i5)", "go to (10, 20) k"]


def render_container(cx, out, node, ind=""):
    rng = cx.rng
    k = node["k"]
    i2 = ind + "  "
    out.entity(cx, stmt_first(node), ind + first_line(cx, node), node["docs"], ind)
    leaves_decl = [dict(c, l=c["g"]) if "g" in c else c for c in node["children"] if "l" in c or "g" in c]
    conts = [c for c in node["children"] if "k" in c]
    spec_conts = [c for c in conts if c["k"] in ("KType", "KEnum", "KInterface")]
    proc_conts = [c for c in conts if c["k"] in ("KSubroutine", "KFunction", "KModProcImpl")]
    uses = [c for c in leaves_decl if c["l"] == "LUse"]
    others = [c for c in leaves_decl if c["l"] not in ("LUse", "LBoundProc", "LFinal")]
    bound = [c for c in leaves_decl if c["l"] in ("LBoundProc", "LFinal")]
    for u in uses:
        render_leaf(cx, out, u, i2)
    if k in ("KModule", "KSubmodule", "KProgram", "KSubroutine", "KFunction", "KModProcImpl") and rng.random() < 0.7:
        out.emit("SNoop", i2 + kw(cx, "implicit none"))
        if cx.docs and rng.random() < 0.1:
            # documentation after a statement that declares nothing belongs to the enclosing unit
            extra = [f" zq{cx.n}wx stray"]
            node["docs"] = node["docs"] + extra
            out.docs(extra, i2)
    if k in ("KModule",) and rng.random() < 0.3:
        out.emit("SNoop", i2 + rng.choice(["private", "public", "PRIVATE"]))
    if k == "KInterface" and not node["generic"]:
        for c in conts:
            render_container(cx, out, c, i2)
    else:
        for c in spec_conts:
            render_container(cx, out, c, i2)
        for c in others:
            render_leaf(cx, out, c, i2)
        if k == "KInterface":
            pass
        if node.get("exec"):
            depth = 0
            for _ in range(node["exec"]):
                r = rng.random()
                if r < 0.15:
                    out.emit("SBlock", i2 + rng.choice(["block", "BLOCK", "blk1: block"]))
                    depth += 1
                elif r < 0.3 and depth:
                    out.emit("SEnd EndBlock", i2 + rng.choice(["end block", "END BLOCK", "endblock"] if False else ["end block", "END BLOCK"]))
                    depth -= 1
                elif r < 0.4:
                    out.emit("SNoop", i2 + "associate (q => x1)")
                    out.emit("SEnd EndAssociate", i2 + "end associate")
                else:
                    out.emit("SNoop", i2 + rng.choice(EXEC))
            for _ in range(depth):
                out.emit("SEnd EndBlock", i2 + "end block")
        if k == "KType":
            if bound:
                out.emit("SContains", ind + kw(cx, "contains"))
                for b in bound:
                    render_leaf(cx, out, b, i2)
        elif proc_conts:
            out.emit("SContains", ind + kw(cx, "contains"))
            for c in proc_conts:
                render_container(cx, out, c, i2)
        elif k in ("KModule", "KSubmodule") and rng.random() < 0.2:
            out.emit("SContains", ind + kw(cx, "contains"))
    out.emit("SEnd EndPlain", ind + end_line(cx, k, node["name"]))


def render_file(cx, fnode):
    out = Out()
    out.cx = cx
    for u in fnode["children"]:
        while cx.rng.random() < 0.2:
            out.emit(None, cx.rng.choice(["", "! plain comment", "   "]))
        render_container(cx, out, u)
    return out.events


# ------------------------------------------------------------------ trees as Coq terms / canonical python

def spec_tree(node):
    """the declared tree in the model's shape (non-generic interfaces flattened like FORD does)"""
    if "l" in node and "k" not in node:
        return node
    ch = []
    for c in node["children"]:
        if "g" in c:
            ch += expand_group(c)
        elif "k" in c and c["k"] == "KInterface" and not c["generic"]:
            for body in c["children"]:
                ch.append(container("KInterface", body["name"], c["docs"], [spec_tree(body)], abstract=c["abstract"]))
        else:
            ch.append(spec_tree(c))
    d = dict(node)
    d["children"] = ch
    return d


def tree_term(node):
    if "l" in node:
        return f"Leaf {node['l']} {coq_str(node['name'])} {coq_list(coq_str(d) for d in node['docs'])}"
    return (f"Container {node['k']} {coq_str(node['name'])} {coq_bool(node['abstract'])} {coq_bool(node['generic'])} "
            f"{coq_list(coq_str(d) for d in node['docs'])} {coq_list('(' + tree_term(c) + ')' for c in node['children'])}")
