"""Token-level free-form layouts for C02/C03/C14: a logical line is a character stream `cs`
built from pieces; a layout cuts it into physical lines with continuations, comments, blanks."""

CODE_FRAGS = ["x", "=", "y1", "+", "call", "foo", "(", ")", ",", "a%b", "1.0e0", "if", "then", "end", "do",
              "print", "*", "//", "::", "integer", "n_2", ".and.", "=>", "[", "]", "100", "<", ">", "/"]
LIT_BODIES = ["", "a", "abc", "it's", 'say "hi"', "!", "!!", "!> x", ";", "a;b", "&", "a & b", "x ! y ; z &",
              "''", '""', " ", "  two  ", "end program", "call f(x)", "'", '"', "don''t", "a'b\"c", "!*", "!|",
              "& ", " &", "&&", "!<", "#", "100%"]
COMMENTS = ["", " plain", " call foo()", " 'quoted' text", " it's", ' say "x', " a ; b", " trailing &", " ! again",
            "x", " end", "-- note", " #tag"]


def render_lit(q, body):
    return q + body.replace(q, q + q) + q


def gen_pieces(rng, nstmt=None, maxtok=6, lit_p=0.35):
    """-> list of pieces ('c', text) | ('l', q, body) | ('s', n) | (';',)"""
    pieces = []
    nstmt = nstmt or rng.choice([1, 1, 1, 2, 3])
    for si in range(nstmt):
        if si:
            if rng.random() < 0.5:
                pieces.append(("s", rng.choice([1, 2])))
            pieces.append((";",))
            if rng.random() < 0.5:
                pieces.append(("s", rng.choice([1, 2])))
        ntok = rng.randint(1, maxtok)
        if rng.random() < 0.1:
            ntok = 0   # empty statement
        for ti in range(ntok):
            if ti and rng.random() < 0.8:
                pieces.append(("s", rng.choice([1, 1, 1, 2, 4])))
            if rng.random() < lit_p:
                pieces.append(("l", rng.choice("'\""), rng.choice(LIT_BODIES)))
            else:
                pieces.append(("c", rng.choice(CODE_FRAGS)))
    return pieces


def render_cs(pieces):
    """-> (cs, inlit) where inlit[p] is True iff cutting *before* cs[p] falls strictly inside a literal"""
    cs, inlit = [], []
    for p in pieces:
        if p[0] == "c":
            cs += list(p[1]); inlit += [False] * len(p[1])
        elif p[0] == "s":
            cs += [" "] * p[1]; inlit += [False] * p[1]
        elif p[0] == ";":
            cs.append(";"); inlit.append(False)
        else:
            t = render_lit(p[1], p[2])
            cs += list(t); inlit += [False] + [True] * (len(t) - 1)
    return "".join(cs), inlit


def split_statements(pieces):
    """expected statements (canonical form), empty ones dropped"""
    out, cur = [], []
    for p in pieces + [(";",)]:
        if p[0] == ";":
            text = canon(render_cs(cur)[0])
            if text:
                out.append(text)
            cur = []
        else:
            cur.append(p)
    return out


def canon(text):
    """collapse blank runs outside character literals, trim (Fortran free-form equivalence)"""
    out, q = [], None
    for ch in text:
        if q:
            out.append(ch)
            if ch == q:
                q = None
        elif ch in "'\"":
            q = ch
            out.append(ch)
        elif ch in " \t":
            if out and out[-1] != " ":
                out.append(" ")
            elif not out:
                pass
        else:
            out.append(ch)
    if not q and out and out[-1] == " ":
        out.pop()
    return "".join(out)


def gen_layout(rng, pieces, knobs=None):
    """-> dict(lines=[...], regions=set(), cuts=n, shapes=set()). knobs: p_cut, comments(bool), between(bool).
    Commentary stands wherever Fortran allows it: after a line that ends outside a literal (also when the line
    started inside one: shape "comment_after_cont_lit") and as comment lines between continued lines (also between
    the lines of a continued literal: shape "comment_in_cont_lit"). `regions` is always empty: no known defect
    region is left for these layouts (the key is kept for the callers that sum region codes)."""
    k = {"p_cut": 0.25, "comments": True, "between": True, "max_indent": 6}
    k.update(knobs or {})
    cs, inlit = render_cs(pieces)
    n = len(cs)
    cuts = sorted(p for p in range(1, n) if rng.random() < k["p_cut"]) if n > 1 else []
    if k.get("force_cuts") is not None:
        cuts = [p for p in k["force_cuts"] if 0 < p < n]
    # no physical line may consist of blanks and '&' only: every segment needs a non-blank character
    good, prev = [], 0
    for p in cuts:
        if cs[prev:p].strip() and cs[p:].strip():
            good.append(p)
            prev = p
    cuts = good
    p_shape = k.get("p_shape", 0.3)   # how often commentary follows / stands inside a continued literal
    lines, regions, shapes = [], set(), set()
    indent = " " * rng.randint(0, k["max_indent"])
    prev = 0
    lead = ""
    start_inlit = False
    for ci, p in enumerate(cuts + [n]):
        seg = cs[prev:p]
        last = p == n
        line = indent + lead + seg
        if not last:
            inl = inlit[p]
            line += "&"
            trailing = " " * rng.choice([0, 0, 1, 3])
            comment = None
            if k["comments"] and not inl and rng.random() < (p_shape if start_inlit else 0.3):
                comment = "!" + rng.choice(COMMENTS)
            line += trailing + (comment or "")
            if comment is not None and start_inlit:
                shapes.add("comment_after_cont_lit")
            lines.append(line)
            if k["between"]:
                while rng.random() < 0.25:
                    if rng.random() < 0.5 or (inl and rng.random() > 2 * p_shape):
                        lines.append(" " * rng.choice([0, 2, 5]))
                    else:
                        lines.append(" " * rng.choice([0, 3]) + "!" + rng.choice(COMMENTS))
                        if inl:
                            shapes.add("comment_in_cont_lit")
            # leading & is mandatory inside a literal or a token; optional next to a blank
            blank_adjacent = cs[p - 1] == " " or cs[p] == " "
            need_amp = inl or not blank_adjacent
            use_amp = need_amp or rng.random() < 0.5
            indent = " " * rng.randint(0, k["max_indent"])
            lead = "&" if use_amp else ""
            start_inlit = inl
        else:
            comment = None
            if k["comments"] and rng.random() < (p_shape if start_inlit else 0.3):
                comment = " " * rng.choice([0, 1, 2]) + "!" + rng.choice(COMMENTS)
                if start_inlit:
                    shapes.add("comment_after_cont_lit")
            lines.append(line + (comment or ""))
        prev = p
    return {"lines": lines, "regions": regions, "cuts": len(cuts), "cs": cs, "shapes": shapes}


def gen_file(rng, nlog=None, knobs=None):
    """several logical lines with blank/comment lines between -> (lines, expected statements, regions, stats)"""
    nlog = nlog or rng.choice([1, 2, 3, 5])
    lines, expected, regions, ncuts = [], [], set(), 0
    for _ in range(nlog):
        while rng.random() < 0.2:
            lines.append(rng.choice(["", "   ", "! c", "  !" + rng.choice(COMMENTS)]))
        pieces = gen_pieces(rng)
        kk = dict(knobs or {})
        kk.setdefault("p_cut", rng.choice([0.0, 0.03, 0.08, 0.2, 0.5]))
        lay = gen_layout(rng, pieces, kk)
        if not lay["cs"].strip():
            continue
        # a logical line must not begin with '&', '#' or look like an include statement
        lines += lay["lines"]
        expected += split_statements(pieces)
        regions |= lay["regions"]
        ncuts += lay["cuts"]
    return lines, expected, regions, ncuts
