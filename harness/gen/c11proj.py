"""Generated Fortran projects for C11: few names, reused across kinds and across levels, so that the
context of a [[reference]] matters.  gen(rng) -> {"files": {relpath: text}, "docs": [doc keys]}.
Every documented entity carries one doc line  `!! @DOC<key>@`  that callers substitute."""

POOL = ["reset", "init", "shape", "helper", "item", "count"]
EXTRA = ["alpha", "beta", "gamma", "delta"]


class Gen:
    def __init__(self, rng, knobs=None):
        self.rng = rng
        self.k = knobs or {}
        self.docs = []
        self.unique = 0

    def name(self, used, p_pool=0.8):
        rng = self.rng
        for _ in range(20):
            n = rng.choice(POOL) if rng.random() < p_pool else rng.choice(EXTRA)
            if n.lower() not in used:
                used.add(n.lower())
                return n if rng.random() > 0.15 else n.capitalize()
        self.unique += 1
        n = f"u{self.unique}"
        used.add(n)
        return n

    def doc(self, key, ind):
        self.docs.append(key)
        return f"{ind}!! @DOC{key}@\n"

    def args(self, used_outer):
        rng = self.rng
        used = set()
        return [self.name(used) for _ in range(rng.choice([0, 1, 1, 2]))]

    def procedure(self, path, name, ind, allow_internal=False):
        rng = self.rng
        isfun = rng.random() < 0.4
        args = self.args(set())
        args = [a for a in args if a.lower() != name.lower()]
        key = f"{path}/{name}"
        out = ""
        if isfun:
            res = "res_" + name.lower()
            out += f"{ind}function {name}({', '.join(args)}) result({res})\n"
        else:
            out += f"{ind}subroutine {name}({', '.join(args)})\n"
        out += self.doc(key, ind + "  ")
        for a in args:
            out += f"{ind}  integer :: {a}\n" + self.doc(f"{key}/{a}", ind + "    ")
        if isfun:
            out += f"{ind}  integer :: {res}\n{ind}  {res} = 0\n"
        locs = set(a.lower() for a in args) | {name.lower()}
        if rng.random() < 0.3:
            v = self.name(locs)
            out += f"{ind}  integer :: {v}\n" + self.doc(f"{key}/{v}", ind + "    ")
        out += f"{ind}end {'function' if isfun else 'subroutine'} {name}\n"
        return out, isfun

    def dtype(self, path, name, ind, procs, private=False):
        rng = self.rng
        key = f"{path}/{name}"
        out = f"{ind}type{', private' if private else ''} :: {name}\n" + self.doc(key, ind + "  ")
        used = set()
        for _ in range(rng.choice([0, 1, 2])):
            c = self.name(used)
            out += f"{ind}  integer :: {c}\n" + self.doc(f"{key}/{c}", ind + "    ")
        binds = []
        if procs and rng.random() < 0.8:
            for _ in range(rng.choice([1, 1, 2])):
                b = self.name(used)
                binds.append((b, rng.choice(procs)))
        if binds:
            out += f"{ind}contains\n"
            for b, tgt in binds:
                out += f"{ind}  procedure, nopass :: {b} => {tgt}\n" + self.doc(f"{key}/{b}", ind + "    ")
            if rng.random() < 0.3:
                g = self.name(used)
                out += f"{ind}  generic :: {g} => {binds[0][0]}\n"
            if rng.random() < 0.25:
                out += f"{ind}  final :: {rng.choice(procs)}\n"
        out += f"{ind}end type {name}\n"
        return out

    def module(self, name):
        rng = self.rng
        path = name
        used = {name.lower()}
        nproc = rng.choice([1, 2, 3, 3])
        pnames = [self.name(used) for _ in range(nproc)]
        tnames = [self.name(used, 0.9) for _ in range(rng.choice([0, 1, 1, 2]))]
        vnames = [self.name(used) for _ in range(rng.choice([0, 1, 2]))]
        priv = [n for n in pnames + tnames + vnames if rng.random() < self.k.get("p_private", 0.15)]
        out = f"module {name}\n" + self.doc(name, "  ") + "  implicit none\n"
        if priv:
            out += "  private :: " + ", ".join(priv) + "\n"
        for v in vnames:
            out += f"  integer :: {v}\n" + self.doc(f"{path}/{v}", "    ")
        for t in tnames:
            out += self.dtype(path, t, "  ", pnames)
        if rng.random() < 0.5:
            g = self.name(used) if rng.random() < 0.6 or not tnames else tnames[0]
            out += f"  interface {g}\n" + self.doc(f"{path}/{g}(interface)", "    ")
            out += f"    module procedure {rng.choice(pnames)}\n  end interface {g}\n"
        if rng.random() < 0.4:
            a = self.name(used)
            out += "  abstract interface\n"
            out += f"    subroutine {a}(x)\n" + self.doc(f"{path}/{a}(absinterface)", "      ")
            out += f"      integer :: x\n    end subroutine {a}\n  end interface\n"
        if vnames and rng.random() < 0.3:
            nl = self.name(used)
            out += f"  namelist /{nl}/ {vnames[0]}\n"
        out += "contains\n"
        for pn in pnames:
            text, _ = self.procedure(path, pn, "  ")
            out += text
        out += f"end module {name}\n"
        return out

    def program(self, name, mods):
        rng = self.rng
        used = {name.lower()}
        out = f"program {name}\n" + self.doc(name + "(program)", "  ")
        for m in mods[:1]:
            out += f"  use {m}\n"
        out += "  implicit none\n"
        v = self.name(used)
        out += f"  integer :: {v}\n" + self.doc(f"{name}(program)/{v}", "    ")
        if rng.random() < 0.6:
            pn = self.name(used)
            out += "contains\n"
            text, _ = self.procedure(name + "(program)", pn, "  ")
            out += text
        out += f"end program {name}\n"
        return out


def gen(rng, knobs=None):
    g = Gen(rng, knobs)
    files = {}
    modnames, topused = [], set()
    nfiles = rng.choice([2, 2, 3])
    fused = set()
    for i in range(nfiles):
        base = g.name(fused, 0.6)
        fname = f"src/{base.lower()}.f90"
        text = ""
        for _ in range(rng.choice([1, 1, 2]) if i < 2 else 1):
            mn = g.name(topused, 0.5)
            modnames.append(mn)
            text += g.module(mn)
        if rng.random() < 0.6:
            pn = g.name(topused)
            t, _ = g.procedure("", pn, "")
            text += t
        if i == 0 and rng.random() < 0.7:
            text += g.program(g.name(topused), modnames)
        if rng.random() < 0.2:
            bn = g.name(topused)
            text += f"block data {bn}\n" + g.doc(bn + "(block)", "  ") + "  integer :: zz\n  common /cb/ zz\nend block data\n"
        files[fname] = text
    return {"files": files, "docs": g.docs}


def fill(files, docs):
    """substitute the doc placeholders: docs maps key -> text (missing keys get a neutral sentence)"""
    import re
    out = {}
    for rel, text in files.items():
        def sub(m, rel=rel):
            t = docs.get(m.group(1))
            if t is None:
                return "Documented entity."
            ind = re.search(r"^([ \t]*)!! @DOC" + re.escape(m.group(1)) + "@", text, flags=re.M)
            pre = (ind.group(1) if ind else "") + "!! "
            lines = t.split("\n")
            return ("\n" + pre).join(lines)
        out[rel] = re.sub(r"@DOC(.*?)@", sub, text)
    return out
