"""C09 project generator: Fortran projects whose *shape* varies (which entity kinds exist and how
many: one file or many, no modules, only a program, block data, namelists, abstract interfaces,
submodules, extra file types, static pages at several depths), with docstrings full of [[...]]
references between all kinds of entities, plus an option combination.

spec = {"shape": {...counts...}, "options": {...}, "pages": bool}
render(spec) -> {relative path: text}   (sources under src/, pages under pages/, media under media/)
"""

OPTION_SPACE = {
    "incl_src": ["true", "false"],
    "search": ["true", "false"],
    "graph": ["true", "false"],
    "proc_internals": ["true", "false"],
    "display": [["public"], ["public", "protected"], ["public", "private", "protected"], ["private"], ["none"]],
    "sort": ["src", "alpha", "permission", "permission-alpha", "type", "type-alpha"],
    "max_frontpage_items": ["10", "1", "0"],
    "source": ["false", "true"],
}

SHAPES = [
    # name, dict of counts
    ("one-module", dict(nmod=1)),
    ("only-program", dict(nprog=1)),
    ("two-programs", dict(nprog=2)),
    ("only-procedure", dict(next=1)),
    ("only-blockdata", dict(nblock=1)),
    ("two-blockdata", dict(nblock=2, nmod=1)),
    ("module+program", dict(nmod=1, nprog=1)),
    ("submodule", dict(nmod=1, nsub=1, nprog=1)),
    ("submodules", dict(nmod=2, nsub=2)),
    ("full", dict(nmod=2, nsub=1, nprog=1, next=2, nblock=1, absint=1, namelist=1, types=2)),
    ("full-many", dict(nmod=3, nsub=2, nprog=2, next=2, nblock=2, absint=1, namelist=1, types=2, extra=1)),
    ("types-only", dict(nmod=1, types=2, noprocs=1)),
    ("no-modules", dict(nprog=1, next=2, nblock=1)),
    ("extra-file", dict(nmod=1, extra=1)),
    ("extra-file-program", dict(nprog=1, extra=1)),
    ("namelist-only-prog", dict(nprog=1, namelist=1)),
    ("absint", dict(nmod=1, absint=1)),
    # hub-shaped: module m0 is used by six others, procedure hubp is called by six others, type hub_t is
    # extended by six others, file m0.f90 is depended on by six files (some neighbours private)
    ("hub", dict(nmod=7, hub=1, nprog=1, types=1)),
    ("hub-hidden", dict(nmod=7, hub=2, types=1)),
]
HUB_OPTIONS = {"graph_maxnodes": ["4", "2", "3", "100"], "graph_maxdepth": ["1", "2", "10000"]}


def gen_spec(rng, force_shape=None, force_options=None):
    name, shape = force_shape if force_shape else rng.choice(SHAPES)
    shape = dict(shape)
    shape.setdefault("types", rng.choice([0, 1, 2]) if shape.get("nmod") else 0)
    shape["onefile"] = rng.random() < 0.45
    shape["subdirs"] = rng.random() < 0.3
    shape["links"] = rng.random() < 0.85
    shape["private_default"] = rng.random() < 0.3
    opts = {k: rng.choice(v) for k, v in OPTION_SPACE.items()}
    if rng.random() < 0.5:          # most runs keep the defaults for the rarely interesting knobs
        opts["max_frontpage_items"] = "10"
        opts["source"] = "false"
    if rng.random() < 0.4:
        opts["display"] = ["public", "protected"]
    opts.update(force_options or {})
    if shape.get("hub"):
        shape["onefile"] = False
        opts["graph"] = "true"
        for k, v in HUB_OPTIONS.items():
            opts[k] = rng.choice(v)
        if shape["hub"] == 2:
            opts["display"] = rng.choice([["public"], ["public", "protected"]])
        opts.update(force_options or {})
    elif rng.random() < 0.25:
        opts["graph_maxnodes"] = rng.choice(["2", "4"])
        opts["graph_maxdepth"] = rng.choice(["1", "2"])
    pages = rng.choice([None, None, "flat", "nested"])
    return {"name": name, "shape": shape, "options": opts, "pages": pages,
            "media": pages is not None and rng.random() < 0.5}


# --------------------------------------------------------------------------------- rendering

class Names:
    """what exists, for writing [[...]] references"""

    def __init__(self):
        self.refs = []

    def add(self, ref):
        self.refs.append(ref)


def _doc(ind, uid, refs, k=2, mark="!!"):
    """doc lines with tracer word and up to k [[refs]]"""
    lines = [f"{ind}{mark} zq{uid}w"]
    for r in refs[:k]:
        lines.append(f"{ind}{mark} see [[{r}]] here")
    return lines


class Renderer:
    def __init__(self, spec, rng):
        self.spec, self.rng = spec, rng
        self.uid = 0
        self.refs = []          # every [[ref]] string that names an existing entity
        self.units = []         # (kind, name, lines)

    def u(self):
        self.uid += 1
        return self.uid

    def pick(self, k=2):
        if not self.spec["shape"].get("links") or not self.refs:
            return []
        return [self.rng.choice(self.refs) for _ in range(k)]

    def module(self, i, nmods):
        sh = self.spec["shape"]
        name = f"m{i}"
        L = [f"module {name}"]
        L += _doc("  ", self.u(), self.pick())
        hub = sh.get("hub", 0)
        if i > 0:
            L.append("  use m0" if hub else f"  use m{i - 1}")
        L.append("  implicit none")
        L.append("  private" if sh.get("private_default") else "  public")
        ntypes = sh.get("types", 0)
        procs = [] if sh.get("noprocs") else [f"p{i}_{j}" for j in range(self.rng.choice([1, 2, 3]))]
        # explicit accessibility of the module procedures: a private one may be the target of a binding
        proc_perm = {p: self.rng.choice([None, None, "public", "private"]) for p in procs}
        for p, pm in proc_perm.items():
            if pm:
                L.append(f"  {pm} :: {p}")
        for t in range(ntypes):
            tn = f"t{i}_{t}_t"
            ext = f", extends(t{i}_{t - 1}_t)" if t > 0 and self.rng.random() < 0.6 else ""
            perm = self.rng.choice(["", ", public", ", private"])
            L.append(f"  type{perm}{ext} :: {tn}")
            L += _doc("    ", self.u(), self.pick())
            if procs and sh.get("links"):
                # from the type's own docstring a binding and its (possibly private) target are in scope
                L.append(f"    !! binding [[b{t}]] bound to [[b{t}:{procs[0]}]]")
            L.append(f"    integer :: c{t}a = 0")
            L += _doc("      ", self.u(), self.pick(1))
            if t > 0:
                L.append(f"    type(t{i}_{t - 1}_t), pointer :: prev => null()")
                L += _doc("      ", self.u(), self.pick(1))
            if procs:
                L.append("  contains")
                L.append(f"    procedure, nopass :: b{t} => {procs[0]}")
                if self.rng.random() < 0.6:
                    # the summary's FIRST link is not a path: a fragment of the page it is shown on, a mail address
                    first = self.rng.choice(["[top](#text)", "[mail](mailto:someone@example.org)", "[top](#text) [mail](mailto:x@example.org)"])
                    L.append(f"      !! {first} zq{self.u()}w")
                L += _doc("      ", self.u(), self.pick(1))
                if len(procs) > 1:
                    L.append(f"    procedure, nopass :: b{t}x => {procs[1]}")
                    L.append(f"    generic :: gen{t} => b{t}, b{t}x")
                    L += _doc("      ", self.u(), self.pick(1))
                if t == 0:
                    L.append(f"    final :: fin{i}")
                    L += _doc("      ", self.u(), self.pick(1))
            L.append(f"  end type {tn}")
            self.refs += [tn, f"{tn}(type)", f"{tn}:c{t}a", f"{name}:{tn}"]
            if procs:
                # binding, and binding:target (the target is found among the binding's children)
                self.refs += [f"{tn}:b{t}", f"b{t}:{procs[0]}"]
            if t == 0 and procs and self.rng.random() < 0.6:
                # a constructor: generic interface with the name of the type
                L += [f"  interface {tn}", f"    module procedure mk{i}", "  end interface"]
                self._constructor = (i, tn)
        if sh.get("absint") and i == 0:
            L += ["  abstract interface", f"    subroutine absint{i}(x)"]
            L += _doc("      ", self.u(), self.pick())
            L += ["      integer, intent(in) :: x", "      !! zqarg", f"    end subroutine absint{i}",
                  "  end interface"]
            self.refs += [f"absint{i}", f"absint{i}(interface)"]
        if len(procs) > 1:
            L.append(f"  interface gi{i}")
            L += _doc("    ", self.u(), self.pick())
            L.append(f"    module procedure {procs[0]}, {procs[1]}")
            L.append("  end interface")
            L.append(f"  public :: gi{i}")
            self.refs += [f"gi{i}"]
        subs = [k for k in range(sh.get("nsub", 0)) if k % max(nmods, 1) == i]
        if subs:
            L.append("  interface")
            for k in subs:
                L.append(f"    module subroutine sm{k}(a)")
                L += _doc("      ", self.u(), self.pick())
                L += ["      integer, intent(inout) :: a", f"    end subroutine sm{k}"]
                L.append(f"    module function sf{k}(a) result(r)")
                L += _doc("      ", self.u(), self.pick(1))
                L += ["      integer, intent(in) :: a", "      integer :: r", f"    end function sf{k}"]
            L.append("  end interface")
        for v in range(self.rng.choice([1, 2])):
            perm = self.rng.choice(["", ", public", ", private", ", protected"])
            L.append(f"  integer{perm} :: v{i}_{v} = {v}")
            L += _doc("    ", self.u(), self.pick(1))
            self.refs += [f"{name}:v{i}_{v}"]
        if ntypes:
            L.append(f"  type(t{i}_0_t), public :: tv{i}")
            L += _doc("    ", self.u(), self.pick(1))
        if self.rng.random() < 0.5:
            L += ["  enum, bind(c)", f"    enumerator :: red{i} = 1, blue{i}"]
            L += _doc("      ", self.u(), self.pick(1))
            L.append("  end enum")
        if self.rng.random() < 0.4:
            L += [f"  integer :: cm{i}a, cm{i}b", f"  common /blk{i}/ cm{i}a, cm{i}b"]
            L += _doc("    ", self.u(), self.pick(1))
        hidden = hub == 2 and i % 2 == 1           # private neighbours of the hub
        if hub and i == 0:
            L += ["  type, public :: hub_t", f"    !! zq{self.u()}w hub type", "    integer :: hv = 0", "  end type hub_t",
                  "  public :: hubp, hubcaller"]
            # the hub also *calls* six procedures and *contains* six derived types, every other one private
            for j in range(1, 7):
                vis = "private" if (hub == 2 and j % 2 == 1) else "public"
                L += [f"  {vis} :: hp{j}", f"  type, {vis} :: hk{j}_t", f"    integer :: hz{j} = 0", f"  end type hk{j}_t"]
            L += ["  type, public :: hubholder_t", f"    !! zq{self.u()}w holds six types"]
            L += [f"    type(hk{j}_t) :: hc{j}" for j in range(1, 7)]
            L += ["  end type hubholder_t"]
            self.refs += ["hub_t", "hubp", "hubcaller", "hubholder_t"]
        if hub and i > 0:
            L += [f"  type, {'private' if hidden else 'public'}, extends(hub_t) :: ht{i}_t", f"    !! zq{self.u()}w",
                  f"    integer :: hx{i} = 0", f"  end type ht{i}_t",
                  f"  {'private' if hidden else 'public'} :: hc{i}"]
        if procs or ntypes or hub:
            L.append("contains")
        for j, p in enumerate(procs):
            L += self.proc(p, "  ", calls=[q for q in procs if q != p][:1],
                           typ=f"t{i}_0_t" if ntypes else None,
                           namelist=bool(sh.get("namelist")) and j == 0,
                           perm=self.rng.choice([None, None, "public", "private"]), module=name)
            self.refs += [p, f"{p}(proc)", f"{name}:{p}"]
        if getattr(self, "_constructor", (None,))[0] == i:
            tn = self._constructor[1]
            L += [f"  function mk{i}(n) result(s)", f"    !! zq{self.u()}w constructor", "    integer, intent(in) :: n",
                  f"    type({tn}) :: s", f"    s%c0a = n", f"  end function mk{i}"]
        if hub and i == 0:
            L += ["  subroutine hubp(a)", f"    !! zq{self.u()}w the hub procedure", "    integer, intent(in) :: a",
                  "    integer :: hl", "    hl = a", "  end subroutine hubp"]
            L += ["  subroutine hubcaller(a)", f"    !! zq{self.u()}w calls six procedures", "    integer, intent(in) :: a"]
            L += [f"    call hp{j}(a)" for j in range(1, 7)]
            L += ["  end subroutine hubcaller"]
            for j in range(1, 7):
                L += [f"  subroutine hp{j}(a)", f"    !! zq{self.u()}w", "    integer, intent(in) :: a",
                      "    integer :: hq", "    hq = a", f"  end subroutine hp{j}"]
        if hub and i > 0:
            L += [f"  subroutine hc{i}(a)", f"    !! zq{self.u()}w calls the hub", "    integer, intent(in) :: a",
                  "    call hubp(a)", f"  end subroutine hc{i}"]
        if ntypes:
            L += [f"  subroutine fin{i}(self)", f"    type(t{i}_0_t), intent(inout) :: self",
                  f"    self%c0a = 0", f"  end subroutine fin{i}"]
        L.append(f"end module {name}")
        self.refs += [name, f"{name}(module)"]
        return name, L

    def proc(self, name, ind, calls=(), typ=None, namelist=False, perm=None, module=None, internal=True):
        fn = self.rng.random() < 0.4
        L = []
        dummy = self.rng.random() < 0.3          # a dummy procedure declared through an interface block
        arglist = "a, fdum" if dummy else "a"
        if fn:
            L.append(f"{ind}function {name}({arglist}) result(r)")
        else:
            L.append(f"{ind}subroutine {name}({arglist})")
        i2 = ind + "  "
        local_type = internal and self.rng.random() < 0.5
        if local_type and self.rng.random() < 0.4:
            # per-procedure metadata: this procedure shows its internals whatever the project says
            L.append(f"{i2}!! proc_internals: true")
        L += _doc(i2, self.u(), self.pick())
        L.append(f"{i2}integer, intent(in) :: a")
        L += _doc(i2 + "  ", self.u(), self.pick(1))
        if fn:
            if typ and self.rng.random() < 0.5:
                L.append(f"{i2}type({typ}) :: r")
            else:
                L.append(f"{i2}integer :: r")
            L += _doc(i2 + "  ", self.u(), self.pick(1))
        if typ:
            L.append(f"{i2}type({typ}) :: loc")
            L += _doc(i2 + "  ", self.u(), self.pick(1))
        if dummy:
            L += [f"{i2}interface", f"{i2}  function fdum(y) result(w)", f"{i2}    !! zq{self.u()}w dummy procedure",
                  f"{i2}    integer, intent(in) :: y", f"{i2}    integer :: w", f"{i2}  end function fdum",
                  f"{i2}end interface"]
        L.append(f"{i2}integer :: nlv")
        if namelist:
            L.append(f"{i2}namelist /nl_{name}/ nlv")
            L += _doc(i2 + "  ", self.u(), self.pick(1))
            self.refs += [f"nl_{name}(namelist)"]
        if local_type:
            # a derived type declared inside the procedure; every other one has a CONTAINS part with
            # bindings to procedures of the host module and a generic binding
            L += [f"{i2}type :: inner_{name}_t"]
            if self.rng.random() < 0.5:
                L += [f"{i2}  !! summary: brief zq{self.u()}w"]
            L += [f"{i2}  !! zq{self.u()}w long description"]
            L += [f"{i2}  !! see [[{r}]] here" for r in self.pick(1)]
            L += [f"{i2}  integer :: z"]
            targets = [c for c in calls] or ([name] if module else [])
            if targets and self.rng.random() < 0.7:
                L += [f"{i2}contains", f"{i2}  procedure, nopass :: add => {targets[0]}", f"{i2}    !! zq{self.u()}w"]
                L += [f"{i2}  procedure, nopass :: add2 => {targets[-1] if len(targets) > 1 else name}"]
                L += [f"{i2}  generic :: update => add, add2", f"{i2}    !! zq{self.u()}w"]
            L += [f"{i2}end type inner_{name}_t"]
        L.append(f"{i2}nlv = a")
        for c in calls:
            L.append(f"{i2}nlv = nlv + 1")
        if fn and not (typ and "type(" in "".join(L[-8:])):
            L.append(f"{i2}r = nlv")
        if internal and self.rng.random() < 0.5:
            L.append(f"{ind}contains")
            L.append(f"{i2}subroutine in_{name}()")
            L += _doc(i2 + "  ", self.u(), self.pick())
            L.append(f"{i2}  integer :: q")
            L += _doc(i2 + "    ", self.u(), self.pick(1))
            L.append(f"{i2}end subroutine in_{name}")
        L.append(f"{ind}end {'function' if fn else 'subroutine'} {name}")
        if perm and module:
            pass
        return L

    def submodule(self, k, nmods):
        i = k % max(nmods, 1)
        name = f"sub{k}"
        parent = f"m{i}"
        L = [f"submodule ({parent}) {name}"]
        L += _doc("  ", self.u(), self.pick())
        L += ["  implicit none", "contains"]
        L += [f"  module subroutine sm{k}(a)"]
        L += _doc("    ", self.u(), self.pick())
        L += ["    integer, intent(inout) :: a", "    a = a + 1", f"  end subroutine sm{k}"]
        L += [f"  module procedure sf{k}"]
        L += _doc("    ", self.u(), self.pick(1))
        L += ["    r = a", f"  end procedure sf{k}"]
        L.append(f"end submodule {name}")
        self.refs += [name, f"{name}(submodule)"]
        return name, L

    def program(self, i, nmods):
        sh = self.spec["shape"]
        name = f"prog{i}"
        L = [f"program {name}"]
        L += _doc("  ", self.u(), self.pick())
        if nmods:
            L.append(f"  use m{nmods - 1}")
        L.append("  implicit none")
        L.append("  integer :: pv")
        L += _doc("    ", self.u(), self.pick(1))
        if sh.get("namelist") and not nmods:
            L.append(f"  namelist /nl_{name}/ pv")
            L += _doc("    ", self.u(), self.pick(1))
        L.append("  pv = 1")
        if self.rng.random() < 0.6:
            L.append("contains")
            L += self.proc(f"pin{i}", "  ", internal=False)
        L.append(f"end program {name}")
        self.refs += [name, f"{name}(program)"]
        return name, L

    def blockdata(self, i):
        name = f"bd{i}"
        L = [f"block data {name}"]
        L += _doc("  ", self.u(), self.pick())
        L += [f"  integer :: bq{i}", f"  common /bblk{i}/ bq{i}"]
        L += _doc("    ", self.u(), self.pick(1))
        L += [f"  data bq{i} /1/", f"end block data {name}"]
        self.refs += [f"{name}(block)"]
        return name, L

    def render(self):
        sh = self.spec["shape"]
        nmods = sh.get("nmod", 0)
        units = []
        for i in range(nmods):
            units.append(self.module(i, nmods))
        for k in range(sh.get("nsub", 0)):
            units.append(self.submodule(k, nmods))
        for i in range(sh.get("next", 0)):
            n = f"ext{i}"
            units.append((n, self.proc(n, "", namelist=bool(sh.get("namelist")) and not nmods and i == 0)))
            self.refs += [n, f"{n}(proc)"]
        for i in range(sh.get("nblock", 0)):
            units.append(self.blockdata(i))
        for i in range(sh.get("nprog", 0)):
            units.append(self.program(i, nmods))
        files = {}
        if sh.get("onefile"):
            files["src/all.f90"] = "\n".join("\n".join(L) + "\n" for _, L in units)
            self.refs.append("all.f90")
        else:
            for k, (n, L) in enumerate(units):
                d = "src/sub" if sh.get("subdirs") and k % 2 else "src"
                files[f"{d}/{n}.f90"] = "\n".join(L) + "\n"
                self.refs.append(f"{n}.f90")
        for i in range(sh.get("extra", 0)):
            files[f"src/extra{i}.inc"] = f"#! zq{self.u()}w extra file doc\nx = {i}\n"
        # static pages
        pg = self.spec.get("pages")
        if pg:
            refs = self.pick(3) if self.refs else []
            def page(title, depth_note, extra=""):
                body = [f"title: {title}", "", f"Static page {title} zq{self.u()}w {depth_note}", ""]
                for r in refs:
                    body.append(f"Ref [[{r}]].")
                body.append("")
                body.append("[home](|url|/index.html) [top page](|page|/index.html)")
                if self.spec.get("media"):
                    body.append("")
                    body.append("![pic](|media|/pic.png)")
                body.append(extra)
                return "\n".join(body) + "\n"
            files["pages/index.md"] = page("Top", "d1", "[sib](./second.html)")
            files["pages/second.md"] = page("Second", "d1", "[back](./index.html)")
            if pg == "nested":
                files["pages/sub/index.md"] = page("Sub", "d2", "[up](../index.html) [deep](deep/index.html)")
                files["pages/sub/other.md"] = page("Other", "d2", "[up](../second.html)")
                files["pages/sub/deep/index.md"] = page("Deep", "d3", "[up](../../index.html)")
                files["pages/sub/data.txt"] = "plain file\n"
            if self.spec.get("media"):
                files["media/pic.png"] = "not really a png\n"
        return files


def render(spec, rng):
    return Renderer(spec, rng).render()


def project_options(spec):
    o = dict(spec["options"])
    o["display"] = list(o["display"])
    if spec["shape"].get("extra"):
        o["extra_filetypes"] = "inc #!"
    if spec.get("pages"):
        o["page_dir"] = "./pages"
    if spec.get("media"):
        o["media_dir"] = "./media"
    return o


def front_matter_body(spec, refs):
    lines = ["Project docs zqfrontw."]
    for r in refs:
        lines.append(f"Front ref [[{r}]].")
    lines.append("[self](|url|/index.html)")
    if spec.get("pages"):
        lines.append("[pg](|page|/index.html)")
    return "\n\n".join(lines) + "\n"
