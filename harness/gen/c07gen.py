"""C07 — abstract programs that reuse names across scopes on purpose, their rendering as Fortran text, and
their projection onto the Coq model's input (Sem/Scope.v: one event list per top-level unit).

scope = {"name", "kind": module|program|subroutine|ifbody|absbody, "uses": [{"target", "only": None|[[local, remote]]}],
         "vars": [var], "args": [var], "types": [dtype], "generics": [{"name", "modprocs": [names]}],
         "procs": [scope], "ifbodies": [scope], "absints": [scope], "private": [names]}
var   = {"name", "ref": None | {"what": "type"|"proc", "id": name}, "pointer": bool}
dtype = {"name", "extends": None|name, "comps": [var], "binds": [{"name", "deferred", "proto", "targets"}], "finals": [names]}
A program is {"units": [scope], "submodules": [{"name", "ancestor", "parent", + optionally the fields of a scope}]}.
"""

import re

VARNAME = re.compile(r"^[vac]\d+$")       # procedure pointers of modules are entries of all_procs too
TYPE_NAMES = ["t", "u", "node"]
PROC_NAMES = ["helper", "init", "work"]
ABS_NAMES = ["cb", "op"]
UNDECLARED = {"type": ["nosuch_t", "ghost"], "proc": ["nosuch_p", "phantom"]}
# Names under which FORD always has a link object (ford.settings.INTRINSIC_MODS) and the `extra_mods`
# option every run of this property sets: a USE statement must still bind to the project's module
INTRINSIC_NAMES = ["iso_fortran_env", "iso_c_binding", "ieee_arithmetic", "ieee_exceptions", "ieee_features",
                   "openacc", "omp_lib", "mpi", "mpi_f08"]
EXTRA_MODS = {"extlib": "https://example.org/extlib", "netcdf": "https://example.org/netcdf.html"}
SPECIAL_NAMES = INTRINSIC_NAMES + sorted(EXTRA_MODS)


def spell(rng, n, p=0.15):
    if rng.random() < p:
        return n.upper() if rng.random() < 0.5 else n.capitalize()
    return n


# ----------------------------------------------------------------------------- visibility (generator side)
def exports(units, name, memo=None):
    """{cls: {local name: path}} a module exports: own non-private entities and what it imports
    (modules are default public).  Generator-side; also used for the projection's s_imports."""
    memo = {} if memo is None else memo
    key = name.lower()
    if key in memo:
        return memo[key]
    memo[key] = {"CProc": {}, "CAbs": {}, "CType": {}}
    u = next((x for x in units if x["name"].lower() == key and x["kind"] == "module"), None)
    if u is None:
        return memo[key]
    out = {"CProc": {}, "CAbs": {}, "CType": {}}
    priv = {n.lower() for n in u.get("private", [])}
    for c, names in own_names(u).items():
        for n in names:
            if n not in priv:
                out[c][n] = [key, n]
    for c, pairs in imports_of(units, u, memo).items():
        for n, path in pairs:
            out[c][n] = path          # pub_<c>.update(...): an import replaces an own entry of that name
    memo[key] = out
    return out


def imports_of(units, s, memo=None):
    """{cls: [(local name, path)]} in merge order (USE statement order, table order)"""
    res = {"CProc": [], "CAbs": [], "CType": []}
    for us in s["uses"]:
        ex = exports(units, us["target"], memo)
        for c in res:
            if us["only"] is None:
                # everything but the renamed names, then the renames (get_used_entities)
                ren = {r.lower(): l.lower() for l, r in us.get("renames", [])}
                res[c] += [(n, p) for n, p in ex[c].items() if n not in ren]
                res[c] += [(l.lower(), ex[c][r.lower()]) for l, r in us.get("renames", []) if r.lower() in ex[c]]
            else:
                # get_used_entities: iterate the module's table, keep the names of the only-list
                res[c] += [(l.lower(), ex[c][r.lower()]) for l, r in us["only"] if r.lower() in ex[c]]
    return res


def sub_scope(sm):
    """a submodule entry as a full scope (bodyless entries get empty lists)"""
    s = new_scope(sm["name"], "submodule")
    s.update(sm)
    s["kind"] = "submodule"
    return s


def host_chain(prog, sm):
    """the units whose dictionaries a submodule inherits, outermost first: FORD takes the parent
    submodule when the SUBMODULE statement names one (and it is found), else the ancestor module"""
    chain = []
    cur = sm
    for _ in range(10):
        host = None
        if cur.get("parent"):
            host = next((sub_scope(x) for x in prog["submodules"] if x["name"].lower() == cur["parent"].lower()), None)
        if host is None and not cur.get("parent"):
            host = next((u for u in prog["units"] if u["kind"] == "module" and u["name"].lower() == cur["ancestor"].lower()), None)
        if host is None:
            break
        chain.insert(0, host)
        if host["kind"] != "submodule":
            break
        cur = host
    return chain


def all_scopes(s):
    yield s
    for c in s["procs"] + s["ifbodies"] + s["absints"]:
        yield from all_scopes(c)


def own_names(s):
    """keys of the scope's own dictionaries in FORD's insertion order"""
    procs = [p["name"].lower() for p in s["procs"]]
    # interfaces in source order: generics and interface bodies are rendered generics first
    procs += [g["name"].lower() for g in s["generics"]] + [b["name"].lower() for b in s["ifbodies"]]
    if s["kind"] == "module":
        procs += [v["name"].lower() for v in s["vars"] if v["ref"] and v["ref"]["what"] == "proc"]
    return {"CProc": procs, "CAbs": [a["name"].lower() for a in s["absints"]],
            "CType": [t["name"].lower() for t in s["types"]]}


# ----------------------------------------------------------------------------- generation
def _new_scope_doc():
    """see new_scope"""


def new_scope(name, kind):
    return {"name": name, "kind": kind, "uses": [], "vars": [], "args": [], "types": [], "generics": [],
            "procs": [], "ifbodies": [], "absints": [], "private": []}


class Gen:
    def __init__(self, rng, knobs=None):
        self.rng = rng
        self.knobs = dict(knobs or {})
        self.counter = 0
        # how often names are reused / invisible names referenced: some programs are mostly clean
        self.p_reuse = self.knobs.get("p_reuse", rng.choice([0.0, 0.1, 0.6, 0.6]))
        self.p_invisible = self.knobs.get("p_invisible", 0.25 if self.p_reuse > 0.3 else rng.choice([0.0, 0.05]))

    def fresh(self, prefix):
        self.counter += 1
        return f"{prefix}{self.counter}"

    def pick(self, pool, p_reuse):
        """a name from the small shared pool (deliberate reuse) or a fresh one"""
        rng = self.rng
        if rng.random() < p_reuse:
            return spell(rng, rng.choice(pool))
        return self.fresh(pool[0][0] + "x")

    def visible(self, units, chain, cls):
        """names of class cls FORD or Fortran could see from the innermost scope of chain (generator-side)"""
        if cls == "CProc":
            # procedures and abstract interfaces are identifiers of one kind: the innermost scope that has
            # the name in either role decides
            seen = {}
            for s in chain:
                for n in own_names(s)["CAbs"] + [n for n, _ in imports_of(units, s)["CAbs"]]:
                    seen[n] = False
                for n in own_names(s)["CProc"] + [n for n, _ in imports_of(units, s)["CProc"]]:
                    seen[n] = True
            return sorted(n for n, is_proc in seen.items() if is_proc)
        out = []
        for s in chain:
            out += own_names(s)[cls]
            out += [n for n, _ in imports_of(units, s)[cls]]
        return sorted(set(out))

    def anywhere(self, units, root, cls):
        out = []

        def walk(s):
            out.extend(own_names(s)[cls])
            for c in s["procs"] + s["ifbodies"] + s["absints"]:
                walk(c)
        walk(root)
        return sorted(set(out))

    def ref(self, units, root, chain, what):
        """a reference: mostly to a visible name, sometimes to a name declared only in another scope of
        the same unit (sibling / child), sometimes to a name declared nowhere"""
        rng = self.rng
        cls = "CType" if what == "type" else rng.choice(["CProc", "CAbs"])
        r = rng.random()
        vis = self.visible(units, chain, cls)
        if what == "proc" and not vis:
            vis = self.visible(units, chain, "CProc") + self.visible(units, chain, "CAbs")
        if r < 0.6 and vis:
            n = rng.choice(vis)
        elif r < 0.6 + self.p_invisible:
            pool = self.anywhere(units, root, cls) or vis
            n = rng.choice(pool) if pool else rng.choice(UNDECLARED[what])
        else:
            n = rng.choice(UNDECLARED[what])
        return {"what": what, "id": spell(rng, n)}

    def gen_vars(self, units, root, chain, k, prefix, body=False):
        vs = []
        for _ in range(k):
            what = self.rng.choice(["type", "type", "proc", None])
            name = self.fresh(prefix)
            vs.append({"name": name, "ref": self.ref(units, root, chain, what) if what else None,
                       "pointer": not body})
        return vs

    def gen_type(self, units, root, chain, name):
        rng = self.rng
        s = chain[-1]
        t = {"name": name, "extends": None, "comps": [], "binds": [], "finals": []}
        if rng.random() < 0.5:
            # not a type declared at or after this one in the same scope (no extension cycles)
            later = [x["name"].lower() for x in s["types"][[x["name"] for x in s["types"]].index(name):]]
            ext = self.ref(units, root, chain, "type")["id"]
            if ext.lower() not in later:
                t["extends"] = ext
        t["comps"] = self.gen_vars(units, root, chain, rng.randint(0, 2), "c")
        generic_names = {g["name"].lower() for x in units + [root] for sc_ in all_scopes(x) for g in sc_["generics"]}
        procs_here = [n for n in self.visible(units, chain, "CProc") if n not in generic_names]
        if s["kind"] == "module" and procs_here:
            for _ in range(rng.randint(0, 2)):
                b = {"name": self.fresh("b"), "deferred": False, "proto": None, "targets": []}
                r = rng.random()
                if r < 0.3:
                    b["deferred"] = True
                    b["proto"] = self.ref(units, root, chain, "proc")["id"]
                    if b["proto"].lower() in generic_names:
                        b["proto"] = rng.choice(UNDECLARED["proc"])
                else:
                    pool = procs_here if rng.random() < 0.8 else (
                        [n for n in (self.anywhere(units, root, "CProc") if self.p_invisible else []) if n not in generic_names]
                        + UNDECLARED["proc"])
                    b["targets"] = [spell(rng, rng.choice(pool))]
                t["binds"].append(b)
            own_routines = [p["name"] for p in s["procs"]]
            if own_routines and rng.random() < 0.3:
                t["finals"] = [spell(rng, rng.choice(own_routines))]
        return t

    def gen_scope(self, units, root, chain, depth):
        """fill the innermost scope of chain (already appended to its host's lists)"""
        rng = self.rng
        s = chain[-1]
        k = self.knobs
        mods = [u for u in units if u["kind"] == "module" and u is not root]
        # (USE statements in abstract interface bodies are ignored by FORD: a C06 finding)
        if mods and s["kind"] != "absbody" and rng.random() < (0.6 if depth == 0 else 0.25):
            m = rng.choice(mods)
            ex = exports(units, m["name"])
            names = sorted({n for c in ex.values() for n in c})
            only, renames = None, []
            r = rng.random()
            generic_names = {g["name"].lower() for x in units + [root] for sc_ in all_scopes(x) for g in sc_["generics"]}
            # (procedure pointers of modules keep their v<k> names and generics theirs: the generator
            # tells them from procedures by the name)
            plain = [n for n in names if not VARNAME.match(n) and n not in generic_names]
            if names and r < 0.4:
                only = [[n, n] for n in rng.sample(names, min(len(names), rng.randint(1, 2)))]
                if rng.random() < 0.3 and only[0][1] in plain:
                    only[0][0] = self.fresh("rn")          # only: local => remote
            elif r < 0.5 and plain:
                renames = [[self.fresh("rn"), rng.choice(plain)]]   # use m, local => remote
            s["uses"].append({"target": spell(rng, m["name"]), "only": only, "renames": renames,
                              "prefix": rng.choice(["", "", "::", "non_intrinsic"])})
        if s["kind"] != "absbody" and rng.random() < 0.12:
            # an intrinsic module (no project module bears that name: see program())
            n = rng.choice(["iso_fortran_env", "iso_c_binding"])
            if not any(u["name"].lower() == n for u in units + [root]):
                s["uses"].append({"target": n, "only": None, "renames": [],
                                  "prefix": rng.choice(["intrinsic", "intrinsic", ""])})
        body = s["kind"] in ("ifbody", "absbody")
        # declarations first (so that references can pick them), then references
        if not body:
            for _ in range(rng.randint(0, 2)):
                n = self.pick(TYPE_NAMES, self.p_reuse)
                if n.lower() not in own_names(s)["CType"]:
                    s["types"].append({"name": n, "extends": None, "comps": [], "binds": [], "finals": []})
            for _ in range(rng.randint(0, 1 if depth else 2)):
                # sometimes the name of a procedure of another scope (an inner abstract interface hides it)
                n = self.pick(PROC_NAMES if (self.p_reuse > 0.3 and rng.random() < 0.25) else ABS_NAMES, self.p_reuse)
                if n.lower() not in own_names(s)["CAbs"] + own_names(s)["CProc"]:
                    s["absints"].append(new_scope(n, "absbody"))
            if depth < 2:
                for _ in range(rng.randint(0, 2 if depth == 0 else 1)):
                    n = self.pick(PROC_NAMES, self.p_reuse)
                    if n.lower() not in own_names(s)["CProc"] + own_names(s)["CAbs"] and n.lower() != s["name"].lower():
                        s["procs"].append(new_scope(n, "subroutine"))
            if rng.random() < 0.3:
                n = self.fresh("ext")
                s["ifbodies"].append(new_scope(n, "ifbody"))
        # nested scopes
        for c in s["procs"] + s["ifbodies"] + s["absints"]:
            self.gen_scope(units, root, chain + [c], depth + 1)
        # derived types in full, generics, variables
        if not body:
            s["types"] = [self.gen_type(units, root, chain, t["name"]) for t in s["types"]]
            routines = [p["name"] for p in s["procs"]]
            if routines and rng.random() < 0.4:
                gname = self.pick(TYPE_NAMES + ["gen"], min(0.4, self.p_reuse + 0.1))
                if gname.lower() not in own_names(s)["CProc"] + own_names(s)["CAbs"]:
                    pool = routines + ([n for n in self.visible(units, chain, "CProc") if not VARNAME.match(n)]
                                       if rng.random() < 0.3 else [])
                    s["generics"].append({"name": gname, "modprocs": [spell(rng, rng.choice(pool))]})
        nv = rng.randint(1, 3)
        if body:
            s["args"] = self.gen_vars(units, root, chain, rng.randint(0, 2), "a", body=True)
        else:
            s["vars"] = self.gen_vars(units, root, chain, nv, "v")
            if s["kind"] == "subroutine" and rng.random() < 0.4:
                s["args"] = self.gen_vars(units, root, chain, 1, "a", body=True)

    def program(self):
        rng = self.rng
        units = []
        nmod = rng.choice([1, 2, 2, 3])
        for i in range(nmod):
            name = "m" + "abc"[i]
            if rng.random() < self.knobs.get("p_special", 0.3):
                # a project module named like an intrinsic module or like an extra_mods entry;
                # iso_fortran_env / iso_c_binding only for the last module, which nothing later
                # designates with `use, intrinsic ::`
                pool = [n for n in SPECIAL_NAMES if n not in [x["name"].lower() for x in units]
                        and n not in ("iso_fortran_env", "iso_c_binding")]
                name = rng.choice(pool)
            u = new_scope(spell(rng, name, 0.3), "module")
            units.append(u)
            self.gen_scope(units, u, [u], 0)
            if rng.random() < 0.3:
                pool = own_names(u)["CType"] + own_names(u)["CProc"]
                # a PRIVATE statement reaches only the first entity of a name shared by a type and
                # its constructor interface (C04): do not pick such a name
                pool = [n for n in pool if pool.count(n) == 1]
                if pool:
                    u["private"] = [rng.choice(pool)]
        if rng.random() < 0.6:
            u = new_scope(rng.choice(PROC_NAMES + ["ext_helper"]), "subroutine")     # external procedure
            if u["name"] not in [x["name"] for x in units]:
                units.append(u)
                self.gen_scope(units, u, [u], 0)
        if rng.random() < 0.25:
            # a block data unit: FortranBlockData.correlate builds its dictionaries from scratch
            u = new_scope("bdata", "blockdata")
            units.append(u)
            mods = [x for x in units if x["kind"] == "module"]
            if mods and rng.random() < 0.7:
                u["uses"].append({"target": spell(rng, rng.choice(mods)["name"]), "only": None, "renames": [],
                                  "prefix": rng.choice(["", "::", "non_intrinsic"])})
            if rng.random() < 0.5 and not any(x["name"].lower() in ("iso_fortran_env", "iso_c_binding") for x in units):
                # (FortranBlockData needs its own intrinsic_uses for this statement)
                u["uses"].insert(0, {"target": rng.choice(["iso_fortran_env", "iso_c_binding"]), "only": None,
                                     "renames": [], "prefix": rng.choice(["intrinsic", "intrinsic", ""])})
            for _ in range(rng.randint(0, 2)):
                n = self.pick(TYPE_NAMES, self.p_reuse)
                if n.lower() not in own_names(u)["CType"]:
                    u["types"].append({"name": n, "extends": None, "comps": [], "binds": [], "finals": []})
            u["types"] = [self.gen_type(units, u, [u], t["name"]) for t in u["types"]]
            u["vars"] = [v for v in self.gen_vars(units, u, [u], rng.randint(1, 3), "v")
                         if not (v["ref"] and v["ref"]["what"] == "proc")]
        if rng.random() < 0.7:
            u = new_scope("main", "program")
            units.append(u)
            self.gen_scope(units, u, [u], 0)
        subs = []
        prog = {"units": units, "submodules": subs}
        if rng.random() < 0.45:
            mods = [x["name"] for x in units if x["kind"] == "module"]
            anc = spell(rng, rng.choice(mods + mods + ["nosuchmod"]))
            s1 = new_scope("sub1", "submodule")
            s1.update({"ancestor": anc, "parent": None})
            subs.append(s1)
            # a submodule whose ancestor module is not in the project stays empty: FORD drops its USE
            # dependencies from the processing order (Project.correlate `continue`s), a C06 matter
            known = bool(host_chain(prog, s1))
            if known:
                self.gen_scope(units, s1, host_chain(prog, s1) + [s1], 0)
            if rng.random() < 0.6:
                s2 = new_scope("sub2", "submodule")
                s2.update({"ancestor": anc, "parent": spell(rng, "sub1")})
                subs.append(s2)
                if known:
                    self.gen_scope(units, s2, host_chain(prog, s2) + [s2], 0)
        return prog


# ----------------------------------------------------------------------------- rendering
def render_var(v, ind):
    r = v["ref"]
    if r is None:
        return f"{ind}integer :: {v['name']}"
    if r["what"] == "type":
        return f"{ind}type({r['id']}) :: {v['name']}"
    return f"{ind}procedure({r['id']}){', pointer' if v.get('pointer', True) else ''} :: {v['name']}"


def render_type(t, ind):
    ext = f", extends({t['extends']})" if t["extends"] else ""
    L = [f"{ind}type{ext} :: {t['name']}"]
    L.append(f"{ind}  integer :: filler_{t['name'].lower()}")
    for c in t["comps"]:
        r = c["ref"]
        if r is None:
            L.append(f"{ind}  integer :: {c['name']}")
        elif r["what"] == "type":
            L.append(f"{ind}  type({r['id']}), pointer :: {c['name']}")
        else:
            L.append(f"{ind}  procedure({r['id']}), pointer, nopass :: {c['name']}")
    if t["binds"] or t["finals"]:
        L.append(f"{ind}contains")
        for b in t["binds"]:
            if b["deferred"]:
                L.append(f"{ind}  procedure({b['proto']}), deferred, nopass :: {b['name']}")
            else:
                L.append(f"{ind}  procedure, nopass :: {b['name']} => {', '.join(b['targets'])}")
        for f in t["finals"]:
            L.append(f"{ind}  final :: {f}")
    L.append(f"{ind}end type {t['name']}")
    return L


def render_scope(s, ind=""):
    kw = {"module": "module", "program": "program", "subroutine": "subroutine", "ifbody": "subroutine",
          "absbody": "subroutine", "blockdata": "block data", "submodule": "submodule"}[s["kind"]]
    head = f"{ind}{kw} {s['name']}"
    if kw == "submodule":
        par = f"{s['ancestor']}:{s['parent']}" if s.get("parent") else s["ancestor"]
        head = f"{ind}submodule ({par}) {s['name']}"
    if kw == "subroutine":
        head += "(" + ", ".join(a["name"] for a in s["args"]) + ")"
    L = [head]
    for us in s["uses"]:
        pre = {"": "use ", "::": "use :: ", "non_intrinsic": "use, non_intrinsic :: ",
               "intrinsic": "use, intrinsic :: "}[us.get("prefix", "")]
        line = f"{ind}  {pre}{us['target']}"
        if us.get("renames"):
            line += ", " + ", ".join(f"{l} => {r}" for l, r in us["renames"])
        if us["only"] is not None:
            line += ", only: " + ", ".join(l if l == r else f"{l} => {r}" for l, r in us["only"])
        L.append(line)
    if s["kind"] in ("ifbody", "absbody"):
        L.append(f"{ind}  import")
    if s.get("private"):
        L.append(f"{ind}  private :: " + ", ".join(s["private"]))
    for t in s["types"]:
        L += render_type(t, ind + "  ")
    for g in s["generics"]:
        L.append(f"{ind}  interface {g['name']}")
        L.append(f"{ind}    module procedure {', '.join(g['modprocs'])}")
        L.append(f"{ind}  end interface")
    for b in s["ifbodies"]:
        L.append(f"{ind}  interface")
        L += render_scope(b, ind + "    ")
        L.append(f"{ind}  end interface")
    for a in s["absints"]:
        L.append(f"{ind}  abstract interface")
        L += render_scope(a, ind + "    ")
        L.append(f"{ind}  end interface")
    for v in s["args"] + s["vars"]:
        L.append(render_var(v, ind + "  "))
    if s["procs"]:
        L.append(f"{ind}contains")
        for p in s["procs"]:
            L += render_scope(p, ind + "  ")
    L.append(f"{ind}end {kw} {s['name']}")
    return L


def render_files(prog):
    files = {}
    for i, u in enumerate(prog["units"]):
        files[f"src/f{i}_{u['name'].lower()}.f90"] = "\n".join(render_scope(u)) + "\n"
    for i, sm in enumerate(prog["submodules"]):
        files[f"src/s{i}_{sm['name'].lower()}.f90"] = "\n".join(render_scope(sub_scope(sm))) + "\n"
    return files


# ----------------------------------------------------------------------------- Coq terms
def cs(x):
    assert all(32 <= ord(c) < 127 for c in x), repr(x)
    return '(s "' + x.replace('"', '""') + '")'


def clist(items):
    return "[" + "; ".join(items) + "]"


def cpath(p):
    return clist(cs(x.lower()) for x in p)


def cvar(v):
    r = v["ref"]
    ref = "None" if r is None else f"(Some ({'TRType' if r['what'] == 'type' else 'TRProc'} {cs(r['id'].lower())}))"
    return f"V {cs(v['name'].lower())} {ref}"


def ctype(t):
    binds = clist("B %s %s %s %s" % (cs(b["name"].lower()), "true" if b["deferred"] else "false",
                                     "None" if not b["proto"] else f"(Some {cs(b['proto'].lower())})",
                                     clist(cs(x.lower()) for x in b["targets"])) for b in t["binds"])
    return "T %s %s %s %s %s" % (cs(t["name"].lower()), "None" if not t["extends"] else f"(Some {cs(t['extends'].lower())})",
                                 clist(cvar(c) for c in t["comps"]), binds, clist(cs(f.lower()) for f in t["finals"]))


def scope_events(units, s, path, host=()):
    """the events of FORD's traversal of scope s (children: functions, subroutines, interface bodies,
    abstract interface bodies)"""
    path = path + [s["name"].lower()]
    kind = {"module": "KUnit", "program": "KUnit", "blockdata": "KUnit", "submodule": "KSub",
            "subroutine": "KProc" if len(path) > 1 else "KUnit",
            "ifbody": "KBody", "absbody": "KBody"}[s["kind"]]
    on = own_names(s)
    imps = []
    for c, pairs in imports_of(units, s).items():
        imps += [f"({c}, ({cs(n)}, {cpath(p)}))" for n, p in pairs]
    rec = "Sr %s %s %s %s %s %s %s %s %s" % (
        cpath(path), kind, clist(cs(n) for n in on["CProc"]), clist(cs(n) for n in on["CAbs"]),
        clist(ctype(t) for t in s["types"]),
        clist("G %s %s" % (cs(g["name"].lower()), clist(cs(x.lower()) for x in g["modprocs"])) for g in s["generics"]),
        clist(cvar(v) for v in s["vars"] + s["args"]), clist(imps), cpath(list(host)))
    evs = [f"Enter ({rec})"]
    for c in s["procs"] + s["ifbodies"] + s["absints"]:
        evs += scope_events(units, c, path)
    evs.append("Exit")
    return evs


def coq_unit(units, u):
    return clist(scope_events(units, u, []))


def coq_submodule(prog, sm):
    """the events of the host units (outermost first), then those of the submodule"""
    chain = host_chain(prog, sm) + [sub_scope(sm)]
    evs = []
    for k, u in enumerate(chain):
        host = [chain[k - 1]["name"].lower()] if (k > 0 and u["kind"] == "submodule") else []
        evs += scope_events(prog["units"], u, [], host)
    return clist(evs)
