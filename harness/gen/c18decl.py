"""C18 generator: declarations whose source text is hostile to HTML / Markdown.

An abstract declaration records, field by field, the *source text* the reader is expected to see
(written in FORD's canonical style: `integer(kind=K)`, `character(len=L)`), so that the expected
visible text of every table cell is a piece of the source.  A project is rendered twice: as is, and
as a control in which every hostile character is replaced by the harmless letter `x` (same length).
"""
import random

HOSTILE = "<>&\"'\\*_`[]"
BACKSLASHED = ["C:\\a\\b\\c", "D:\\<x>  ", "\\\\\\", "\\\\", "\\a\\b\\c\\d\\e", "a\\\\b\\", "\\\\\\\\\\", "x\\y",
               "\\'\\", "\\\"\\\\", "\\1\\2\\g<0>"]
WORDS = ["Hello World", "MiXeD Case", "<b>x</b>", "<i>", "</td>", "a<b", "x>y", "&amp;", "&lt;", "&", "a  b", "   ", "\\", "\\n", "it's", "*x*",
         "_y_", "`c`", "[[m]]", "say \"hi\"", "<script>", "1<2", "<!--", "<u>name"]


def lit_body(rng):
    if rng.random() < 0.25:          # 0..5 backslashes, adjacent or spread, next to quotes of both kinds
        return rng.choice(BACKSLASHED) if rng.random() < 0.6 else \
            "".join(rng.choice(["\\", "\\", "a", "'", '"', " ", "<"]) for _ in range(rng.choice([1, 3, 5, 8])))
    n = rng.choice([0, 1, 1, 2, 3])
    parts = []
    for _ in range(n):
        r = rng.random()
        if r < 0.6:
            parts.append(rng.choice(WORDS))
        elif r < 0.8:
            parts.append("".join(rng.choice(HOSTILE + "ab 1") for _ in range(rng.choice([1, 2, 4]))))
        else:
            parts.append(rng.choice(["abc", "x y", "0", "1"]))
    return " ".join(parts) if rng.random() < 0.5 else "".join(parts)


def lit(rng, body=None, q=None):
    body = lit_body(rng) if body is None else body
    q = q or rng.choice("'\"")
    return q + body.replace(q, q + q) + q


def rel_expr(rng):
    """an expression without top-level comma problems that contains a relational operator"""
    return rng.choice(["merge(2,3,k<n)", "merge(1,2,k>n)", "merge(2,4,k<n.and.n>k)", "size([1,2])", "n", "2*k+1",
                       "merge(3,4,k<=n)", "max(k,n)", 'len("a<b")', "len('x  y&')", 'len("C:\\a\\b\\c")'])


def linked_type_args(rng):
    return rng.choice(["4, merge(1, 2, k<n .and. n>k)", "merge(3,4,k<n.or.n>k)", "k<n", "n>k, k<n", "iand(k,n)", "4",
                       'len("a<b>&")', "k<n.and.n>k"])


def nocomma_rel(rng):
    return rng.choice(["kind(k<n)", "k", "2*k", "kind(k>n)", "selected_int_kind(9)"])


def lit_selector(rng, hostile=True):
    """a kind / len selector value that contains a character literal (no blanks outside, no commas)"""
    body = rng.choice(["x", "res", "a<b>&", "<u>k</u>", "C:\\a\\b\\c", "it's", "a  b", "\\\\", "q\"r"]) if hostile \
        else rng.choice(["x", "res", "abc"])
    return lit(rng, body=body)


def ret_type(rng, mode):
    """canonical text of a function result type; a third of them carry a literal in the selector"""
    r = rng.random()
    hostile = mode == "all"
    if r < 0.15 and hostile:
        return f"type(box_t({linked_type_args(rng)}))"
    if r < 0.2:
        return f"integer(kind=kind({lit_selector(rng, hostile)}))"
    if r < 0.4:
        return f"character(len=len({lit_selector(rng, hostile)}))"
    if r < 0.5:
        return f"character(len=len({lit_selector(rng, hostile)})+len({lit_selector(rng, hostile)}))"
    return f"integer(kind={nocomma_rel(rng) if mode == 'all' else 'k'})"


def init_expr(rng):
    """(text, has_literal)"""
    r = rng.random()
    if r < 0.2:                      # several literals separated by short gaps
        k = rng.choice([2, 3, 4])
        pieces = [lit(rng) for _ in range(k)]
        if rng.random() < 0.5:
            return "[" + rng.choice([", ", ","]).join(pieces) + "]", True
        return "//".join(pieces), True
    if r < 0.55:
        k = rng.choice([1, 1, 2, 3])
        pieces = [lit(rng) for _ in range(k)]
        return rng.choice([" // ", "//"]).join(pieces), True
    if r < 0.7:
        return rng.choice(["merge", "MERGE", "Merge"]) + f"({lit(rng)}, {lit(rng)}, k<n)", True
    if r < 0.85:
        return rng.choice(["merge(1,2,k<n)", "merge(1.0, 2.0, k > n)", "[1,2,3]", "2*k + 1", "iand(k,n)", "MERGE(1,2,K<N)",
                           "IAND(K, N)",
                           "1 <= 2", "k == n", "k/=n", "k >= n .and. n<=k"]), False
    return f"[{lit(rng)},{lit(rng)}]", True


def gen_var(rng, i, where):
    """where: module | type | arg | local"""
    name = f"v{i}"
    form = rng.choice(["init", "init", "dim", "dimattr", "kind", "strlen", "bindattr", "plain", "dtype"] if where == "module" else
                      ["init", "dim", "dimattr", "kind", "plain", "dtype"] if where in ("type", "local") else
                      ["dim", "dimattr", "kind", "plain", "strlen", "dtype"])
    d = {"name": name, "form": form, "vartype": "integer", "kind": None, "strlen": None, "attribs": [], "dim": None,
         "initial": None, "parameter": False, "intent": None, "points": False, "has_literal": False}
    if form == "dtype":
        # a declaration whose displayed type LINKS to a derived type of the project (the string goes through
        # relurl with a link inside) and carries hostile text in the type parameters and / or the bounds
        d["vartype"] = f"type(box_t({linked_type_args(rng)}))"
        if rng.random() < 0.5:
            d["dim"] = f"({rel_expr(rng)})"
    elif form == "init":
        text, has = init_expr(rng)
        d["initial"], d["has_literal"] = text, has
        if has:
            d["vartype"], d["strlen"] = "character", "*" if where == "module" else "20"
            d["parameter"] = where == "module"
            if text.startswith("["):
                d["dim"] = "(4)"
        elif rng.random() < 0.5 and where == "module":
            d["parameter"] = True
    elif form == "dim":
        d["dim"] = f"({rel_expr(rng)})"
    elif form == "dimattr":
        d["attribs"] = [f"dimension({rel_expr(rng)})"]
    elif form == "kind":
        d["kind"] = nocomma_rel(rng)
    elif form == "strlen":
        d["vartype"] = "character"
        d["strlen"] = rng.choice(["n", "2*k", f"len({lit(rng)})", "kind(k<n)", "kind(k>n)"])
        d["has_literal"] = "len(" in d["strlen"]
        d["positional"] = d["strlen"].startswith("kind(")      # character(EXPR): the whole EXPR is the length
    elif form == "bindattr":
        d["attribs"] = [f"bind(c, name={lit(rng, body=rng.choice(['cname', 'a<b>c', '<u>x', 'q&r']))})"]
        d["has_literal"] = True
    if where == "arg":
        d["intent"] = rng.choice(["in", "inout"])
    return d


def render_var(d, ind="  "):
    typ = d["vartype"]
    if d["kind"]:
        typ += f"(kind={d['kind']})"
    elif d["strlen"]:
        typ += f"({d['strlen']})" if d.get("positional") else f"(len={d['strlen']})"
    parts = [typ]
    if d["intent"]:
        parts.append(f"intent({d['intent']})")
    if d["parameter"]:
        parts.append("parameter")
    parts += d["attribs"]
    line = ", ".join(parts) + " :: " + d["name"] + (d["dim"] or "")
    if d["initial"] is not None:
        line += " = " + d["initial"]
    return ind + line


def gen_project(rng, mode=None):
    """abstract project: one module with variables, a type, procedures, an interface, a namelist.
    mode "initial-only": hostile text only in initial values (the escaped sites); "all": everywhere"""
    uid = [0]
    mode = mode or rng.choice(["all", "all", "initial-only"])

    def nv(where):
        uid[0] += 1
        d = gen_var(rng, uid[0], where)
        if mode == "initial-only" and d["form"] not in ("init", "plain"):
            d = gen_var(rng, uid[0], where)
            if d["form"] not in ("init", "plain"):
                d.update(form="plain", kind=None, strlen=None, attribs=[], dim=None, initial=None, has_literal=False,
                         vartype="integer", parameter=False)
        return d
    mod_vars = [nv("module") for _ in range(rng.choice([3, 5, 7]))]
    # PARAMETER statement form: name declared plainly, value given by a statement
    pstmts = []
    for _ in range(rng.choice([0, 1, 2])):
        uid[0] += 1
        text, has = init_expr(rng)
        pstmts.append({"name": f"p{uid[0]}", "vartype": "character" if has else "integer", "strlen": "20" if has else None,
                       "initial": text, "has_literal": has})
    tvars = [nv("type") for _ in range(rng.choice([1, 2, 3]))]
    procs = []
    for j in range(rng.choice([1, 2, 3])):
        kind = rng.choice(["subroutine", "function"])
        args = [nv("arg") for _ in range(rng.choice([1, 2]))]
        bind = None
        if rng.random() < 0.5 and mode == "all":
            bind = lit(rng, body=rng.choice(["c_name", "s<u>name", "a&b", "x  y", "<b>", "p>q"]), q='"')
        ret = None
        if kind == "function":
            uid[0] += 1
            ret = {"name": f"r{uid[0]}", "typ": ret_type(rng, mode), "prefix": rng.random() < 0.5}
            # a result typed in the function statement may get further attributes from separate statements
            ret["stmt_attr"] = rng.choice([None, None, "dimension(3)", "pointer", "allocatable", "target"]) \
                if ret["prefix"] else None
        if rng.random() < 0.4:
            uid[0] += 1         # an implicitly typed dummy argument (no declaration at all)
            args.append({"name": f"i{uid[0]}", "form": "implicit", "vartype": "integer", "kind": None, "strlen": None,
                         "attribs": [], "dim": None, "initial": None, "parameter": False, "intent": None,
                         "points": False, "has_literal": False})
        procs.append({"name": f"pr{j}", "kind": kind, "args": args, "bind": bind, "ret": ret,
                      "locals": [nv("local") for _ in range(rng.choice([0, 1]))],
                      "namelist": j == 0})
    iface = None
    if rng.random() < 0.7:
        uid[0] += 1
        form = rng.choice(["kind", "strlen", "dimattr", "dim"]) if mode == "all" else "plain"
        iface = {"name": f"ifn{uid[0]}", "arg": nv("arg"), "abstract": rng.random() < 0.5, "retform": form,
                 "retkind": (rng.choice([nocomma_rel(rng), f"kind({lit_selector(rng)})"]) if form == "kind" else None),
                 "prefix": form == "kind" and rng.random() < 0.5,
                 "retlen": rng.choice(["n", "kind(k<n)", "kind(k>n)"]) if form == "strlen" else None,
                 "retattr": f"dimension({rel_expr(rng)})" if form == "dimattr" else None,
                 "retdim": f"({rel_expr(rng)})" if form == "dim" else None}
    bound = None
    funcs = [pr for pr in procs if pr["kind"] == "function"]
    if funcs and rng.random() < 0.6:
        bound = {"name": "tb1", "target": funcs[0]["name"]}
    if mode == "initial-only":
        pstmts = [ps for ps in pstmts if not ps["has_literal"]]
    return {"mode": mode, "mod_vars": mod_vars, "pstmts": pstmts, "tvars": tvars, "procs": procs, "iface": iface,
            "bound": bound}


def ret_text(ret):
    """the declaration of a function result as it is to be shown"""
    return ret["typ"] + (", " + ret["stmt_attr"] if ret.get("stmt_attr") else "")


def iface_ret_decl(f):
    if f["retform"] == "kind":
        return f"integer(kind={f['retkind']}) :: res"
    if f["retform"] == "strlen":
        return f"character({f['retlen']}) :: res" if "(" in f["retlen"] else f"character(len={f['retlen']}) :: res"
    if f["retform"] == "dimattr":
        return f"integer, {f['retattr']} :: res"
    if f["retform"] == "dim":
        return f"integer :: res{f['retdim']}"
    return "integer :: res"


def iface_ret_text(f):
    """the text after `Return Value` on the interface page, in FORD's canonical order"""
    if f["retform"] == "kind":
        return f"integer(kind={f['retkind']})"
    if f["retform"] == "strlen":
        return f"character(len={f['retlen']})"
    if f["retform"] == "dimattr":
        return f"integer{f['retattr']}"
    if f["retform"] == "dim":
        return f"integer{f['retdim']}"
    return "integer"


def harmless(text):
    return "".join("x" if c in HOSTILE else c for c in text)


def _h(text, control):
    """hostile characters of *literal bodies and expressions* -> x ; delimiters and syntax are kept by
    the callers, which apply this only to the variable parts"""
    return text


def render_project(p, control=False):
    """-> Fortran text of src/m.f90.  In the control rendering hostile characters inside literal bodies,
    and the relational operators of expressions, are replaced by x."""
    def T(text):
        return control_text(text) if control else text
    L = ["module m", "  implicit none", "  integer, parameter :: k = 1, n = 2",
         "  type :: box_t", "    !! a type of the project: declarations of this type show a link", "    integer :: bz = 0",
         "  end type box_t"]
    for d in p["mod_vars"]:
        L.append(T(render_var(d)))
        L.append(f"    !! doc of {d['name']}")
    for ps in p["pstmts"]:
        typ = ps["vartype"] + (f"(len={ps['strlen']})" if ps["strlen"] else "")
        L.append(f"  {typ} :: {ps['name']}")
        L.append(T(f"  parameter ({ps['name']} = {ps['initial']})"))
    L.append("  type :: t_t")
    for d in p["tvars"]:
        L.append(T(render_var(d, "    ")))
        L.append(f"      !! doc of {d['name']}")
    if p.get("bound"):
        L.append("  contains")
        L.append(f"    procedure, nopass :: {p['bound']['name']} => {p['bound']['target']}")
    L.append("  end type t_t")
    if p["iface"]:
        f = p["iface"]
        L.append("  abstract interface" if f["abstract"] else "  interface")
        pre = f"integer(kind={f['retkind']}) " if f.get("prefix") else ""
        L.append(T(f"    {pre}function {f['name']}({f['arg']['name']}) result(res)"))
        L.append("      import :: k, n")
        L.append(T(render_var(f["arg"], "      ")))
        if not f.get("prefix"):
            L.append(T("      " + iface_ret_decl(f)))
        L.append(f"    end function {f['name']}")
        L.append("  end interface")
    L.append("contains")
    for pr in p["procs"]:
        arglist = ", ".join(a["name"] for a in pr["args"])
        bind = f" bind(c, name={pr['bind']})" if pr["bind"] else ""
        if pr["kind"] == "function":
            r = pr["ret"]
            prefix = f"{r['typ']} " if r["prefix"] else ""
            L.append(T(f"  {prefix}function {pr['name']}({arglist}) result({r['name']}){bind}"))
        else:
            L.append(T(f"  subroutine {pr['name']}({arglist}){bind}"))
        L.append(f"    !! doc of {pr['name']}")
        for a in pr["args"]:
            if a.get("form") != "implicit":
                L.append(T(render_var(a, "    ")))
        if pr["kind"] == "function" and pr["ret"].get("stmt_attr"):
            sa, rn = pr["ret"]["stmt_attr"], pr["ret"]["name"]
            L.append(f"    dimension {rn}(3)" if sa.startswith("dimension") else f"    {sa} :: {rn}")
        if pr["kind"] == "function" and not pr["ret"]["prefix"]:
            L.append(T(f"    {pr['ret']['typ']} :: {pr['ret']['name']}"))
        for d in pr["locals"]:
            L.append(T(render_var(d, "    ")))
        if pr["namelist"]:
            names = [d["name"] for d in p["mod_vars"] if not d["parameter"]][:3]
            if names:
                L.append(f"    namelist /nl_{pr['name']}/ " + ", ".join(names))
        if pr["kind"] == "function":
            L.append(f"    {pr['ret']['name']} = 1")
        L.append(f"  end {pr['kind']} {pr['name']}")
    L.append("end module m")
    return "\n".join(L) + "\n"


def control_text(line):
    """replace hostile characters by x, keeping Fortran syntax: literal delimiters stay, characters
    inside literal bodies and the operators < > of expressions become x"""
    out, i, q = [], 0, None
    while i < len(line):
        c = line[i]
        if q is None:
            if c in "'\"":
                q = c
                out.append(c)
            elif c in "<>":
                out.append("x")
            else:
                out.append(c)
        else:
            if c == q:
                if i + 1 < len(line) and line[i + 1] == q:
                    out.append("xx")
                    i += 1
                else:
                    q = None
                    out.append(c)
            elif c in HOSTILE:
                out.append("x")
            else:
                out.append(c)
        i += 1
    return "".join(out)
