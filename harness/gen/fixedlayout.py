"""Fixed-form layouts of token-level statements (C14)."""
from harness.gen import layout as L

CONT_CHARS = "123456789&+$*.aX#"
CODE = ["x", "=", "y1", "+", "call", "foo", "(", ")", ",", "a%b", "1.0e0", "if", "then", "end", "do", "print",
        "*", "//", "integer", "n_2", ".and.", "100", "/", "-", "goto", "continue"]
LITS = ["", "a", "abc", "it's", "c!d", "  two  ", "x ; y", "&", "end do", "C comment?", "* star", "!"]


def gen_statement(rng, p_label=0.25):
    """-> (label or None, pieces) ; pieces alternate token / blank"""
    ntok = rng.randint(1, rng.choice([3, 6, 14, 30]))
    pieces = []
    for i in range(ntok):
        if i:
            pieces.append(("s", 1))
        if rng.random() < 0.2:
            pieces.append(("l", rng.choice("'\""), rng.choice(LITS)))
        else:
            pieces.append(("c", rng.choice(CODE)))
    label = str(rng.choice([10, 20, 100, 9999, 12345, 7])) if rng.random() < p_label else None
    return label, pieces


def render_fixed(rng, label, pieces, knobs):
    """-> (lines without newline, regions, ncont)"""
    toks = [L.render_cs([p])[0] for p in pieces if p[0] != "s"]
    width = knobs.get("width", 66)
    lines_code, cur = [], ""
    for t in toks:
        # break between tokens: either the line is full or at random
        if cur and (len(cur) + 1 + len(t) > width or rng.random() < knobs.get("p_break", 0.15)):
            lines_code.append(cur)
            cur = t
        else:
            cur = cur + (" " if cur else "") + t
    lines_code.append(cur)
    regions = set()
    out = []
    for i, code in enumerate(lines_code):
        if i == 0:
            lab = (label or "")
            lab = lab.rjust(5) if rng.random() < 0.5 else lab.ljust(5)
            c6 = rng.choice(" 0") if rng.random() < 0.3 else " "
        else:
            lab = "     "
            c6 = rng.choice(CONT_CHARS)
        pad = " " * rng.choice([0, 0, 1, 3]) if len(code) + 3 <= width else ""
        line = lab + c6 + pad + code
        last = i == len(lines_code) - 1
        if rng.random() < knobs.get("p_seq", 0.2) and knobs.get("length_limit", True):
            line = line.ljust(72) + rng.choice(["00012345", "SEQ", "!x", "ABCDEFGH"])
        elif rng.random() < 0.15 and (last or rng.random() < knobs.get("p_region", 0.05)) and len(line) < 60:
            line = line + " ! " + rng.choice(["note", "it's", "c"])
            if not last:
                regions.add("inline_comment_continued")
        out.append(line)
        if not last:
            while rng.random() < 0.2:
                r = rng.random()
                if r < 0.6:
                    out.append(rng.choice("Cc*!") + rng.choice(["", " comment", "     more", "$ompx"]))
                elif r < 0.9 or rng.random() > knobs.get("p_region", 0.05):
                    out.append(rng.choice(["", " ", "  ", "     "]))
                else:
                    out.append(" " * rng.choice([6, 7, 20]))
                    regions.add("blank6_before_continuation")
    return out, regions, len(lines_code) - 1


def gen_file(rng, knobs=None):
    knobs = dict(knobs or {})
    knobs.setdefault("p_break", rng.choice([0.0, 0.0, 0.05, 0.15]))
    knobs.setdefault("p_seq", rng.choice([0.0, 0.3, 1.0]))
    knobs.setdefault("p_label", rng.choice([0.1, 0.25, 0.9]))
    if not knobs.get("length_limit", True):
        # with the length limit off, statement text may run beyond column 72
        knobs.setdefault("width", rng.choice([66, 100, 120]))
    lines, pss, regions, ncont = [], [], set(), 0
    for _ in range(rng.choice([1, 2, 3, 5])):
        while rng.random() < 0.25:
            lines.append(rng.choice(["C header", "c", "*  star", "! bang", "", "   ", "      "]))
        label, pieces = gen_statement(rng, knobs["p_label"])
        ls, rg, nc = render_fixed(rng, label, pieces, knobs)
        lines += ls
        regions |= rg
        ncont += nc
        pss.append(([("c", label), ("s", 1)] if label else []) + pieces)
    return lines, pss, regions, ncont
