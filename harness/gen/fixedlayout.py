"""Fixed-form layouts of token-level statements (C14)."""
from harness.gen import layout as L

# column 6 of a continuation line: any character other than blank and zero, '!' included (a '!' in column 6 is
# not a comment initiator)
CONT_CHARS = "123456789&+$*.aX#!!!!ZcCq-/:;=,'\"%()<>?@_|~"
CODE = ["x", "=", "y1", "+", "call", "foo", "(", ")", ",", "a%b", "1.0e0", "if", "then", "end", "do", "print",
        "*", "//", "integer", "n_2", ".and.", "100", "/", "-", "goto", "continue"]
LITS = ["", "a", "abc", "it's", "c!d", "  two  ", "x ; y", "&", "end do", "C comment?", "* star", "!", "!!",
        "a ! b ' c", 'say "hi" !', "! &"]
# bodies of literals that may be continued across lines (the open finding); no quote characters in them
SPLIT_LITS = ["abcdef", "ab cd", "a  b", "hello, world", "x!y", "12345678"]
# inline comments: text after the '!'.  A leading '!' makes a documentation comment ("!! ...").  Never '>', '*' or
# '|' first: those are FORD's other documentation marks, which FORD rejects inline in free form as well.
INLINE = [" note", " it's", " c", "", "! doc text", "! doc's \"q", " x = 'a", " ! again", "  trailing  ", " &",
          " a ; b", "!", " say \"hi", "! with & and ;", " call f('x')"]
SEQ = ["00012345", "SEQ", "!x", "ABCDEFGH", "'q", "&"]
COMMENT_LINES = ["", " comment", "     more", "$ompx", " it's", "! doc line", " & x"]


def blank_line(rng, wide=True):
    """a whitespace-only line; wide: any width 0..80 (and now and then tabs), else at most 5 columns"""
    if not wide:
        return " " * rng.choice([0, 1, 2, 5])
    r = rng.random()
    if r < 0.3:
        return " " * rng.choice([0, 1, 2, 5])
    if r < 0.6:
        return " " * rng.choice([6, 7, 8, 20, 66, 71, 72, 73, 74, 80])
    if r < 0.95:
        return " " * rng.randint(1, 80)
    return rng.choice(["\t", "      \t", "\t\t\t\t\t\t\t", "   \t   \t "])


def between_lines(rng, knobs):
    """comment lines and whitespace-only lines between a line and its continuation line"""
    out = []
    p = knobs.get("p_between", 0.2)
    while rng.random() < p:
        r = rng.random()
        if r < 0.35:
            out.append(rng.choice("Cc*!") + rng.choice(COMMENT_LINES))
        elif r < 0.55:
            # a comment line whose first non-blank character is a '!' in any column but column 6
            out.append(" " * rng.choice([1, 2, 3, 4, 6, 6, 7, 10, 30, 71, 72, 75]) + "!" + rng.choice(COMMENT_LINES))
        else:
            out.append(blank_line(rng))
    return out


def gen_statement(rng, p_label=0.25):
    """-> (label or None, pieces) ; pieces alternate token / blank"""
    ntok = rng.randint(1, rng.choice([3, 6, 14, 30]))
    pieces = []
    for i in range(ntok):
        if i:
            pieces.append(("s", 1))
        if rng.random() < 0.2:
            pieces.append(("l", rng.choice("'\""), rng.choice(LITS)))
        else:
            pieces.append(("c", rng.choice(CODE)))
    label = str(rng.choice([10, 20, 100, 9999, 12345, 7])) if rng.random() < p_label else None
    return label, pieces


def render_fixed(rng, label, pieces, knobs):
    """-> (lines without newline, pieces as the standard reads them, regions, ncont, shapes)"""
    pieces = list(pieces)
    width = knobs.get("width", 66)
    ll = knobs.get("length_limit", True)
    # the open finding: one literal of the statement continued across lines (only with the standard line length)
    split_at = None
    if ll and width == 66 and rng.random() < knobs.get("p_region", 0.02):
        split_at = len(pieces)
        q = rng.choice("'\"")
        if pieces:
            pieces.append(("s", 1))
            split_at += 1
        pieces.append(("l", q, rng.choice(SPLIT_LITS)))
        if rng.random() < 0.5:
            pieces += [("s", 1), ("c", rng.choice(CODE))]
    # statement fields of the lines; each entry: [text, exact] (exact: the line ends inside the split literal)
    fields, cur = [], ""
    first_pad = " " * rng.choice([0, 0, 1, 3])
    for pi, p in enumerate(pieces):
        if p[0] == "s":
            continue
        t = L.render_cs([p])[0]
        if pi == split_at:
            body = p[2]
            j = rng.randint(1, len(body) - 1)
            head = (cur + " " if cur else "") + p[1] + body[:j]
            lead = first_pad if not fields else ""
            if len(lead + head) <= width:
                fields.append([head, True])
                fill = width - len(lead + head)          # blanks up to column 72 belong to the literal
                pieces[pi] = ("l", p[1], body[:j] + " " * fill + body[j:])
                cur = body[j:] + p[1]
                continue
            split_at = None
        # break between tokens: either the line is full or at random
        if cur and (len(cur) + 1 + len(t) > width - 3 or rng.random() < knobs.get("p_break", 0.15)):
            fields.append([cur, False])
            cur = t
        else:
            cur = cur + (" " if cur else "") + t
    fields.append([cur, False])
    regions, shapes = set(), set()
    if split_at is not None and any(e for _, e in fields):
        regions.add("literal_split")
    out = []
    for i, (code, exact) in enumerate(fields):
        last = i == len(fields) - 1
        after_exact = i > 0 and fields[i - 1][1]
        if i == 0:
            lab = (label or "")
            lab = lab.rjust(5) if rng.random() < 0.5 else lab.ljust(5)
            c6 = rng.choice(" 0") if rng.random() < 0.3 else " "
            pad = first_pad
        else:
            lab = "     "
            c6 = rng.choice(CONT_CHARS)
            if c6 == "!":
                shapes.add("bang_in_column_6")
            pad = "" if (after_exact or exact) else (" " * rng.choice([0, 0, 1, 3]) if len(code) + 3 <= width else "")
        line = lab + c6 + pad + code
        if exact:
            out.append(line if rng.random() < 0.5 else line.ljust(72))
        else:
            # inline comment, on last and on continued lines alike
            if rng.random() < knobs.get("p_comment", 0.2):
                gap = " " * rng.choice([0, 1, 1, 2, 5])
                if rng.random() < 0.15 and len(line) < 70:
                    gap = " " * (rng.choice([70, 71, 72]) - len(line) - 1)   # the '!' close to column 72
                line = line + gap + "!" + rng.choice(INLINE)
                shapes.add("inline_comment_last" if last else "inline_comment_continued")
                if len(line) > 72:
                    shapes.add("comment_past_72")
            if ll and rng.random() < knobs.get("p_seq", 0.2):
                if len(line) <= 72:
                    line = line.ljust(72) + rng.choice(SEQ)
                    shapes.add("long_line" if last else "long_line_continued")
                    if "!" in line[6:72] and not last:
                        shapes.add("long_line_comment_continued")
            out.append(line)
        if not last:
            bl = between_lines(rng, knobs)
            if any(b.strip().startswith("!") and len(b) - len(b.lstrip()) >= 6 for b in bl):
                shapes.add("comment_at_column_7_or_beyond_before_continuation")
            if any(not b.strip() and len(b) >= 6 for b in bl):
                shapes.add("wide_blank_before_continuation")
            if sum(1 for b in bl if not b.strip()) >= 2:
                shapes.add("several_blanks_before_continuation")
            out += bl
    return out, pieces, regions, len(fields) - 1, shapes


def gen_file(rng, knobs=None):
    knobs = dict(knobs or {})
    knobs.setdefault("p_break", rng.choice([0.0, 0.0, 0.05, 0.15, 0.3]))
    knobs.setdefault("p_seq", rng.choice([0.0, 0.3, 1.0]))
    knobs.setdefault("p_label", rng.choice([0.1, 0.25, 0.9]))
    knobs.setdefault("p_comment", rng.choice([0.0, 0.2, 0.5, 0.9]))
    knobs.setdefault("p_between", rng.choice([0.0, 0.2, 0.5, 0.7]))
    if not knobs.get("length_limit", True):
        # with the length limit off, statement text may run beyond column 72
        knobs.setdefault("width", rng.choice([66, 100, 120]))
    lines, pss, regions, ncont, shapes = [], [], set(), 0, set()
    for _ in range(rng.choice([1, 2, 3, 5])):
        while rng.random() < 0.25:
            lines.append(rng.choice(["C header", "c", "*  star", "! bang", "", "   ", "      ", " " * 7, " " * 40,
                                     " " * 75, "  ! in column 3", "    !", "      ! in column 7", " " * 20 + "!! far"]))
        label, pieces = gen_statement(rng, knobs["p_label"])
        ls, pieces, rg, nc, sh = render_fixed(rng, label, pieces, knobs)
        lines += ls
        regions |= rg
        shapes |= sh
        ncont += nc
        pss.append(([("c", label), ("s", 1)] if label else []) + pieces)
    return lines, pss, regions, ncont, shapes
