"""C06 — abstract module graphs (DAGs of re-exporting modules + a consumer program), their rendering
as Fortran text, and their projection onto the Coq model's input type (Sem/UseAssoc.v `module`).

Abstract unit (JSON-able dict):
  {"name", "unit": "module"|"program", "default": "public"|"private", "explicit_default": bool,
   "decls": [{"name", "kind": var|type|proc|generic|abs, "perm": public|private|protected,
              "how": attr|stmt|default, "ref": {"what": type|procptr|extends, "id": local-name}|None,
              "function": bool}],
   "access": [[name, is_public]],          # access statements for names that are not declared here
   "uses": [{"target", "only": None|[[local, remote]], "renames": [[local, remote]], "prefix": ""|"::"|"intrinsic"|"non_intrinsic"}],
   "calls": [local-name]}                   # programs only
Names at use sites may be spelled in any letter case; declarations are what they are.
"""
import copy
import itertools

KINDS = ["var", "type", "proc", "generic", "abs"]      # drawn at random; "iface" only through nested chains
KLETTER = {"var": "v", "type": "t", "proc": "p", "generic": "g", "abs": "i"}
CLS = {"var": "CVar", "type": "CType", "proc": "CProc", "generic": "CProc", "abs": "CAbs"}
COQ_KIND = {"var": "KVar", "type": "KType", "proc": "KProc", "generic": "KGeneric", "abs": "KAbs", "iface": "KProc"}
COQ_NKIND = {"routine": "NRoutine", "ifbody": "NIfBody", "absbody": "NAbsBody", "genbody": "NGenBody"}
COQ_PERM = {"public": "Public", "private": "Private", "protected": "Protected"}


# Names under which FORD always has a link object (ford.settings.INTRINSIC_MODS) and the `extra_mods`
# option every run of this property sets: a project module of such a name must still be the one a
# USE statement binds to (find_used_modules: first match over chain(modules, external_modules))
INTRINSIC_NAMES = ["iso_fortran_env", "iso_c_binding", "ieee_arithmetic", "ieee_exceptions", "ieee_features",
                   "openacc", "omp_lib", "mpi", "mpi_f08"]
EXTRA_MODS = {"extlib": "https://example.org/extlib", "netcdf": "https://example.org/netcdf.html"}
SPECIAL_NAMES = INTRINSIC_NAMES + sorted(EXTRA_MODS)
EXTERNAL_NAMES = sorted(set(INTRINSIC_NAMES) | set(EXTRA_MODS))


def all_uses(u):
    """every USE statement of a unit: its own and those of its nested scopes"""
    out = list(u["uses"])
    for _, _, nd in nested_nodes(u):
        out += nd["uses"]
    return out


def rename_modules(units, mapping):
    """a copy of the program in which the modules named in `mapping` (lower-case old name -> new name)
    bear the new name, in their MODULE statement and in every USE statement (the letter case chosen
    at the use site is kept where it was all upper case)"""
    units = copy.deepcopy(units)
    for u in units:
        if u["unit"] == "module" and u["name"].lower() in mapping:
            u["name"] = mapping[u["name"].lower()]
        for x in all_uses(u):
            new = mapping.get(x["target"].lower())
            if new is not None:
                x["target"] = new.upper() if x["target"].isupper() else new
    return units


def specialise(rng, units, p_each=0.5):
    """rename some modules to names FORD also knows as intrinsic / extra modules"""
    mods = [u["name"].lower() for u in units if u["unit"] == "module"]
    taken = {x["target"].lower() for u in units for x in all_uses(u)} | set(mods)
    pool = [n for n in SPECIAL_NAMES if n not in taken]
    rng.shuffle(pool)
    mapping = {}
    for m in mods:
        if pool and rng.random() < p_each:
            mapping[m] = pool.pop()
    return rename_modules(units, mapping) if mapping else units


# ----------------------------------------------------------------------------- generator-side guess
def guess_exports(units, name, memo=None):
    """Generator-side approximation of the names a module exports: {local name: kind}.  Used only to
    choose plausible names for ONLY lists, renames, access statements and references; no verdict
    depends on it."""
    memo = {} if memo is None else memo
    key = name.lower()
    if key in memo:
        return memo[key]
    memo[key] = {}
    u = next((x for x in units if x["name"].lower() == key and x["unit"] == "module"), None)
    if u is None:
        return {}
    out = {d["name"].lower(): d["kind"] for d in u["decls"] if d["perm"] != "private"}
    acc = {a.lower(): p for a, p in u["access"]}
    for n, k in guess_imports(units, u, memo).items():
        if acc.get(n, u["default"] == "public"):
            out.setdefault(n, k)
    memo[key] = out
    return out


def guess_imports(units, u, memo=None):
    res = {}
    for us in u["uses"]:
        ex = guess_exports(units, us["target"], memo)
        if us["only"] is None:
            hidden = {r.lower() for l, r in us["renames"]}
            for n, k in ex.items():
                if n not in hidden:
                    res.setdefault(n, k)
            items = us["renames"]
        else:
            items = us["only"]
        for l, r in items:
            if r.lower() in ex:
                res.setdefault(l.lower(), ex[r.lower()])
    return res


# ----------------------------------------------------------------------------- generation
def spell(rng, n, p=0.12):
    return n.upper() if rng.random() < p else n


def gen_decls(rng, tag, nmax, knobs):
    """own declarations of one module; names carry the module tag so that they are project-unique,
    except the deliberate clash names x<kind-letter>1"""
    decls = []
    n = rng.randint(1, nmax)
    kinds = [rng.choice(KINDS) for _ in range(n)]
    if knobs.get("all_kinds"):
        kinds = list(KINDS)
    counter = {}
    for k in kinds:
        counter[k] = counter.get(k, 0) + 1
        name = f"{KLETTER[k]}{tag}{counter[k]}"
        if rng.random() < knobs.get("p_clash", 0.0):
            name = f"x{KLETTER[k]}1"
            if any(d["name"] == name for d in decls):
                continue
        perm = rng.choice(["public", "public", "private", "default", "default"])
        if k == "var" and rng.random() < 0.15:
            perm = "protected"
        decls.append({"name": name, "kind": k, "perm": perm, "how": None, "ref": None,
                      "function": k == "proc" and rng.random() < 0.3})
        if k == "generic":
            # its specific procedure
            decls.append({"name": name + "s", "kind": "proc", "perm": rng.choice(["default", "private"]),
                          "how": None, "ref": None, "function": False, "specific_of": name})
    return decls


def fix_perms(rng, u):
    for d in u["decls"]:
        if d["perm"] == "default":
            d["perm"] = u["default"]
            d["how"] = "default"
        elif d["perm"] == u["default"] and rng.random() < 0.5:
            d["how"] = "default"
        elif d["kind"] in ("var", "type") and (d["perm"] == "protected" or rng.random() < 0.5):
            d["how"] = "attr"
        else:
            d["how"] = "stmt"


USE_FORMS = ["plain", "plain", "only", "only", "only_rename", "only_rename", "prefix", "twice", "rename",
             "only_empty", "only_dup", "rename_perm"]


def gen_use(rng, units, target, form, tag, counter, knobs):
    """a list of use statements (one, or two for 'twice') of module `target`"""
    ex = sorted(guess_exports(units, target))
    bogus = ["nosuch", f"v{target[-1]}9"]

    def pick_names(kmin=1):
        pool = ex if (ex and rng.random() < 0.92) else bogus
        k = min(len(pool), rng.randint(kmin, 3))
        return rng.sample(pool, k) if k else []

    def local(r):
        counter[0] += 1
        return f"r{tag}{counter[0]}"

    def plain_items(ns):
        out = []
        for n in ns:
            n2 = spell(rng, n)
            out.append([n2, n2])
        return out

    def rename_items(ns):
        return [[local(n), spell(rng, n)] for n in ns]

    prefix = rng.choice(["", "", "", "::", "non_intrinsic"])
    t = spell(rng, target)
    mk = lambda only, ren, pre=None: {"target": t, "only": only, "renames": ren,
                                      "prefix": prefix if pre is None else pre}
    if form == "plain":
        return [mk(None, [])]
    if form == "prefix":
        return [mk(None, [], rng.choice(["non_intrinsic", "::"]))]
    if form == "only":
        return [mk(plain_items(pick_names()), [])]
    if form == "only_rename":
        ns = pick_names()
        cut = rng.randint(0, len(ns))
        items = plain_items(ns[:cut]) + rename_items(ns[cut:])
        rng.shuffle(items)
        return [mk(items, [])]
    if form == "rename":
        return [mk(None, rename_items(pick_names()))]
    if form == "rename_perm":
        # a rename list without ONLY whose local names are names of the used module that the same list
        # renames away: a chain (a => b, fresh => a), a swap or a rotation, clauses in any order.  The
        # renames of a statement are simultaneous (Fortran 2018 14.2.2)
        # (among names of one kind: a type named like a procedure of the same module would be another
        # matter, the clash of two classes of identifiers)
        exk = guess_exports(units, target)
        bykind = {}
        for n in ex:
            bykind.setdefault(CLS.get(exk[n], "CProc"), []).append(n)
        pools = [v for v in bykind.values() if len(v) >= 2]
        if not pools:
            return [mk(None, rename_items(pick_names()))]
        pool = rng.choice(pools)
        ns = rng.sample(pool, min(len(pool), rng.randint(2, 3)))
        if rng.random() < 0.5:
            items = [[ns[i + 1], spell(rng, ns[i])] for i in range(len(ns) - 1)] + [[local(ns[-1]), spell(rng, ns[-1])]]
        else:
            items = [[ns[(i + 1) % len(ns)], spell(rng, ns[i])] for i in range(len(ns))]
        rng.shuffle(items)
        return [mk(None, items)]
    if form == "only_empty":
        return [mk([], [])]
    if form == "only_dup":
        ns = pick_names()
        if not ns:
            return [mk(None, [])]
        items = plain_items(ns) + rename_items(ns[:1])
        if rng.random() < 0.5:
            items = rename_items(ns[:1]) + plain_items(ns)
        return [mk(items, [])]
    if form == "twice":
        sub = rng.choice([("only", "only"), ("only", "only_rename"), ("plain", "only"), ("only_rename", "plain"),
                          ("plain", "plain"), ("only_rename", "only_rename")])
        if knobs.get("regions") and rng.random() < 0.5:
            sub = rng.choice([("plain", "only_rename"), ("only_rename", "plain"), ("rename", "only"), ("rename", "plain"),
                              ("plain", "rename")])
        return (gen_use(rng, units, target, sub[0], tag, counter, knobs)
                + gen_use(rng, units, target, sub[1], tag, counter, knobs))
    raise ValueError(form)


def gen_graph(rng, knobs=None):
    """modules m_a.. in dependency order (unit i uses only units j < i) + optionally a program"""
    knobs = dict(knobs or {})
    n = knobs.get("nmod") or rng.choice([2, 3, 3, 4, 4, 5, 6])
    shape = knobs.get("shape") or rng.choice(["chain", "diamond", "random", "random", "star"])
    forms = list(knobs.get("forms") or USE_FORMS)
    if not knobs.get("regions"):
        forms = [f for f in forms if f not in ("rename", "only_empty", "only_dup")] or ["plain"]
    # (rename_perm stays in: about one statement in eleven)
    units = []
    for i in range(n):
        tag = "abcdefgh"[i]
        name = "m" + tag
        if shape == "chain":
            targets = [i - 1] if i else []
        elif shape == "diamond":
            fixed = {0: [], 1: [0], 2: [0], 3: [1, 2]}
            targets = fixed[i] if i in fixed else ([i - 1] if rng.random() < 0.7 else [i - 1, rng.randrange(i)])
        elif shape == "star":
            targets = [0] if i and i < n - 1 else (list(range(1, i)) if i else [])
        else:
            targets = sorted(rng.sample(range(i), rng.randint(0, min(i, 3)))) if i else []
        default = rng.choice(["public", "public", "private"])
        u = {"name": name, "unit": "module", "default": default,
             "explicit_default": default == "private" or rng.random() < 0.3,
             "decls": gen_decls(rng, tag, knobs.get("ndecl", 4), knobs), "access": [], "uses": [], "calls": []}
        fix_perms(rng, u)
        counter = [0]
        targets = sorted(set(targets))
        rng.shuffle(targets)
        for j in targets:
            u["uses"] += gen_use(rng, units, units[j]["name"], rng.choice(forms), tag, counter, knobs)
        if rng.random() < 0.25:
            u["uses"].insert(rng.randint(0, len(u["uses"])),
                             {"target": rng.choice(["iso_fortran_env", "iso_c_binding", "mpi"]), "only": None,
                              "renames": [], "prefix": rng.choice(["intrinsic", "", "intrinsic"])})
        gen_access(rng, units, u, knobs)
        gen_module_refs(rng, units, u)
        if i and rng.random() < knobs.get("p_nested", 0.0):
            gen_nested(rng, units, u, forms, knobs)
        units.append(u)
    if knobs.get("program", rng.random() < 0.6):
        units.append(gen_program(rng, units, forms, knobs))
    if rng.random() < knobs.get("p_shared", 0.0):
        share_statement(rng, units)
    if rng.random() < knobs.get("p_blockdata", 0.0):
        units.append(gen_blockdata(rng, units))
    if rng.random() < knobs.get("p_special", 0.0):
        units = specialise(rng, units)
        if rng.random() < 0.3:
            # a project module named like an intrinsic module next to `use, intrinsic :: <that name>`
            # elsewhere (Fortran 2018 14.2.2: that statement designates the intrinsic module)
            # (in a unit that comes later in the dependency order: FORD matches the statement with the
            # project's module, so an earlier unit would close a cycle)
            idx = [i for i, u in enumerate(units) if u["unit"] == "module" and u["name"].lower() in INTRINSIC_NAMES]
            if idx and idx[0] + 1 < len(units):
                i = rng.choice(idx[:1])
                rng.choice(units[i + 1:])["uses"].append({"target": units[i]["name"].lower(), "only": None,
                                                          "renames": [], "prefix": "intrinsic"})
    return units


def gen_access(rng, units, u, knobs):
    imp = guess_imports(units, u)
    own = {d["name"].lower() for d in u["decls"]}
    cands = sorted(n for n in imp if n not in own)
    rng.shuffle(cands)
    for n in cands[:3]:
        r = rng.random()
        if u["default"] == "private":
            if r < 0.6:
                u["access"].append([spell(rng, n), True])
            elif r < 0.7:
                u["access"].append([n, False])
        else:
            if r < 0.15:
                u["access"].append([n, True])
            elif r < 0.25 and knobs.get("regions"):
                u["access"].append([n, False])


def gen_module_refs(rng, units, u):
    """module variables / types declared with a use-associated type or abstract interface"""
    if rng.random() < 0.6:
        return
    tag = u["name"][-1]
    imp = guess_imports(units, u)
    k = 0
    for n, kind in sorted(imp.items()):
        if k >= 2 or rng.random() < 0.5:
            continue
        what = {"type": rng.choice(["type", "type", "extends"]), "abs": "procptr"}.get(kind)
        if what is None:
            continue
        k += 1
        d = {"name": f"{'t' if what == 'extends' else 'v'}{tag}r{k}", "kind": "type" if what == "extends" else "var",
             "perm": "default", "how": None, "ref": {"what": what, "id": n}, "function": False}
        u["decls"].append(d)
    fix_perms(rng, {"default": u["default"], "decls": [d for d in u["decls"] if d["how"] is None]})


# ----------------------------------------------------------------------------- nested scopes
# A node of the nested-scope tree of a module:
#   {"name", "kind": routine|ifbody|absbody|genbody, "uses": [...], "refs": [{"what": type|procptr|call, "id", "var"}],
#    "children": [node]}
# Top-level nodes hang off a declaration of the module (decl["node"]): a module procedure (kind proc),
# an interface body (kind iface), an abstract interface (kind abs), or the body written inside a generic
# interface block (decl of kind generic with "body": node; the body's procedure is itself an entry of
# all_procs and gets its own decl of kind proc with "in_generic").
CHAINS = ["modproc", "internal", "ifbody_proc", "ifbody_mod", "internal_ifbody", "two_levels",
          "absint_mod", "generic_body", "absint_proc"]


def gen_nested(rng, units, u, forms, knobs):
    tag = u["name"][-1]
    mods = [x for x in units if x["unit"] == "module"]
    shallow = {x["target"].lower() for x in u["uses"]}
    counter = [100]
    nforms = [f for f in forms if f in ("plain", "only", "only_rename", "prefix", "twice", "rename_perm")] or ["plain"]
    chains = list(CHAINS)
    k = 0

    def pick_target():
        deep = [m for m in mods if m["name"].lower() not in shallow]
        pool = deep if (deep and rng.random() < 0.75) else mods
        return rng.choice(pool)["name"]

    def node(name, kind, with_use=True, nuse=1):
        nd = {"name": name, "kind": kind, "uses": [], "refs": [], "children": []}
        if with_use:
            for _ in range(nuse):
                nd["uses"] += gen_use(rng, units, pick_target(), rng.choice(nforms), tag + "n", counter, knobs)
        return nd

    def add_refs(nd, hosts):
        """references to names the scope obtains from its own USE statements, from its hosts', from the
        module (host association), and a few names that are not accessible at all"""
        if nd["kind"] == "routine":
            pool = dict(guess_imports(units, u))
            for h in hosts + [nd]:
                pool.update(guess_imports(units, {"uses": h["uses"]}))
        else:
            # an interface body has no host association: legal references are to its own imports
            pool = dict(guess_imports(units, {"uses": nd["uses"]}))
        for m in mods:
            for d in m["decls"]:
                if rng.random() < 0.1:
                    pool.setdefault(d["name"].lower(), d["kind"])
        j = 0
        for n, kind in sorted(pool.items()):
            if rng.random() < 0.4 or j >= 5:
                continue
            what = {"type": "type", "abs": "procptr", "proc": "call", "generic": "call", "iface": "call"}.get(kind)
            if what is None or (what == "call" and nd["kind"] != "routine"):
                continue
            j += 1
            nd["refs"].append({"what": what, "id": n, "var": f"w{nd['name']}{j}"})

    for _ in range(rng.choice([1, 1, 2])):
        k += 1
        chain = rng.choice(chains)
        p, q, e = f"n{tag}{k}p", f"n{tag}{k}q", f"n{tag}{k}e"
        base = {"perm": "default", "how": None, "ref": None, "function": False}
        if chain == "modproc":
            top = node(p, "routine"); add_refs(top, [])
            u["decls"].append(dict(base, name=p, kind="proc", node=top))
        elif chain in ("internal", "ifbody_proc", "absint_proc", "two_levels"):
            top = node(p, "routine", with_use=(chain == "two_levels" or rng.random() < 0.3))
            child = node(q if chain in ("internal", "two_levels") else e,
                         {"internal": "routine", "two_levels": "routine", "ifbody_proc": "ifbody", "absint_proc": "absbody"}[chain])
            add_refs(top, []); add_refs(child, [top])
            top["children"].append(child)
            u["decls"].append(dict(base, name=p, kind="proc", node=top))
        elif chain == "internal_ifbody":
            top = node(p, "routine", with_use=rng.random() < 0.3)
            mid = node(q, "routine", with_use=rng.random() < 0.5)
            leaf = node(e, "ifbody")
            add_refs(top, []); add_refs(mid, [top]); add_refs(leaf, [top, mid])
            mid["children"].append(leaf); top["children"].append(mid)
            u["decls"].append(dict(base, name=p, kind="proc", node=top))
        elif chain == "ifbody_mod":
            top = node(e, "ifbody"); add_refs(top, [])
            u["decls"].append(dict(base, name=e, kind="iface", node=top))
        elif chain == "absint_mod":
            top = node(e, "absbody"); add_refs(top, [])
            u["decls"].append(dict(base, name=e, kind="abs", node=top))
        elif chain == "generic_body":
            top = node(e, "genbody"); add_refs(top, [])
            g = f"n{tag}{k}g"
            u["decls"].append(dict(base, name=g, kind="generic", body=top))
            u["decls"].append(dict(base, name=e, kind="proc", in_generic=g))
    fix_perms(rng, {"default": u["default"], "decls": [d for d in u["decls"] if d["how"] is None]})


def nested_nodes(u):
    """flat list of (path, kinds, node) of all nested scopes of a unit, hosts before their children"""
    out = []

    def walk(nd, path, kinds):
        path, kinds = path + [nd["name"]], kinds + [nd["kind"]]
        out.append((path, kinds, nd))
        for c in nd["children"]:
            walk(c, path, kinds)
    for d in u["decls"]:
        if d.get("node"):
            walk(d["node"], [], [])
        if d.get("body"):
            walk(d["body"], [d["name"]], ["genblock"])
    return out


def share_statement(rng, units):
    """two (or three) scopes share a non-ONLY statement text for one module, their companion renames differ:
    each of them gets `use X` plus `use X, only: <fresh> => <a name of X>` with a different name of X"""
    mods = [u for u in units if u["unit"] == "module"]
    cands = [(i, m) for i, m in enumerate(mods[:-1]) if len(guess_exports(units, m["name"])) >= 2]
    if not cands:
        return
    i, x = rng.choice(cands)
    users = [u for u in units[units.index(x) + 1:] if not any(y["target"].lower() == x["name"].lower() for y in all_uses(u))]
    if len(users) < 2:
        return
    users = rng.sample(users, min(len(users), rng.choice([2, 2, 3])))
    names = sorted(guess_exports(units, x["name"]))
    rng.shuffle(names)
    pre = rng.choice(["", "::", "non_intrinsic"])
    for k, u in enumerate(users):
        n = names[k % len(names)]
        shared = {"target": x["name"], "only": None, "renames": [], "prefix": pre}
        comp = {"target": x["name"], "only": [[f"s{u['name'][-1]}{k}", n]], "renames": [], "prefix": ""}
        if rng.random() < 0.3:
            comp = {"target": x["name"], "only": None, "renames": comp["only"], "prefix": ""}
        scopes = [u] + [nd for _, _, nd in nested_nodes(u) if nd["kind"] == "routine"]
        sc = rng.choice(scopes)
        pair = [shared, comp] if rng.random() < 0.5 else [comp, shared]
        sc["uses"] += pair


def gen_blockdata(rng, units):
    """a block data unit (FortranBlockData.correlate has a USE loop of its own): one USE statement per used
    module, any spelling incl. the module natures, and variables of use-associated types"""
    mods = [u for u in units if u["unit"] == "module"]
    b = {"name": "bdat", "unit": "blockdata", "default": "public", "explicit_default": False,
         "decls": [], "access": [], "uses": [], "calls": []}
    counter = [0]
    for m in rng.sample(mods, rng.randint(1, min(2, len(mods)))):
        b["uses"] += gen_use(rng, units, m["name"], rng.choice(["plain", "only", "only_rename", "prefix"]), "y", counter, {})
    if rng.random() < 0.6:
        b["uses"].insert(rng.randint(0, len(b["uses"])),
                         {"target": rng.choice(["iso_fortran_env", "iso_c_binding"]), "only": None, "renames": [],
                          "prefix": rng.choice(["intrinsic", "intrinsic", ""])})
    i = 0
    for n, kind in sorted(guess_imports(units, b).items()):
        if kind == "type" and rng.random() < 0.7:
            i += 1
            b["decls"].append({"name": f"vy{i}", "kind": "var", "perm": "public", "how": "default",
                               "ref": {"what": "type", "id": n}, "function": False})
    b["decls"].append({"name": "vy0", "kind": "var", "perm": "public", "how": "default", "ref": None, "function": False})
    return b


def gen_program(rng, units, forms, knobs):
    mods = [u for u in units if u["unit"] == "module"]
    p = {"name": "main", "unit": "program", "default": "public", "explicit_default": False,
         "decls": [], "access": [], "uses": [], "calls": []}
    counter = [0]
    k = rng.randint(1, min(3, len(mods)))
    for m in rng.sample(mods, k):
        p["uses"] += gen_use(rng, units, m["name"], rng.choice(forms), "z", counter, knobs)
    imp = guess_imports(units, p)
    # also reference names that should NOT be visible (private entities, hidden remote names)
    extra = {}
    for m in mods:
        for d in m["decls"]:
            if rng.random() < 0.3:
                extra.setdefault(d["name"].lower(), d["kind"])
    for us in p["uses"]:
        for l, r in (us["only"] if us["only"] is not None else us["renames"]):
            for m in mods:
                for d in m["decls"]:
                    if d["name"].lower() == r.lower():
                        extra.setdefault(r.lower(), d["kind"])
    pool = dict(extra)
    pool.update(imp)
    i = 0
    for n, kind in sorted(pool.items()):
        if rng.random() < 0.25:
            continue
        i += 1
        if kind == "type":
            p["decls"].append({"name": f"vz{i}", "kind": "var", "perm": "public", "how": "default",
                               "ref": {"what": "type", "id": n}, "function": False})
            if rng.random() < 0.3:
                p["decls"].append({"name": f"tz{i}", "kind": "type", "perm": "public", "how": "default",
                                   "ref": {"what": "extends", "id": n}, "function": False})
        elif kind == "abs":
            p["decls"].append({"name": f"vz{i}", "kind": "var", "perm": "public", "how": "default",
                               "ref": {"what": "procptr", "id": n}, "function": False})
        elif kind in ("proc", "generic"):
            p["calls"].append(n)
    return p


# ----------------------------------------------------------------------------- rendering
def render_use(us):
    pre = {"": "use ", "::": "use :: ", "intrinsic": "use, intrinsic :: ", "non_intrinsic": "use, non_intrinsic :: "}[us["prefix"]]
    line = pre + us["target"]

    def item(l, r):
        return l if l == r else f"{l} => {r}"
    if us["only"] is not None:
        line += ", only: " + ", ".join(item(l, r) for l, r in us["only"])
        line = line.rstrip()
    elif us["renames"]:
        line += ", " + ", ".join(item(l, r) for l, r in us["renames"])
    return line


def render_unit(u):
    L = []
    kw = {"blockdata": "block data"}.get(u["unit"], u["unit"])
    L.append(f"{kw} {u['name']}")
    for us in u["uses"]:
        L.append("  " + render_use(us))
    L.append("  implicit none")
    if u["unit"] == "module" and u["explicit_default"]:
        L.append("  " + u["default"])
    stm = {"public": [], "private": []}
    for n, pub in u["access"]:
        stm["public" if pub else "private"].append(n)
    for d in u["decls"]:
        if d["how"] == "stmt":
            stm[d["perm"]].append(d["name"])
    for p in ("public", "private"):
        if stm[p]:
            L.append(f"  {p} :: " + ", ".join(stm[p]))
    for d in u["decls"]:
        attr = f", {d['perm']}" if d["how"] == "attr" else ""
        ref = d.get("ref")
        if d["kind"] == "var":
            if ref and ref["what"] == "type":
                L.append(f"  type({ref['id']}){attr} :: {d['name']}")
            elif ref and ref["what"] == "procptr":
                L.append(f"  procedure({ref['id']}), pointer{attr} :: {d['name']}")
            else:
                L.append(f"  integer{attr} :: {d['name']}")
        elif d["kind"] == "type":
            ext = f", extends({ref['id']})" if ref and ref["what"] == "extends" else ""
            L.append(f"  type{attr}{ext} :: {d['name']}")
            L.append("    integer :: c")
            L.append(f"  end type {d['name']}")
        elif d["kind"] == "generic" and d.get("body"):
            L.append(f"  interface {d['name']}")
            L += render_node(d["body"], "    ")
            L.append("  end interface")
        elif d["kind"] == "generic":
            L.append(f"  interface {d['name']}")
            L.append(f"    module procedure {d['name']}s")
            L.append("  end interface")
        elif d["kind"] == "abs" and d.get("node"):
            L.append("  abstract interface")
            L += render_node(d["node"], "    ")
            L.append("  end interface")
        elif d["kind"] == "abs":
            L.append("  abstract interface")
            L.append(f"    subroutine {d['name']}()")
            L.append(f"    end subroutine {d['name']}")
            L.append("  end interface")
        elif d["kind"] == "iface":
            L.append("  interface")
            L += render_node(d["node"], "    ")
            L.append("  end interface")
    for c in u["calls"]:
        L.append(f"  call {c}()")
    procs = [d for d in u["decls"] if d["kind"] == "proc" and not d.get("in_generic")]
    if procs:
        L.append("contains")
        for d in procs:
            if d.get("node"):
                L += render_node(d["node"], "  ")
            elif d.get("specific_of"):
                L.append(f"  subroutine {d['name']}(a)")
                L.append("    integer :: a")
                L.append(f"  end subroutine {d['name']}")
            elif d["function"]:
                L.append(f"  integer function {d['name']}()")
                L.append(f"    {d['name']} = 1")
                L.append(f"  end function {d['name']}")
            else:
                L.append(f"  subroutine {d['name']}()")
                L.append(f"  end subroutine {d['name']}")
    L.append(f"end {kw} {u['name']}")
    return "\n".join(L) + "\n"


def render_node(nd, ind):
    """a nested scope: a subroutine (module / internal procedure, or the body of an interface) with its USE
    statements, declarations referencing use-associated names, calls, interface blocks and internal procedures"""
    body = nd["kind"] != "routine"
    args = [r["var"] for r in nd["refs"] if r["what"] != "call"] if body else []
    L = [f"{ind}subroutine {nd['name']}({', '.join(args)})"]
    for us in nd["uses"]:
        L.append(f"{ind}  " + render_use(us))
    for r in nd["refs"]:
        if r["what"] == "type":
            L.append(f"{ind}  type({r['id']}) :: {r['var']}")
        elif r["what"] == "procptr":
            L.append(f"{ind}  procedure({r['id']}){'' if body else ', pointer'} :: {r['var']}")
    for c in nd["children"]:
        if c["kind"] in ("ifbody", "absbody"):
            L.append(f"{ind}  {'abstract ' if c['kind'] == 'absbody' else ''}interface")
            L += render_node(c, ind + "    ")
            L.append(f"{ind}  end interface")
    for r in nd["refs"]:
        if r["what"] == "call":
            L.append(f"{ind}  call {r['id']}()")
    inner = [c for c in nd["children"] if c["kind"] == "routine"]
    if inner:
        L.append(f"{ind}contains")
        for c in inner:
            L += render_node(c, ind + "  ")
    L.append(f"{ind}end subroutine {nd['name']}")
    return L


def render_files(units):
    """one file per unit: {relative path: text}, and the map unit name -> path"""
    files, where = {}, {}
    for u in units:
        rel = f"src/{u['name']}.f90"
        files[rel] = render_unit(u)
        where[u["name"]] = rel
    return files, where


# ----------------------------------------------------------------------------- Coq terms
def cs(x):
    assert all(32 <= ord(c) < 127 for c in x), repr(x)
    return '(s "' + x.replace('"', '""') + '")'


def cpairs(l):
    return "[" + "; ".join(f"({cs(a)}, {cs(b)})" for a, b in l) + "]"


def coq_uses(uses):
    return "[" + "; ".join(
        "{} {} {} {}".format("Ui" if x["prefix"] == "intrinsic" else "U", cs(x["target"]),
                             "None" if x["only"] is None else f"(Some {cpairs(x['only'])})",
                             cpairs(x["renames"])) for x in uses) + "]"


def coq_module(u):
    def kind(d):
        # a procedure pointer declared in a module is also an entry of the module's procedure
        # dictionaries (FortranModule._cleanup); in a program it is a plain variable
        if d["kind"] == "var" and (d.get("ref") or {}).get("what") == "procptr" and u["unit"] == "module":
            return "KProcPtr"
        return COQ_KIND[d["kind"]]
    ds = "[" + "; ".join(f"D {cs(d['name'])} {kind(d)} {COQ_PERM[d['perm']]}" for d in u["decls"]) + "]"
    acc = "[" + "; ".join(f"({cs(n)}, {'true' if p else 'false'})" for n, p in u["access"]) + "]"
    us = coq_uses(u["uses"])
    ns = []
    for path, kinds, nd in nested_nodes(u):
        if kinds and kinds[0] == "genblock":
            # the generic block itself is not a scope: the body is a child of the module
            cpath, ckinds = path[1:], kinds[1:]
        else:
            cpath, ckinds = path, kinds
        locs = "[" + "; ".join(f"D {cs(r['var'])} KVar Public" for r in nd["refs"] if r["what"] != "call") + "]"
        ns.append("Ns %s [%s] %s %s" % (coq_strs(cpath), "; ".join(COQ_NKIND[k] for k in ckinds), locs, coq_uses(nd["uses"])))
    return f"Md {cs(u['name'])} {COQ_PERM[u['default']]} {ds} {acc} {us} [{'; '.join(ns)}]"


def coq_graph(units):
    return "[" + ";\n  ".join(coq_module(u) for u in units) + "]"


def coq_table(tab):
    """tab: list of (key, (module, name))"""
    return "[" + "; ".join(f"({cs(k)}, ({cs(m)}, {cs(n)}))" for k, (m, n) in tab) + "]"


def coq_strs(l):
    return "[" + "; ".join(cs(x) for x in l) + "]"


def coq_obs(obs):
    """obs = {"units": [{"name","is_module","pub":[4 tables],"all":[4 tables]}], "refs": [{"unit","cls","id","ent"}]}"""
    units = []
    for o in obs["units"]:
        units.append("Ob %s %s [%s] [%s]" % (
            cs(o["name"]), "true" if o["is_module"] else "false",
            "; ".join(coq_table(t) for t in o["pub"]), "; ".join(coq_table(t) for t in o["all"])))
    refs = []
    for f in obs["refs"]:
        e = "None" if f["ent"] is None else f"(Some ({cs(f['ent'][0])}, {cs(f['ent'][1])}))"
        refs.append("Rf %s %s %s %s %s" % (cs(f["unit"]), coq_strs(f.get("path", [])), f["cls"], cs(f["id"]), e))
    nested = []
    for q in obs.get("nested", []):
        nested.append("Nb %s %s [%s]" % (cs(q["unit"]), coq_strs(q["path"]), "; ".join(coq_table(t) for t in q["all"])))
    return "([%s],\n    [%s],\n    [%s])" % (";\n     ".join(units), "; ".join(refs), ";\n     ".join(nested))


def coq_case(units, groups):
    """groups: list of (obs or None for an exception, [(files, order)]); observations are shared by
    the runs that produced identical output"""
    lets, runs = [], []
    for k, (obs, members) in enumerate(groups):
        if obs is None:
            runs += [f"RX {coq_strs(files)}" for files, _ in members]
        else:
            lets.append(f"let o{k} := {coq_obs(obs)} in")
            lets.append(f"let b{k} := {coq_binds(obs.get('binds', []))} in")
            runs += [f"Rb {coq_strs(files)} {coq_strs(order)} ext b{k} o{k}" for files, order in members]
    lets.insert(0, f"let ext := {coq_strs(EXTERNAL_NAMES)} in")
    return "(%s\n  (%s,\n  [%s]))" % ("\n  ".join(lets), coq_graph(units), ";\n   ".join(runs))


def coq_binds(binds):
    return "[" + "; ".join("Bn {} {} {} {} {} {}".format(cs(b["unit"]), coq_strs(b["path"]), cs(b["target"]),
                                                          "true" if b["intr"] else "false", b["kind"], cs(b["name"]))
                           for b in binds) + "]"


def permutations_of(names, limit=None):
    ps = itertools.permutations(names)
    return list(itertools.islice(ps, limit)) if limit else list(ps)
