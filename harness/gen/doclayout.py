"""Documented statement sequences in the four marker styles (C03, reader half)."""
STMTS = ["integer :: x", "subroutine s(a, b)", "end subroutine s", "type :: t", "real(8), intent(in) :: a",
         "call f('it''s ! not a comment')", "module m", "x = 1", "use iso_c_binding", "procedure :: p => q",
         "print *, \"a !! b\"", "function f(x) result(r)"]
# statements whose character literal is continued over several lines: (physical lines, the statement)
ML_STMTS = [(["call g('long &", "&text')"], "call g('long text')"),
            (["print *, 'a !! b &", "  &c ! d' // \"e\""], "print *, 'a !! b c ! d' // \"e\""),
            (["character(len=9) :: s = \"it's &", "   &so\""], "character(len=9) :: s = \"it's so\""),
            (["x = 'a&", "&b&", "&c'"], "x = 'abc'")]
WORDS = ["alpha", "beta", "gamma", "delta", "it's", "a \"quoted\" word", "x ! y", "100%", "end module", "@note hm",
         "- item", "`code`", "  indented", "trailing  ", "!", "!!", ">", "*", "|"]
MARKSETS = [("!", ">", "*", "|"), ("!", ">", "*", "|"), ("!", ">", "*", "|"), ("^", "<", "~", "#"), ("!", "", "", ""),
            ("!", ">", "", ""), ("d", "p", "D", "P"), ("!!", ">", "*", "|"), ("<", ">", "", "|")]


def gen_docs(rng, uid, long=0.0):
    """documentation texts with a unique tracer word each; with probability `long` a text is filled with further
    unique words up to a width of 70..115 columns"""
    n = rng.choice([1, 1, 2, 3])
    out = []
    for i in range(n):
        d = " " + f"w{uid}_{i} " + rng.choice(WORDS)
        if rng.random() < long:
            width, j = rng.randint(70, 115), 0
            while len(d) < width:
                d += f" f{uid}_{i}_{j}" + rng.choice(["", "", "x", "-", "."])
                j += 1
        out.append(d)
    return out


FIXED_COMMENT_COLUMNS = [1, 2, 3, 4, 6, 7, 9]     # blanks before the '!' of an indented comment line (5 = continuation)


def to_fixed(rng, lines):
    """the same documented statements as a fixed-form file: statements from column 7 on, comment lines (documentation
    included) with their '!' in column 1 or indented by 1-4 or 6+ blanks, blank lines as they are"""
    out = []
    for l in lines:
        s = l.strip()
        if not s:
            out.append(l)
        elif s.startswith("!"):
            k = 0 if rng.random() < 0.15 else rng.choice(FIXED_COMMENT_COLUMNS)
            out.append(" " * k + l.lstrip())
        else:
            k = rng.choice([6, 6, 8, 9])
            if k + len(l.strip()) > 72:
                k = 6
            assert k + len(l.strip()) <= 72, l
            out.append(" " * k + l.strip())
    return out


def gen_case_fixed(rng, long=0.6):
    """-> (marks, fixed-form lines, items, shapes, widest indented documentation line)"""
    marks, lines, items, shapes = gen_case(rng, fixed=True, long=long)
    flines = to_fixed(rng, lines)
    wide = max([len(l) for l in flines if l.startswith(" ") and l.lstrip().startswith("!")], default=0)
    return marks, flines, items, shapes, wide


def forced_fixed_case(rng, style):
    """one statement documented in the given style ('doc', 'pre', 'alt', 'prealt') with indented documentation lines
    wider than 72 columns (default markers) -> (marks, fixed-form lines, items)"""
    def long_doc(tag, i):
        d, j = f" {tag}_{i} starts", 0
        width = rng.randint(80, 118)
        while len(d) < width:
            d += f" {tag}{i}w{j}"
            j += 1
        return d
    tag = f"z{rng.randrange(1000)}"
    docs = [long_doc(tag, 0), long_doc(tag, 1)]
    ind = " " * rng.choice([1, 2, 3, 4, 6, 8])
    st = rng.choice(["integer :: x", "real(8), intent(in) :: a", "type :: t"])
    stl = "      " + st
    if style == "doc":
        lines, items = [stl, f"{ind}!!{docs[0]}", f"{ind}!!{docs[1]}"], [(st, [], docs)]
    elif style == "pre":
        lines, items = [f"{ind}!>{docs[0]}", f"{ind}!>{docs[1]}", stl], [(st, docs, [])]
    elif style == "alt":
        lines, items = [stl, f"{ind}!*{docs[0]}", f"{ind}!{docs[1]}", ""], [(st, [], docs)]
    else:
        lines, items = [f"{ind}!|{docs[0]}", f"{ind}!{docs[1]}", stl], [(st, docs, [])]
    lines = ["      module m"] + lines + ["      end module m"]
    items = [("module m", [], [])] + items + [("end module m", [], [])]
    return ("!", ">", "*", "|"), lines, items


def gen_case(rng, fixed=False, long=0.0):
    """-> (marks, lines, items, shapes); items = [(statement, docs written before it, docs written after it)].
    fixed: only what can be re-indented into a fixed-form file by to_fixed (no free-form continuation; a statement
    line with its inline documentation stays within 72 columns); long: see gen_docs.
    A blank line does not end a pre-alt block (shape "blank_in_prealt": a comment line after a blank line inside the
    block is documentation too); it does end an alt block."""
    marks = rng.choice(MARKSETS)
    doc, pre, alt, prealt = marks
    items, lines = [], []
    shapes = set()
    uid = 0
    alt_open = False      # the previous item ended with an alternate block that no blank line has closed

    def pre_block(ind):
        nonlocal uid
        uid += 1
        docs = gen_docs(rng, uid, long)
        mixed = rng.random() < 0.4     # the pre-marker is only required on the first line
        for i, d in enumerate(docs):
            lines.append(f"{ind}!{pre}{d}" if (i == 0 or not mixed) else f"{ind}!{doc}{d}")
            if i + 1 < len(docs) and rng.random() < 0.15:
                lines.append(rng.choice(["", ind + "! ordinary, inside the block"]))
        while rng.random() < 0.25:
            lines.append(rng.choice(["", "  ", ind + "! ordinary"]))
        return docs

    def prealt_block(ind):
        nonlocal uid
        uid += 1
        docs = gen_docs(rng, uid, long)
        for i, d in enumerate(docs):
            lines.append(f"{ind}!{prealt}{d}" if i == 0 else f"{ind}!{d}")
        while rng.random() < 0.25:
            lines.append(rng.choice(["", "   "]))
        if rng.random() < 0.15:
            uid += 1
            late = f" w{uid}_late after a blank line"
            lines.append(rng.choice(["", "  "]))
            lines.append(f"{ind}!{late}")
            docs = docs + [late]
            shapes.add("blank_in_prealt")
            while rng.random() < 0.25:
                lines.append("")
        return docs

    nitems = rng.choice([1, 2, 3, 5])
    for k in range(nitems):
        st = rng.choice(STMTS)
        ind = " " * rng.choice([0, 2, 4])
        head = []           # the lines before the last one of a statement continued inside a literal
        if rng.random() < 0.2 and not fixed:
            phys, st_full = rng.choice(ML_STMTS)
            for h in phys[:-1]:
                head.append(ind + h)
                while rng.random() < 0.3:
                    head.append(rng.choice(["", ind + "! an ordinary comment", "! it's one \" more"]))
            st = phys[-1]
        else:
            st_full = st
        pre_lines, post_lines = [], []
        # preceding documentation: nothing, one block of either kind, or two blocks
        r = rng.random()
        if r < 0.22 and pre:
            pre_lines = pre_block(ind)
        elif r < 0.44 and prealt:
            pre_lines = prealt_block(ind)
        elif r < 0.52 and pre and prealt:
            shapes.add("two_pre_blocks")
            if rng.random() < 0.5:
                pre_lines = pre_block(ind)
                pre_lines = pre_lines + prealt_block(ind)
            else:
                pre_lines = prealt_block(ind)
                pre_lines = pre_lines + pre_block(ind)
        if alt_open and pre_lines == [] and head == []:
            shapes.add("alt_block_ended_by_statement")
        elif alt_open:
            shapes.add("alt_block_ended_by_marked_line")
        alt_open = False
        # the statement, with following documentation
        lines += head
        r = rng.random()
        if r < 0.25:
            uid += 1
            post_lines = gen_docs(rng, uid, long)
            if fixed:
                post_lines[0] = post_lines[0][:24].rstrip()      # the inline text stays within column 72
            lines.append(f"{ind}{st} !{doc}{post_lines[0]}")
            for d in post_lines[1:]:
                lines.append(f"{ind}  !{doc}{d}")
        elif r < 0.55:
            uid += 1
            post_lines = gen_docs(rng, uid, long)
            lines.append(ind + st)
            for d in post_lines:
                lines.append(f"{ind}  !{doc}{d}")
        elif r < 0.75 and alt:
            uid += 1
            post_lines = gen_docs(rng, uid, long)
            lines.append(ind + st)
            for i, d in enumerate(post_lines):
                lines.append(f"{ind}  !{alt}{d}" if i == 0 else f"{ind}  !{d}")
            if rng.random() < 0.5:
                lines.append("")
            else:
                # the block is ended by whatever comes next that is not a plain comment line
                alt_open = True
                items.append((st_full, pre_lines, post_lines))
                continue
        else:
            lines.append(ind + st + (rng.choice(["", " ! ordinary trailing comment", "   "])))
        while rng.random() < 0.3:
            lines.append(rng.choice(["", "   ", ind + "! an ordinary comment", "! another ; one &"]))
        items.append((st_full, pre_lines, post_lines))
    return marks, lines, items, shapes
