"""Documented statement sequences in the four marker styles (C03, reader half)."""
STMTS = ["integer :: x", "subroutine s(a, b)", "end subroutine s", "type :: t", "real(8), intent(in) :: a",
         "call f('it''s ! not a comment')", "module m", "x = 1", "use iso_c_binding", "procedure :: p => q",
         "print *, \"a !! b\"", "function f(x) result(r)"]
# statements whose character literal is continued over several lines: (physical lines, the statement)
ML_STMTS = [(["call g('long &", "&text')"], "call g('long text')"),
            (["print *, 'a !! b &", "  &c ! d' // \"e\""], "print *, 'a !! b c ! d' // \"e\""),
            (["character(len=9) :: s = \"it's &", "   &so\""], "character(len=9) :: s = \"it's so\""),
            (["x = 'a&", "&b&", "&c'"], "x = 'abc'")]
WORDS = ["alpha", "beta", "gamma", "delta", "it's", "a \"quoted\" word", "x ! y", "100%", "end module", "@note hm",
         "- item", "`code`", "  indented", "trailing  ", "!", "!!", ">", "*", "|"]
MARKSETS = [("!", ">", "*", "|"), ("!", ">", "*", "|"), ("!", ">", "*", "|"), ("^", "<", "~", "#"), ("!", "", "", ""),
            ("!", ">", "", ""), ("d", "p", "D", "P"), ("!!", ">", "*", "|"), ("<", ">", "", "|")]


def gen_docs(rng, uid):
    n = rng.choice([1, 1, 2, 3])
    return [" " + f"w{uid}_{i} " + rng.choice(WORDS) for i in range(n)]


def gen_case(rng):
    marks = rng.choice(MARKSETS)
    doc, pre, alt, prealt = marks
    items, lines = [], []
    uid = 0
    nitems = rng.choice([1, 2, 3, 5])
    for k in range(nitems):
        st = rng.choice(STMTS)
        ind = " " * rng.choice([0, 2, 4])
        head = []           # the lines before the last one of a statement continued inside a literal
        if rng.random() < 0.2:
            phys, st_full = rng.choice(ML_STMTS)
            for h in phys[:-1]:
                head.append(ind + h)
                while rng.random() < 0.3:
                    head.append(rng.choice(["", ind + "! an ordinary comment", "! it's one \" more"]))
            st = phys[-1]
        else:
            st_full = st
        pre_lines, post_lines = [], []
        # preceding documentation
        r = rng.random()
        if r < 0.25 and pre:
            uid += 1
            pre_lines = gen_docs(rng, uid)
            mixed = rng.random() < 0.4     # the pre-marker is only required on the first line
            for i, d in enumerate(pre_lines):
                lines.append(f"{ind}!{pre}{d}" if (i == 0 or not mixed) else f"{ind}!{doc}{d}")
            while rng.random() < 0.25:
                lines.append(rng.choice(["", "  ", ind + "! ordinary"]))
        elif r < 0.5 and prealt:
            uid += 1
            pre_lines = gen_docs(rng, uid)
            for i, d in enumerate(pre_lines):
                lines.append(f"{ind}!{prealt}{d}" if i == 0 else f"{ind}!{d}")
            while rng.random() < 0.25:
                lines.append(rng.choice(["", "   "]))
        # the statement, with following documentation
        lines += head
        r = rng.random()
        if r < 0.25:
            uid += 1
            post_lines = gen_docs(rng, uid)
            lines.append(f"{ind}{st} !{doc}{post_lines[0]}")
            for d in post_lines[1:]:
                lines.append(f"{ind}  !{doc}{d}")
        elif r < 0.55:
            uid += 1
            post_lines = gen_docs(rng, uid)
            lines.append(ind + st)
            for d in post_lines:
                lines.append(f"{ind}  !{doc}{d}")
        elif r < 0.75 and alt:
            uid += 1
            post_lines = gen_docs(rng, uid)
            lines.append(ind + st)
            for i, d in enumerate(post_lines):
                lines.append(f"{ind}  !{alt}{d}" if i == 0 else f"{ind}  !{d}")
            lines.append("")
        else:
            lines.append(ind + st + (rng.choice(["", " ! ordinary trailing comment", "   "])))
        while rng.random() < 0.3:
            lines.append(rng.choice(["", "   ", ind + "! an ordinary comment", "! another ; one &"]))
        items.append((st_full, pre_lines, post_lines))
    return marks, lines, items
