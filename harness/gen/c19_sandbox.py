"""Sandbox trees and scenarios for C19: placements of output_dir / graph_dir x options that copy or
write files.  A sandbox is  <tmp>/a/b/sb  (three levels below the temp dir, so that a broken
FORD that deletes a parent of the output directory still stays inside the temp dir):

  sb/proj/            the project directory (proj.md, src/, pages/, media/, user.css, ...)
  sb/other/           bystander files that no run may touch
  sb/elsewhere/       targets of absolute / symlinked placements (with stale content)
  sb/shared/          a directory next to the project (the copy_subdir escape copies it)
"""
import os
import pathlib

from harness.gen import program as G

MTIME0 = 1_600_000_000

SRC_SMALL = {
    "src/m.f90": "module m\n  !! doc of m\n  integer :: x\ncontains\n  subroutine s()\n    call t()\n"
                 "  end subroutine\n  subroutine t()\n  end subroutine\nend module\n",
    "src/sub/p.f90": "program p\n  !! main\n  use m\n  call s()\nend program\n",
}


def base_files(rng, fortran=None):
    files = {}
    for rel, text in (fortran or SRC_SMALL).items():
        files["proj/" + rel] = text
    files.update({
        "proj/pages/index.md": "---\ntitle: Pages\n{TOPMETA}---\nhello pages\n",
        "proj/pages/pic.png": "PNG%d" % rng.randrange(10 ** 6),
        "proj/pages/sub/index.md": "---\ntitle: Sub\n{SUBMETA}---\nsub text\n",
        "proj/pages/sub/a.md": "---\ntitle: A\n---\na text\n",
        "proj/pages/sub/extra.txt": "extra",
        "proj/pages/sub/data/d.txt": "d%d" % rng.randrange(10 ** 6),
        "proj/pages/sub/data/deep/e.txt": "e",
        "proj/pages/img/i.png": "IMG",
        "proj/media/logo.png": "LOGO%d" % rng.randrange(10 ** 6),
        "proj/media/m2/x.txt": "x",
        "proj/user.css": "body { color: #%06d; }\n" % rng.randrange(10 ** 6),
        "proj/fav.png": "FAV",
        "proj/conf/mj.js": "// mathjax %d\n" % rng.randrange(10 ** 6),
        "proj/notes.txt": "bystander inside the project\n",
        "other/keep.txt": "keep %d\n" % rng.randrange(10 ** 6),
        "other/deep/keep2.bin": "\x01\x02keep",
        "elsewhere/realout/stale.txt": "stale",
        "elsewhere/realout/old/index.html": "<old>",
        "elsewhere/greal/old.svg": "<svg/>",
        "shared/data/f.txt": "shared %d\n" % rng.randrange(10 ** 6),
        "note.md": "---\ntitle: Note\n---\nnote outside the page tree\n",
    })
    return files


def build(sb, files, links, dirs=()):
    """(re)create the sandbox with deterministic mtimes"""
    sb = pathlib.Path(sb)
    sb.mkdir(parents=True, exist_ok=True)
    for d in dirs:
        (sb / d).mkdir(parents=True, exist_ok=True)
    for rel, text in files.items():
        p = sb / rel
        p.parent.mkdir(parents=True, exist_ok=True)
        if isinstance(text, bytes):
            p.write_bytes(text)
        else:
            p.write_text(text)
    for link, target in links:
        p = sb / link
        p.parent.mkdir(parents=True, exist_ok=True)
        os.symlink(target, p)
    k = 0
    for root, dnames, fnames in os.walk(sb):
        for n in sorted(fnames):
            p = os.path.join(root, n)
            if not os.path.islink(p):
                k += 1
                os.utime(p, (MTIME0 + k, MTIME0 + k))


# ---------------------------------------------------------------------------- placements
# (name, output_dir as written, symlinks, extra files, extra dirs, src_dir list or None, must refuse)
def placements(sbs):
    """sbs: absolute path of the sandbox as a string (for absolute placements)"""
    P = []
    add = lambda *a: P.append(a)
    add("sibling", "./doc", [], {}, [], None, False)
    add("sibling-stale", "./doc", [], {"proj/doc/index.html": "<stale>", "proj/doc/src/old.f90": "module old\nend module\n",
                                     "proj/doc/lists/x.html": "x"}, [], None, False)
    add("nested-missing-ancestors", "./build/deep/html", [], {}, [], None, False)
    add("absolute", sbs + "/elsewhere/out_abs", [], {}, [], None, False)
    add("absolute-missing-ancestors", sbs + "/elsewhere/n1/n2/out", [], {}, [], None, False)
    add("dotdot-outside-project", "../outside_doc", [], {}, [], None, False)
    add("dotdot-inside", "./pages/../doc3", [], {}, [], None, False)
    add("dot-components", "././doc/./", [], {}, [], None, False)
    add("symlink-to-dir", "./lnk_out", [("proj/lnk_out", "../elsewhere/realout")], {}, [], None, False)
    add("below-symlink", "./lnk_dir/sub/out", [("proj/lnk_dir", "../elsewhere")], {}, [], None, False)
    add("existing-file", "./doc_file", [], {"proj/doc_file": "i am a file"}, [], None, False)
    add("empty-existing-dir", "./doc", [], {}, ["proj/doc"], None, False)
    add("below-src", "./src/doc", [], {"proj/src/doc/src/old.f90": "module leftover\nend module\n",
                                       "proj/src/doc/index.html": "<stale>"}, [], None, False)
    add("sibling-of-src-prefix-name", "./src2", [], {}, [], None, False)      # 'src' is a string prefix of 'src2'
    # ---- equal to / above a source directory: must refuse before deleting anything
    add("REFUSE-equal-src", "./src", [], {}, [], None, True)
    add("REFUSE-project-dir", ".", [], {}, [], None, True)
    add("REFUSE-parent-of-project", "..", [], {}, [], None, True)
    add("REFUSE-dotdot-to-src", "./src/sub/..", [], {}, [], None, True)
    add("REFUSE-absolute-sandbox", sbs, [], {}, [], None, True)
    add("REFUSE-symlink-to-src", "./lnk_src", [("proj/lnk_src", "src")], {}, [], None, True)
    add("REFUSE-symlink-to-project", "./lnk_proj/.", [("proj/lnk_proj", ".")], {}, [], None, True)
    add("REFUSE-above-second-src", "./src/sub", [], {}, [], ["./src/sub/", "./src"], True)
    add("REFUSE-src-through-symlink", "./src", [("proj/lnk_s", "src/sub")], {}, [], ["./lnk_s"], True)
    add("REFUSE-src-elsewhere", "../elsewhere", [], {"elsewhere/esrc/q.f90": "module q\nend module\n"}, [],
        ["./src", "../elsewhere/esrc"], True)
    return P


def graph_placements(sbs, out):
    return [None, None, "./graphs", "./build/g/raphs", sbs + "/elsewhere/graphs_abs", "../gout",
            ("./lnk_g", ("proj/lnk_g", "../elsewhere/greal")), out.rstrip("/") + "/graphs", out]


# symbolic links inside what a run copies (media_dir, copy_subdir directories, page files): absolute
# and relative with enough '..', to files and to directories outside the output directory, dangling
# with an existing parent directory (touch() through such a link would create the file), cycles
LINKS_IN_COPIED = [
    (("proj/media/lnk_abs", "@SB@/other/keep.txt"), False),
    (("proj/media/m2/lnk_rel", "../../../other/deep/keep2.bin"), False),
    (("proj/media/lnk_dangling", "../build/manual.pdf"), True),
    (("proj/media/lnk_dir", "../../other/deep"), False),
    (("proj/media/lnk_notes", "../notes.txt"), False),
    (("proj/pages/sub/data/lnk_file", "../../../../other/keep.txt"), False),
    (("proj/pages/sub/data/deep/lnk_dangling", "@SB@/proj/build/missing.bin"), True),
    (("proj/pages/sub/data/lnk_dir", "../../../../other"), False),
    (("proj/pages/img/lnk_src", "../../src/m.f90"), False),
    (("proj/pages/piclink.png", "../../other/keep.txt"), False),
]
LINK_CYCLES = [("proj/media/m2/loop", ".."), ("proj/pages/sub/data/deep/up", "../..")]


def link_set(rng):
    chosen = [x for x in LINKS_IN_COPIED if rng.random() < 0.5]
    links = [l for l, _ in chosen]
    if rng.random() < 0.12:
        links.append(rng.choice(LINK_CYCLES))
    return links, any(b for _, b in chosen)


def gen_fortran(rng):
    proj = G.gen_project(rng, {"nfiles": rng.choice([1, 2, 3]), "dirs": ["src", "src/sub"]})
    return G.render_project(proj)


def gen_scenario(rng, sbs, placement, simple=False):
    name, out, links, extra, dirs, srcs, refuse = placement
    links = list(links)
    opts = {"output_dir": out}
    if srcs:
        opts["src_dir"] = list(srcs)
    else:
        opts["src_dir"] = rng.choice([["./src"], ["./src"], ["./src/sub", "./src"], ["src/./"]])
    flip = (lambda p=0.5: rng.random() < p)
    if flip():
        opts["media_dir"] = rng.choice(["./media", sbs + "/proj/media", "./lnk_media", "./no_such_media"])
        if opts["media_dir"] == "./lnk_media":
            links.append(("proj/lnk_media", "media"))
    if flip():
        opts["css"] = rng.choice(["./user.css", "conf/../user.css"])
    if flip(0.4):
        opts["favicon"] = "./fav.png"
    if flip():
        opts["mathjax_config"] = rng.choice(["./conf/mj.js", sbs + "/proj/conf/mj.js"])
    opts["incl_src"] = rng.choice(["true", "true", "false"])
    opts["externalize"] = rng.choice(["true", "false"])
    opts["search"] = "true" if flip(0.35) else "false"
    topmeta = submeta = ""
    if flip(0.7):
        opts["page_dir"] = rng.choice(["./pages", "pages/", sbs + "/proj/pages"])
        r = rng.random()
        if r < 0.35:
            submeta = "copy_subdir: data\n"
        elif r < 0.5:
            submeta = "copy_subdir: data/deep\n"
        elif r < 0.6:
            submeta = "copy_subdir: ../img\n"          # stays below <out>/page
        elif r < 0.7:                                  # climbs out: must be skipped
            submeta = rng.choice(["copy_subdir: ../../../shared\n", "copy_subdir: data\n    ../../img\n",
                                  "copy_subdir: @SB@/shared\n"])
        if flip(0.3):
            topmeta = "copy_subdir: img\n"
        if flip(0.25):
            opts["copy_subdir"] = rng.choice([["img"], ["./pages/img", "nothing"]])   # project level
        if flip(0.2):
            topmeta += rng.choice(["ordered_subpage: sub\n", "ordered_subpage: sub/../../../note.md\n    sub\n",
                                   "ordered_subpage: sub/a.md\n", "ordered_subpage: ../media\n"])
    g = rng.choice(graph_placements(sbs, out))
    if g is not None and not simple:
        if isinstance(g, tuple):
            g, l = g
            links.append(l)
        opts["graph_dir"] = g
        opts["graph"] = rng.choice(["true", "true", "false"])
    else:
        opts["graph"] = "true" if flip(0.2) else "false"
    if flip(0.2):
        opts["exclude_dir"] = ["./src/skip"]
    dirs = list(dirs)
    if not refuse and flip(0.6):
        more, need_build = link_set(rng)
        links += more
        if need_build:
            dirs.append("proj/build")
    fortran = None if (simple or flip(0.6)) else gen_fortran(rng)
    return {"name": name, "opts": opts, "links": links, "extra": dict(extra), "dirs": list(dirs),
            "refuse": refuse, "topmeta": topmeta, "submeta": submeta, "fortran": fortran, "cli": {}}


def scenario_files(rng, sc):
    files = base_files(rng, sc["fortran"])
    files["proj/pages/index.md"] = files["proj/pages/index.md"].replace("{TOPMETA}", sc["topmeta"])
    files["proj/pages/sub/index.md"] = files["proj/pages/sub/index.md"].replace("{SUBMETA}", sc["submeta"])
    files.update(sc["extra"])
    return files
