"""Generators for the documentation-text half of C03: line-class sequences for the admonition
pre-processor and header/body line lists for meta_preprocessor."""
import itertools

TYPES = ["note", "warning", "todo", "bug", "history"]

# core alphabet (deep bounded-exhaustive layer): one representative per line class
CORE = ["alpha beta", "", "@note", "@note gamma", "@endnote", "pre @endnote post", "@warning wtxt", "@endwarning"]
# wide alphabet (shallow exhaustive layer + random bodies)
WIDE = CORE + [
    "txt @note after",            # text before the start marker (recorded defect)
    "@note a @endnote",           # box on one line
    "@note a @endnote tail",
    "@NOTE Up", "@EndNote", "@Bug b", "@endbug", "@todo", "@endtodo", "@history h", "@endhistory",
    "  @note ind", "  ind text", "  @endnote", "    @note four", "\t@note tab",
    "- item", "  - sub item", "1. first", "```", "    code line", "~~~",
    "  ", "x @endnote", "@endnote y", "@notes glued", "mail joe@notebook.org now", "a@endnote",
    "@endnote @note again", "@note one @note two", "@endnote @endnote", "@end", "@ note", "@endnotes",
]
WORDS = ["lorem", "ipsum", "dolor", "sit", "amet", "x1", "f(x)", "a,b", "**bold**", "`code`", "[[link]]", "3.14"]


def exhaustive(alpha, maxlen):
    for n in range(0, maxlen + 1):
        for seq in itertools.product(alpha, repeat=n):
            yield list(seq)


def rand_text(rng, n=None):
    return " ".join(rng.choice(WORDS) for _ in range(n or rng.randint(1, 5)))


def rand_line(rng):
    k = rng.random()
    ind = rng.choice(["", "", "", "  ", "    ", " "])
    ty = rng.choice(TYPES)
    tyw = rng.choice([ty, ty, ty.upper(), ty.capitalize()])
    if k < 0.30:
        return ind + rng.choice(["", "- ", "* ", "1. ", "> "]) + rand_text(rng)
    if k < 0.42:
        return ""
    if k < 0.56:
        return ind + "@" + tyw + rng.choice(["", "", " " + rand_text(rng), "  " + rand_text(rng)])
    if k < 0.68:
        return rng.choice(["", ind, rand_text(rng) + " "]) + "@end" + tyw + rng.choice(["", "", " " + rand_text(rng)])
    if k < 0.74:
        return ind + "@" + tyw + " " + rand_text(rng) + " @end" + tyw + rng.choice(["", " " + rand_text(rng)])
    if k < 0.80:
        return rng.choice(["```", "~~~", "    " + rand_text(rng), "```fortran"])
    if k < 0.86:
        return rand_text(rng) + " @" + tyw + " " + rand_text(rng)
    return rng.choice(WIDE)


def rand_body(rng, maxlen=14):
    return [rand_line(rng) for _ in range(rng.randint(1, maxlen))]


def structured_body(rng):
    """A mostly well-formed body: paragraphs, lists, code and boxes terminated in every way."""
    out = []
    for _ in range(rng.randint(1, 5)):
        k = rng.random()
        if k < 0.25:
            out += [rand_text(rng) for _ in range(rng.randint(1, 3))]
            out.append("")
        elif k < 0.4:
            out += [rng.choice(["- ", "* ", "1. "]) + rand_text(rng) for _ in range(rng.randint(1, 3))]
            out.append("")
        elif k < 0.5:
            out += ["```"] + [rand_text(rng) for _ in range(rng.randint(1, 2))] + ["```", ""]
        else:
            ty = rng.choice(TYPES)
            ind = rng.choice(["", "", "  "])
            out.append(ind + "@" + ty + rng.choice(["", " " + rand_text(rng)]))
            for _ in range(rng.randint(0, 3)):
                out.append(ind + rng.choice(["", "- "]) + rand_text(rng))
            term = rng.random()
            if term < 0.35:
                out.append(ind + "@end" + ty)
                if rng.random() < 0.5:
                    out.append("")
            elif term < 0.5:
                out.append(ind + rand_text(rng) + " @end" + ty + rng.choice(["", " " + rand_text(rng)]))
            elif term < 0.7:
                out.append("")
            # else: next item follows directly (next box or text), or end of body
    return out


# ---------------------------------------------------------------- metadata
META_ALPHA = [
    "author: me", "display: private", "Deprecated: true", "key-1_x:   v  ", "a:", "summary: one: two",
    "    more value", "     five", "\tnot more", "", "   ", "---", "...", "--- x", "....", "----",
    "   k: three", "    k: four", "http://x.org is nice", "key :v", "plain text", ": no key", "k:\tv",
    "note: looks like text", "@note box",
]
META_CORE = ["author: me", "Key: v", "    more", "", "---", "...", "plain text", "   k: three", "    k: four"]


def rand_meta_lines(rng):
    n = rng.randint(0, 8)
    return [rng.choice(META_ALPHA) if rng.random() < 0.8 else rand_line(rng) for _ in range(n)]
