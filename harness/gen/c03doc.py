"""Generators for the documentation-text half of C03: line-class sequences for the admonition
pre-processor and header/body line lists for meta_preprocessor."""
import itertools

TYPES = ["note", "warning", "todo", "bug", "history"]

# core alphabet (deep bounded-exhaustive layer): one representative per line class
CORE = ["alpha beta", "", "@note", "@note gamma", "@endnote", "pre @endnote post", "@warning wtxt", "@endwarning"]
# six classes for the deepest exhaustive layer (thorough tier, up to length 6)
CORE6 = ["alpha beta", "", "@note gamma", "@endnote", "pre @endnote post", "@warning wtxt"]
# wide alphabet (shallow exhaustive layer + random bodies)
WIDE = CORE + [
    "txt @note after",            # text before the start marker (recorded defect)
    "@note a @endnote",           # box on one line
    "@note a @endnote tail",
    "@NOTE Up", "@EndNote", "@Bug b", "@endbug", "@todo", "@endtodo", "@history h", "@endhistory",
    "  @note ind", "  ind text", "  @endnote", "    @note four", "\t@note tab",
    "- item", "  - sub item", "1. first", "```", "    code line", "~~~",
    "  ", "x @endnote", "@endnote y", "@notes glued", "mail joe@notebook.org now", "a@endnote",
    "@endnote @note again", "@note one @note two", "@endnote @endnote", "@end", "@ note", "@endnotes",
]
WORDS = ["lorem", "ipsum", "dolor", "sit", "amet", "x1", "f(x)", "a,b", "**bold**", "`code`", "[[link]]", "3.14"]


def exhaustive(alpha, maxlen):
    for n in range(0, maxlen + 1):
        for seq in itertools.product(alpha, repeat=n):
            yield list(seq)


def rand_text(rng, n=None):
    return " ".join(rng.choice(WORDS) for _ in range(n or rng.randint(1, 5)))


def rand_line(rng):
    k = rng.random()
    ind = rng.choice(["", "", "", "  ", "    ", " "])
    ty = rng.choice(TYPES)
    tyw = rng.choice([ty, ty, ty.upper(), ty.capitalize()])
    if k < 0.30:
        return ind + rng.choice(["", "- ", "* ", "1. ", "> "]) + rand_text(rng)
    if k < 0.42:
        return ""
    if k < 0.56:
        return ind + "@" + tyw + rng.choice(["", "", " " + rand_text(rng), "  " + rand_text(rng)])
    if k < 0.68:
        return rng.choice(["", ind, rand_text(rng) + " "]) + "@end" + tyw + rng.choice(["", "", " " + rand_text(rng)])
    if k < 0.74:
        return ind + "@" + tyw + " " + rand_text(rng) + " @end" + tyw + rng.choice(["", " " + rand_text(rng)])
    if k < 0.80:
        return rng.choice(["```", "~~~", "    " + rand_text(rng), "```fortran"])
    if k < 0.86:
        return rand_text(rng) + " @" + tyw + " " + rand_text(rng)
    return rng.choice(WIDE)


def rand_body(rng, maxlen=14):
    return [rand_line(rng) for _ in range(rng.randint(1, maxlen))]


def structured_body(rng):
    """A mostly well-formed body: paragraphs, lists, code and boxes terminated in every way."""
    out = []
    for _ in range(rng.randint(1, 5)):
        k = rng.random()
        if k < 0.25:
            out += [rand_text(rng) for _ in range(rng.randint(1, 3))]
            out.append("")
        elif k < 0.4:
            out += [rng.choice(["- ", "* ", "1. "]) + rand_text(rng) for _ in range(rng.randint(1, 3))]
            out.append("")
        elif k < 0.5:
            out += ["```"] + [rand_text(rng) for _ in range(rng.randint(1, 2))] + ["```", ""]
        else:
            ty = rng.choice(TYPES)
            ind = rng.choice(["", "", "  "])
            out.append(ind + "@" + ty + rng.choice(["", " " + rand_text(rng)]))
            for _ in range(rng.randint(0, 3)):
                out.append(ind + rng.choice(["", "- "]) + rand_text(rng))
            term = rng.random()
            if term < 0.35:
                out.append(ind + "@end" + ty)
                if rng.random() < 0.5:
                    out.append("")
            elif term < 0.5:
                out.append(ind + rand_text(rng) + " @end" + ty + rng.choice(["", " " + rand_text(rng)]))
            elif term < 0.7:
                out.append("")
            # else: next item follows directly (next box or text), or end of body
    return out


# ---------------------------------------------------------------- metadata
META_ALPHA = [
    "author: me", "display: private", "Deprecated: true", "key-1_x:   v  ", "a:", "summary: one: two",
    "    more value", "     five", "\tnot more", "", "   ", "---", "...", "--- x", "....", "----",
    "   k: three", "    k: four", "http://x.org is nice", "key :v", "plain text", ": no key", "k:\tv",
    "note: looks like text", "@note box",
]
META_CORE = ["author: me", "Key: v", "    more", "", "---", "...", "plain text", "   k: three", "    k: four"]


def rand_meta_lines(rng):
    n = rng.randint(0, 8)
    return [rng.choice(META_ALPHA) if rng.random() < 0.8 else rand_line(rng) for _ in range(n)]


# ---------------------------------------------------------------- end-to-end: projects with tracer words
class DocGen:
    """Documentation bodies with a unique tracer word sequence per entity.
    Tracer words are `tw<entity>a<n>`; metadata values are `mv<entity>a<n>` (must never be shown)."""

    META_KEYS = ["author", "version", "since", "category", "license", "date"]

    def __init__(self, rng, knobs=None):
        self.rng = rng
        self.eid = 0
        self.knobs = knobs or {}

    def new_entity(self):
        self.eid += 1
        self.n = 0
        self.mn = 0
        self.inside = []           # words that must be rendered inside a box (first paragraph of a top-level box)
        self.after = []            # words that must be rendered outside every box (paragraph after an end marker)
        return self.eid

    def w(self, k=None):
        out = []
        for _ in range(k or self.rng.randint(1, 4)):
            self.n += 1
            out.append(f"tw{self.eid}a{self.n}")
        return " ".join(out)

    def mv(self):
        self.mn += 1
        return f"mv{self.eid}a{self.mn}"

    def box(self, last):
        rng = self.rng
        ty = rng.choice(TYPES)
        tyw = rng.choice([ty, ty, ty, ty.upper(), ty.capitalize()])
        lines = ["@" + tyw + rng.choice(["", "", " " + self.w()])]
        open_par = True            # still in the box's first paragraph (no empty line yet)
        for _ in range(rng.randint(0, 3)):
            k = rng.random()
            if k < 0.6:
                lines.append(self.w())
            elif k < 0.8:
                lines.append("- " + self.w())
            else:
                if rng.random() < 0.5:
                    lines.append("")
                    open_par = False
                lines.append(self.w())
            if open_par:
                self.inside += self.words_of(lines[-1:])
        term = rng.choice(["end", "end", "endpre", "endpost", "blank", "next", "eof" if last else "next"])
        endw = "@end" + rng.choice([ty, ty, ty.upper()])
        if term == "end":
            lines.append(endw)
        elif term == "endpre":
            lines.append(self.w(2) + " " + endw)
        elif term == "endpost":
            lines.append(endw + " " + self.w(2))
        elif term == "blank":
            lines.append("")
        return lines, term

    def body(self):
        """(lines, kinds) — kinds lists the block kinds used (for the evidence distribution)."""
        rng = self.rng
        nblocks = rng.choice([1, 1, 2, 3, 4])
        lines, kinds = [], []
        prev_open = False          # previous block was a box without terminator
        for b in range(nblocks):
            last = b == nblocks - 1
            k = rng.random()
            if k < 0.45:
                bl, term = self.box(last)
                lines += bl
                kinds.append("box:" + term)
                prev_open = term in ("next", "eof")
                if term in ("end", "endpre", "endpost") and rng.random() < 0.6:
                    lines.append("")
                continue
            if prev_open and rng.random() < 0.5:
                lines.append("")
            prev_open = False
            if k < 0.65:
                first = len(lines)
                lines += [self.w() for _ in range(rng.randint(1, 3))]
                kinds.append("para")
                if kinds[-2:-1] and kinds[-2] in ("box:end", "box:endpre", "box:endpost"):
                    # a paragraph right after a box closed by its end marker stays outside the box
                    self.after += self.words_of(lines[first:])
            elif k < 0.75:
                mark = rng.choice(["- ", "* ", "+ "])
                lines += [""] + [mark + self.w() for _ in range(rng.randint(1, 3))]
                kinds.append("bullets")
            elif k < 0.83:
                lines += [""] + [f"{i + 1}. " + self.w() for i in range(rng.randint(1, 3))]
                kinds.append("numbered")
            elif k < 0.92:
                fence = rng.choice(["```", "~~~"])
                lines += ["", fence] + [self.w() for _ in range(rng.randint(1, 2))] + [fence]
                kinds.append("fenced")
            elif k < 0.96:
                lines += [""] + ["    " + self.w() for _ in range(rng.randint(1, 2))]
                kinds.append("indented-code")
            else:
                ty = rng.choice(TYPES)
                lines += ["", "- " + self.w(), "    @" + ty + " " + self.w(1), "    " + self.w(), "    @end" + ty,
                          "- " + self.w(1)]
                kinds.append("box-in-list")
            lines.append("")
        while lines and lines[-1] == "":
            lines.pop()
        return lines, kinds

    def meta_header(self, leaf):
        """(header lines, expected {key: value}); the header is closed by an empty doc line or runs
        directly into the body (whose first line is never a keyword/continuation line)"""
        rng = self.rng
        if rng.random() < 0.55:
            return [], {}, False
        keys = rng.sample(self.META_KEYS, rng.randint(1, 2))
        lines, exp = [], {}
        for k in keys:
            v = self.mv()
            kk = rng.choice([k, k, k.capitalize(), k.upper()])
            lines.append(f"{kk}: {v}")
            exp[k] = v
        if rng.random() < 0.3:
            lines.append("deprecated: " + rng.choice(["true", "True"]))
            exp["deprecated"] = True
        if leaf and rng.random() < 0.3:
            lines.append("display: private")
            exp["display"] = ["private"]
        blank = rng.random() < 0.7
        return lines, exp, blank

    def doc(self, leaf=False):
        """One entity's documentation: dict(lines, words, meta, kinds, region)."""
        eid = self.new_entity()
        rng = self.rng
        region = None
        special = rng.random()
        if special < 0.04:
            # one-line comment with a colon whose first part is no metadata key: shown entirely
            lines = [self.w(1) + ": " + self.w(2)]
            return dict(eid=eid, lines=lines, words=self.words_of(lines), meta={}, kinds=["oneline-colon"], region=None)
        if special < 0.07:
            # one-line comment that is metadata only
            v = self.mv()
            return dict(eid=eid, lines=["author: " + v], words=[], meta={"author": v}, kinds=["oneline-meta"], region=None)
        hdr, meta, blank = self.meta_header(leaf)
        body, kinds = self.body()
        if self.knobs.get("pretext") and rng.random() < 0.5:
            # text before the start marker on the same line (repaired defect doc-text-before-note-dropped)
            body = [self.w(2) + " @note " + self.w(1)] + body
            kinds = ["pretext"] + kinds
        if hdr:
            # the body must not start with something that continues the header
            while body and (body[0] == "" or body[0].startswith("    ")):
                body = body[1:]
            if not body:
                body = [self.w()]
            if blank and rng.random() < 0.35:
                # after the separating empty line the header is over: a first body line of the shape
                # `word: text` is ordinary text
                body = [self.w(1) + ": " + self.w(2)] + body
                kinds = ["colon-first-line"] + kinds
            lines = hdr + ([""] if blank else []) + body
            kinds = ["meta" + ("+blank" if blank else "+direct")] + kinds
        else:
            while body and body[0] == "":
                body = body[1:]
            if not body:
                body = [self.w()]
            lines = body
        return dict(eid=eid, lines=lines, words=self.words_of(body), meta=meta, kinds=kinds, region=region,
                    inside=list(self.inside), after=list(self.after))

    @staticmethod
    def words_of(lines):
        import re
        return re.findall(r"tw\d+a\d+", "\n".join(lines))


def render_doc(doc, indent):
    return "".join(f"{indent}!!{(' ' + l) if l else ''}\n" for l in doc["lines"])


def render_decl(stmt, doc, indent, style):
    """A declaration with its documentation in one of the four marker styles (default markers):
    0 following `!!` lines, 1 preceding `!>` lines, 2 following block `!*` + ordinary comment lines
    (closed by a blank line), 3 preceding block `!|` + ordinary comment lines."""
    ls = doc["lines"]
    sp = lambda l: (" " + l) if l else ""   # noqa: E731
    if style == 0:
        return f"{indent}{stmt}\n" + "".join(f"{indent}  !!{sp(l)}\n" for l in ls)
    if style == 1:
        return "".join(f"{indent}!>{sp(l)}\n" for l in ls) + f"{indent}{stmt}\n"
    if style == 2:
        return (f"{indent}{stmt}\n" + "".join(f"{indent}  !{'*' if i == 0 else ''}{sp(l)}\n" for i, l in enumerate(ls))
                + "\n")
    return "".join(f"{indent}!{'|' if i == 0 else ''}{sp(l)}\n" for i, l in enumerate(ls)) + f"{indent}{stmt}\n"


def gen_doc_project(rng, knobs=None):
    """A small project whose entities (modules, variables, types, components, procedures,
    arguments, enumerators) carry generated documentation. One declaration may declare several
    variables: they share its comment (each gets the metadata and every word). Declarations use the
    four marker styles. Returns (files, expected) where expected maps (obj, name, parent name) ->
    doc record (records of a shared comment carry `shared` = number of entities)."""
    g = DocGen(rng, knobs)
    files, expected = {}, {}

    def names(base):
        k = rng.choice([1, 1, 2, 2, 3])
        return [base] if k == 1 else [f"{base}{'abc'[i]}" for i in range(k)]

    def decl(src, typ, base, parent, indent, leaf=True, single=False):
        ns = [base] if single else names(base)
        d = g.doc(leaf=leaf)
        d["shared"] = len(ns)
        d["style"] = rng.randrange(4)
        for n in ns:
            expected[("variable", n, parent)] = d
        src.append(render_decl(f"{typ} :: {', '.join(ns)}", d, indent, d["style"]))
        return ns

    for fi in range(rng.choice([1, 1, 2])):
        mod = f"mod{fi}"
        src = []
        d = g.doc()
        expected[("module", mod, None)] = d
        src.append(f"module {mod}\n" + render_doc(d, "  ") + "  implicit none\n")
        for vi in range(rng.randint(0, 2)):
            decl(src, rng.choice(["integer", "real", "logical"]), f"v{fi}x{vi}", mod, "  ")
        if rng.random() < 0.25:
            src.append("  enum, bind(c)\n")
            decl(src, "enumerator", f"e{fi}n", "enum", "    ")
            src.append("  end enum\n")
        for ti in range(rng.randint(0, 1)):
            tname = f"t{fi}x{ti}"
            d = g.doc()
            expected[("type", tname, mod)] = d
            src.append(f"  type :: {tname}\n" + render_doc(d, "    "))
            for ci in range(rng.randint(1, 2)):
                decl(src, "integer", f"c{ci}", tname, "    ")
            src.append(f"  end type {tname}\n")
        src.append("contains\n")
        for pi in range(rng.randint(1, 2)):
            pname = f"p{fi}x{pi}"
            isfun = rng.random() < 0.4
            nargs = rng.randint(0, 2)
            d = g.doc()
            expected[("proc", pname, mod)] = d
            body = []
            args = []
            if nargs:
                args = decl(body, "integer, intent(in)", "a0", pname, "    ")
                if nargs == 2:
                    args += decl(body, "real, intent(in)", "a1", pname, "    ")
            if isfun:
                src.append(f"  function {pname}({', '.join(args)}) result(res)\n" + render_doc(d, "    "))
                src += body
                decl(src, "integer", "res", pname, "    ", single=True)
                src.append("    res = 0\n")
                src.append(f"  end function {pname}\n")
            else:
                src.append(f"  subroutine {pname}({', '.join(args)})\n" + render_doc(d, "    "))
                src += body
                src.append(f"  end subroutine {pname}\n")
        src.append(f"end module {mod}\n")
        files[f"src/f{fi}.f90"] = "".join(src)
    return files, expected


def gen_error_doc(rng):
    """A documentation body that must make the markdown step raise (unmatched end marker)."""
    g = DocGen(rng)
    g.new_entity()
    ty, other = rng.sample(TYPES, 2)
    if rng.random() < 0.5:
        return [g.w(), "@end" + ty, g.w()], "end-without-start"
    return ["@" + ty, g.w(), "@end" + other], "type-mismatch"
