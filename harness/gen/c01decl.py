"""Abstract declarations for the declaration layer of C01, their renderer (the Python twin of
Sem/DeclSpec.v render_decl -- the Coq judge checks that both produce the same text) and Coq terms."""
from harness.core import coq_list, coq_bool, coq_opt

NBSP = "\xa0"


def cstr(x):
    """Coq term of type str; U+00A0 (which FORD puts into initial values) is spliced in as [nbsp]"""
    assert all(ord(c) < 128 or c == NBSP for c in x), repr(x)
    parts = x.split(NBSP)
    lit = ['(s "' + p.replace('"', '""') + '")' for p in parts]
    if len(lit) == 1:
        return lit[0]
    return "(" + " ++ [nbsp] ++ ".join(lit) + ")"


def cstrs(xs):
    return coq_list(cstr(x) for x in xs)


def copt(x):
    return coq_opt(x, cstr)


# ------------------------------------------------------------------ Coq terms
def bools(m):
    return coq_list(coq_bool(b) for b in m)


def atype_coq(t):
    k = t[0]
    if k == "num":
        return f"(ANum {'B' + t[1].capitalize()} {copt(t[2])})"
    if k == "double":
        return "ADouble"
    if k == "dcomplex":
        return "ADoubleComplex"
    if k == "char":
        return f"(AChar {copt(t[1])} {copt(t[2])})"
    return f"(ADerived {coq_bool(t[1])} {cstr(t[2])})"


def tspell_coq(sp):
    return (f"(mkts {bools(sp['case'])} {bools(sp['kcase'])} {sp['form']} {sp['b1']} {sp['b2']} {sp['b3']} "
            f"{sp['bstar']} {sp['dbl']})")


def token_coq(t):
    if t[0] == "t":
        return f"(IText {cstr(t[1])})"
    return f"(ILit {'c_dq' if t[1] == chr(34) else 'c_sq'} {cstr(t[2])})"


def entity_coq(e):
    init = "None" if e["init"] is None else "(Some " + coq_list(token_coq(t) for t in e["init"]) + ")"
    return f"(mkent {cstr(e['name'])} {copt(e['dim'])} {coq_bool(e['points'])} {init})"


def decl_coq(d):
    intent = "None" if d["intent"] is None else "(Some " + {"in": "IIn", "out": "IOut", "inout": "IInOut"}[d["intent"]] + ")"
    return (f"(mkdecl {atype_coq(d['type'])} {coq_bool(d['parameter'])} {intent} {coq_bool(d['optional'])} "
            f"{cstrs(d['attrs'])} {coq_list(entity_coq(e) for e in d['entities'])})")


def dspell_coq(sp):
    return (f"(mkds {tspell_coq(sp['type'])} {coq_bool(sp['dcolon'])} {coq_bool(sp['dimattr'])} {bools(sp['acase'])} "
            f"{sp['ablank']} {coq_bool(sp['inout_blank'])} {sp['sep']})")


def var_coq(v):
    proto = "None" if v["proto"] is None else f"(Some ({cstr(v['proto'][0])}, {cstr(v['proto'][1])}))"
    return (f"(mkvar {cstr(v['name'])} {cstr(v['vartype'])} {copt(v['kind'])} {copt(v['strlen'])} {proto} "
            f"{cstrs(v['attribs'])} {cstr(v['intent'])} {coq_bool(v['optional'])} {cstr(v['permission'] or '')} "
            f"{coq_bool(v['parameter'])} {coq_bool(v['points'])} {copt(v['initial'])} {cstr(v['dimension'])})")


def ascii_ok(x):
    return all(32 <= ord(c) < 127 or c in "\t" + NBSP for c in x)


def var_ok(v):
    fields = [v["name"], v["vartype"], v["kind"] or "", v["strlen"] or "", v["intent"], v["permission"] or "",
              v["initial"] or "", v["dimension"]] + list(v["attribs"]) + (list(v["proto"]) if v["proto"] else [])
    return all(isinstance(x, str) and ascii_ok(x) for x in fields)


# ------------------------------------------------------------------ renderer (twin of Sem/DeclSpec.v)
def recase(mask, w):
    return "".join((c.upper() if i < len(mask) and mask[i] else c) for i, c in enumerate(w))


def paren(sp, inner):
    return " " * sp["b1"] + "(" + " " * sp["b2"] + inner + " " * sp["b2"] + ")"


def keyeq(sp, key, value):
    return recase(sp["kcase"], key) + " " * sp["b3"] + "=" + " " * sp["b3"] + value


def comma(sp):
    return "," + " " * sp["b3"]


BASE = {"integer": "integer", "real": "real", "complex": "complex", "logical": "logical"}


def render_type(sp, t):
    k = t[0]
    if k == "num":
        w = recase(sp["case"], BASE[t[1]])
        if t[2] is None:
            return w
        if sp["form"] == 0:
            return w + paren(sp, t[2])
        if sp["form"] == 1:
            return w + paren(sp, keyeq(sp, "kind", t[2]))
        return w + "*" + " " * sp["bstar"] + t[2]
    if k in ("double", "dcomplex"):
        second = "precision" if k == "double" else "complex"
        return recase(sp["case"], "double") + " " * sp["dbl"] + recase(sp["case"][6:], second)
    if k == "char":
        w = recase(sp["case"], "character")
        l, kd = t[1], t[2]
        if l is None and kd is None:
            return w
        if l is None:
            return w + paren(sp, keyeq(sp, "kind", kd))
        if kd is None:
            if sp["form"] == 0:
                return w + "*" + " " * sp["bstar"] + (l if l.isdigit() else "(" + l + ")")
            if sp["form"] == 1:
                return w + paren(sp, l)
            return w + paren(sp, keyeq(sp, "len", l))
        if sp["form"] in (0, 1):
            return w + paren(sp, l + comma(sp) + kd)
        if sp["form"] == 2:
            return w + paren(sp, keyeq(sp, "len", l) + comma(sp) + keyeq(sp, "kind", kd))
        if sp["form"] == 3:
            return w + paren(sp, keyeq(sp, "kind", kd) + comma(sp) + keyeq(sp, "len", l))
        return w + paren(sp, l + comma(sp) + keyeq(sp, "kind", kd))
    return recase(sp["case"], "class" if t[1] else "type") + paren(sp, t[2])


def render_intent(sp, i):
    a = sp["acase"]
    if i == "inout":
        word = (recase(a, "in") + " " + recase(a, "out")) if sp["inout_blank"] else recase(a, "inout")
    else:
        word = recase(a, i)
    return recase(a, "intent") + " " * sp["ablank"] + "(" + " " * sp["ablank"] + word + " " * sp["ablank"] + ")"


def dim_attr_of(sp, d):
    if len(d["entities"]) == 1 and sp["dimattr"]:
        return d["entities"][0]["dim"]
    return None


def render_attrs(sp, d):
    a = sp["acase"]
    out = []
    if d["parameter"]:
        out.append(recase(a, "parameter"))
    if d["intent"] is not None:
        out.append(render_intent(sp, d["intent"]))
    if d["optional"]:
        out.append(recase(a, "optional"))
    out += [recase(a, x) for x in d["attrs"]]
    dim = dim_attr_of(sp, d)
    if dim is not None:
        out.append(recase(a, "dimension") + " " * sp["ablank"] + dim)
    return out


def token_text(t):
    return t[1] if t[0] == "t" else t[1] + t[2] + t[1]


def render_entity(sp, dimattr, e):
    out = e["name"] + ("" if dimattr else (e["dim"] or ""))
    if e["init"] is not None:
        out += " " * sp["sep"] + ("=>" if e["points"] else "=") + " " * sp["sep"] + \
               (" " * sp["sep"]).join(token_text(t) for t in e["init"])
    return out


def render_decl(sp, d):
    attrs = render_attrs(sp, d)
    dimattr = dim_attr_of(sp, d) is not None
    need = bool(attrs) or any(e["init"] is not None for e in d["entities"])
    sep = " " * sp["sep"]
    return (render_type(sp["type"], d["type"]) + "".join("," + sep + a for a in attrs)
            + ((sep + "::" + sep) if (need or sp["dcolon"]) else " ")
            + ("," + sep).join(render_entity(sp, dimattr, e) for e in d["entities"]))


# ------------------------------------------------------------------ generation
KINDS_INT = ["4", "8", "int32", "i8", "selected_int_kind(5)", "c_int", "IK"]
KINDS_REAL = ["8", "4", "dp", "wp", "WP", "real64", "kind(1.0d0)", "selected_real_kind(6,37)", "c_double"]
LENS = ["10", "1", "*", ":", "n", "80", "n+1", "2*n", "len(x)", "N", "max_len"]
CKINDS = ["ck", "1", "c_char", "selected_char_kind('ascii')"]
NAMES = ["x", "y", "idx", "buf", "alpha", "Beta", "n_max", "i", "tmp2", "Arr"]
# array specs with an "=" inside the parentheses: keyword arguments of inquiry functions, relational operators
EQ_DIMS = ["(size(a,dim=1))", "(size(a,dim=1),size(a,dim=2))", "(lbound(a,dim=1):ubound(a,dim=1))", "(merge(4,8,n<=4))",
           "(merge(2,3,n>=1))", "(merge(2,3,n==1))", "(merge(2,3,n/=1))", "(len(c,kind=4))", "(0:merge(1,2,mask=flag),3)"]
DIMS = ["(3)", "(2,2)", "(0:4)", "(:)", "(n)", "(:,:)", "(size(a))", "(2,n+1)"] + EQ_DIMS[:4] + EQ_DIMS[5:6]
TYPENAMES = ["point", "my_type", "Node", "vec3", "module_t", "pure_t"]
ATTRS = ["allocatable", "pointer", "target", "save", "volatile", "asynchronous", "value", "contiguous"]


def gen_mask(rng, n=12):
    r = rng.random()
    if r < 0.5:
        return []
    if r < 0.7:
        return [True] * n
    if r < 0.8:
        return [True]
    return [rng.random() < 0.5 for _ in range(n)]


def gen_tspell(rng, plain=False):
    if plain:
        return dict(case=[], kcase=[], form=rng.choice([0, 1]), b1=0, b2=0, b3=0, bstar=0, dbl=1)
    return dict(case=gen_mask(rng, 16), kcase=gen_mask(rng, 4), form=rng.choice([0, 1, 2, 3, 4]),
                b1=rng.choice([0, 0, 0, 1, 2]), b2=rng.choice([0, 0, 1]), b3=rng.choice([0, 0, 1, 2]),
                bstar=rng.choice([0, 0, 0, 0, 1]), dbl=rng.choice([1, 1, 1, 0, 2, 3]))


def gen_type(rng):
    r = rng.random()
    if r < 0.45:
        base = rng.choice(["integer", "real", "complex", "logical"])
        kind = None if rng.random() < 0.35 else rng.choice(KINDS_INT if base in ("integer", "logical") else KINDS_REAL)
        return ("num", base, kind)
    if r < 0.55:
        return ("double",) if rng.random() < 0.7 else ("dcomplex",)
    if r < 0.85:
        l = None if rng.random() < 0.2 else rng.choice(LENS)
        k = None if rng.random() < 0.65 else rng.choice(CKINDS[:3])
        return ("char", l, k)
    return ("derived", rng.random() < 0.3, rng.choice(TYPENAMES))


def type_form_ok(sp, t):
    """the star form needs a literal kind"""
    if t[0] == "num" and t[2] is not None and sp["form"] >= 2:
        return t[2].isdigit()
    return True


def gen_init(rng, t, dim, pointer):
    if pointer:
        return [("t", "null()")]
    k = t[0]
    if dim is not None:
        if k == "char":
            return [("t", "["), ("l", "'", "a b"), ("t", ","), ("l", '"', "c,d"), ("t", "]")]
        return rng.choice([[("t", "[1,2,3]")], [("t", "(/"), ("t", "1.0,"), ("t", "2.0"), ("t", "/)")], [("t", "0")],
                           [("t", "reshape([1,2,3,4],"), ("t", "[2,2])")]])
    if k == "char":
        return [rng.choice([("l", "'", "hello world"), ("l", '"', "it's"), ("l", "'", 'say "hi"'), ("l", "'", "it''s"),
                            ("l", "'", "a  b   c"), ("l", '"', ""), ("l", "'", "x=1, y=2"), ("l", '"', "back\\slash"),
                            ("l", "'", "! not a comment")])]
    if k == "num" and t[1] == "logical":
        return rng.choice([[("t", ".true.")], [("t", ".false.")], [("t", ".TRUE.")], [("t", ".not."), ("t", ".true.")]])
    if k == "num" and t[1] == "integer":
        return rng.choice([[("t", "1")], [("t", "42")], [("t", "-7")], [("t", "2"), ("t", "*"), ("t", "n_max")],
                           [("t", "huge(1)")], [("t", "int(z"), ("l", "'", "FF"), ("t", ")")], [("t", "max(1,2)")], [("t", "10_8")]])
    if k in ("double", "dcomplex") or k == "num":
        return rng.choice([[("t", "1.0")], [("t", "2.5e0")], [("t", "1.0d0")], [("t", "-1.5_dp")], [("t", "(1.0,"), ("t", "2.0)")],
                           [("t", "3.14159"), ("t", "/"), ("t", "2")], [("t", "epsilon(1.0)")]])
    return [("t", rng.choice(["point(1.0,2.0)", "my_type()"]))]


def gen_decl(rng, allow_intent=False, names=None):
    t = gen_type(rng)
    parameter = rng.random() < 0.15 and t[0] != "derived"
    intent = rng.choice(["in", "out", "inout"]) if (allow_intent and rng.random() < 0.6) else None
    optional = bool(allow_intent and rng.random() < 0.25)
    attrs = []
    if not parameter and intent is None and rng.random() < 0.35:
        attrs = rng.sample(ATTRS[:5], rng.choice([1, 1, 2]))
        if "allocatable" in attrs and "pointer" in attrs:
            attrs.remove("pointer")
    nent = rng.choice([1, 1, 1, 2, 3])
    pool = list(names) if names is not None else rng.sample(NAMES, nent)
    ents = []
    for i in range(nent):
        name = pool[i] if i < len(pool) else f"v{i}"
        dim = rng.choice(DIMS) if rng.random() < 0.3 else None
        if dim is not None and ("allocatable" in attrs or "pointer" in attrs):
            dim = rng.choice(["(:)", "(:,:)"])
        pointer = "pointer" in attrs and rng.random() < 0.5
        init = None
        if parameter or pointer or (intent is None and not attrs and rng.random() < 0.3):
            init = gen_init(rng, t, dim, pointer)
        ents.append(dict(name=name, dim=dim, points=pointer, init=init))
    return dict(type=t, parameter=parameter, intent=intent, optional=optional, attrs=attrs, entities=ents)


def forced_eq_decls(rng):
    """declarations whose entity carries an array spec with "=" at depth >= 1 (EQ_DIMS): alone, with an initial
    value, beside other entities, beside a pointer initialisation -- in the plain and in one random spelling"""
    real, integer = ("num", "real", None), ("num", "integer", "4")

    def decl(t, ents, attrs=()):
        return dict(type=t, parameter=False, intent=None, optional=False, attrs=list(attrs), entities=ents)

    def ent(name, dim=None, init=None, points=False):
        return dict(name=name, dim=dim, points=points, init=init)
    out = []
    for i, dim in enumerate(EQ_DIMS):
        ds = [decl(real, [ent("y", dim)]),
              decl(real, [ent("shadow", dim, [("t", "0.0")])]),
              decl(integer, [ent("w", dim, [("t", "[1,2,3]")]), ent("k", None, [("t", "2")]), ent("z", EQ_DIMS[(i + 1) % len(EQ_DIMS)])]),
              decl(real, [ent("p", "(:)", [("t", "null()")], True), ent("q", dim, None, False)], ["pointer"]),
              decl(("char", "10", None), [ent("names", dim, [("t", "["), ("l", "'", "a=b"), ("t", ","), ("l", '"', "c<=d"), ("t", "]")])])]
        for d in ds:
            out.append((d, dict(PLAIN_D)))
            sp = gen_dspell(rng, d)
            if no_dcolon_legal(sp, d):
                out.append((d, sp))
    return out


def gen_dspell(rng, d, plain=False):
    tsp = gen_tspell(rng, plain)
    for _ in range(20):
        if type_form_ok(tsp, d["type"]):
            break
        tsp = gen_tspell(rng, plain)
    else:
        tsp["form"] = 0
    if plain:
        return dict(type=tsp, dcolon=True, dimattr=False, acase=[], ablank=0, inout_blank=False, sep=1)
    return dict(type=tsp, dcolon=rng.random() < 0.6, dimattr=rng.random() < 0.25, acase=gen_mask(rng, 12),
                ablank=rng.choice([0, 0, 0, 1]), inout_blank=rng.random() < 0.3, sep=rng.choice([1, 1, 0, 2]))


def no_dcolon_legal(sp, d):
    """without "::" the type spec must be separated from the name: always write "::" after a bare star form"""
    return True


# ------------------------------------------------------------------ program units (twin of DeclSpec.render_unit)
PLAIN_T = dict(case=[], kcase=[], form=0, b1=0, b2=0, b3=0, bstar=0, dbl=1)
PLAIN_D = dict(type=PLAIN_T, dcolon=True, dimattr=False, acase=[], ablank=0, inout_blank=False, sep=1)
UNIT_WORD = {"module": "module", "subroutine": "subroutine", "function": "function"}
PROC_KEYWORDS = ["impure", "pure", "elemental", "non_recursive", "recursive", "module"]


def nth_or_last(l, n, d):
    if not l:
        return d
    return l[n] if n < len(l) else l[-1]


def nth(l, n, d):
    return l[n] if n < len(l) else d


def render_header(sp, u):
    kw = lambda w: recase(sp["kwcase"], w)   # noqa
    b = " " * sp["argblank"]
    if u["kind"] == "module":
        return kw("module") + " " + u["name"]
    out = "".join(kw(p) + " " for p in u["prefix"])
    if u["rettype"] is not None:
        out += render_type(sp["rettype"], u["rettype"]) + " "
    out += kw(UNIT_WORD[u["kind"]]) + " " + u["name"] + "(" + ",".join(b + a + b for a in u["args"]) + ")"
    if u["result"] is not None:
        out += " " + kw("result") + "(" + u["result"] + ")"
    return out


def render_end(sp, u):
    return recase(sp["kwcase"], "end") + " " + recase(sp["kwcase"], UNIT_WORD[u["kind"]]) + " " + u["name"]


def has_dims(d):
    return any(e["dim"] is not None for e in d["entities"])


def strip_decl(stmt, dimstmt, d):
    ents = [dict(name=e["name"], dim=None if dimstmt else e["dim"], points=e["points"],
                 init=None if (stmt and d["parameter"]) else e["init"]) for e in d["entities"]]
    if stmt:
        return dict(type=d["type"], parameter=False, intent=None, optional=False, attrs=[], entities=ents)
    return dict(type=d["type"], parameter=d["parameter"], intent=d["intent"], optional=d["optional"],
                attrs=d["attrs"], entities=ents)


def attr_statements(sp, dsp, d):
    sep = " :: " if sp["stmt_dcolon"] else " "
    names = ", ".join(e["name"] for e in d["entities"])
    a = dsp["acase"]
    out = []
    if d["parameter"]:
        out.append(recase(a, "parameter") + " (" + ", ".join(
            e["name"] + " = " + (" " * dsp["sep"]).join(token_text(t) for t in (e["init"] or []))
            for e in d["entities"]) + ")")
    if d["intent"] is not None:
        out.append(render_intent(dsp, d["intent"]) + sep + names)
    if d["optional"]:
        out.append(recase(a, "optional") + sep + names)
    out += [recase(a, x) + sep + names for x in d["attrs"]]
    return out


def dim_statement(sp, dsp, d):
    if not has_dims(d):
        return []
    sep = " :: " if sp["stmt_dcolon"] else " "
    return [recase(dsp["acase"], "dimension") + sep + ", ".join(e["name"] + e["dim"] for e in d["entities"] if e["dim"] is not None)]


def render_body(sp, decls):
    out = []
    for i, d in enumerate(decls):
        dsp = nth_or_last(sp["decls"], i, PLAIN_D)
        stmt = nth(sp["stmt"], i, False)
        dimstmt = nth(sp["dimstmt"], i, False) and has_dims(d)
        out.append(render_decl(dsp, strip_decl(stmt, dimstmt, d)))
        if dimstmt:
            out += dim_statement(sp, dsp, d)
        if stmt:
            out += attr_statements(sp, dsp, d)
    return out


def unit_coq(u):
    kind = {"module": "UModule", "subroutine": "USubroutine", "function": "UFunction"}[u["kind"]]
    rt = "None" if u["rettype"] is None else f"(Some {atype_coq(u['rettype'])})"
    return (f"(mkau {kind} {cstr(u['name'])} {cstrs(u['prefix'])} {cstrs(u['args'])} {copt(u['result'])} {rt} "
            f"{coq_list(decl_coq(d) for d in u['decls'])})")


def uspell_coq(sp):
    return (f"(mkus {bools(sp['kwcase'])} {coq_list(dspell_coq(x) for x in sp['decls'])} {bools(sp['stmt'])} "
            f"{bools(sp['dimstmt'])} {coq_bool(sp['stmt_dcolon'])} {tspell_coq(sp['rettype'])} {sp['argblank']})")


def header_coq(kind, groups):
    k = {"module": "UModule", "subroutine": "USubroutine", "function": "UFunction"}[kind]
    return (f"(mkhdr {k} {copt(groups.get('attributes'))} {cstr(groups.get('name') or '')} "
            f"{copt(groups.get('arguments'))} {copt(groups.get('result'))})")


def gen_unit(rng):
    kind = rng.choice(["module", "subroutine", "subroutine", "function", "function", "function"])
    name = rng.choice(["calc", "do_it", "Solve", "f", "area", "mod_a", "init_x"])
    u = dict(kind=kind, name=name, prefix=[], args=[], result=None, rettype=None, decls=[])
    pool = [n for n in NAMES if n.lower() != name.lower()]
    rng.shuffle(pool)
    if kind == "module":
        for _ in range(rng.choice([1, 2, 3])):
            k = rng.choice([1, 1, 2])
            names, pool = pool[:k], pool[k:]
            if not names:
                break
            d = gen_decl(rng, names=names)
            d["entities"] = d["entities"][:len(names)]
            u["decls"].append(d)
        return u
    if rng.random() < 0.4:
        u["prefix"] = rng.sample(["pure", "elemental", "recursive", "impure", "module"], rng.choice([1, 1, 2]))
        if "pure" in u["prefix"] and "impure" in u["prefix"]:
            u["prefix"].remove("impure")
    nargs = rng.choice([0, 1, 2, 3])
    u["args"], pool = pool[:nargs], pool[nargs:]
    declared_args = [a for a in u["args"] if rng.random() < 0.8]
    rng.shuffle(declared_args)
    for a in declared_args:
        d = gen_decl(rng, allow_intent=True, names=[a])
        d["entities"] = d["entities"][:1]
        d["parameter"] = False
        for e in d["entities"]:
            if not e["points"]:
                e["init"] = None
        u["decls"].append(d)
    if kind == "function":
        if rng.random() < 0.4:
            u["result"] = pool.pop() if pool else "res"
        r = rng.random()
        rname = u["result"] or name
        if r < 0.45:
            t = gen_type(rng)
            u["rettype"] = t
        elif r < 0.8:
            d = gen_decl(rng, names=[rname])
            d["entities"] = d["entities"][:1]
            d["parameter"] = False
            d["entities"][0]["init"] = None
            d["entities"][0]["points"] = False
            u["decls"].insert(rng.randrange(len(u["decls"]) + 1), d)
    for _ in range(rng.choice([0, 1, 2])):
        k = rng.choice([1, 2])
        names, pool = pool[:k], pool[k:]
        if not names:
            break
        d = gen_decl(rng, names=names)
        d["entities"] = d["entities"][:len(names)]
        u["decls"].append(d)
    return u


def gen_uspell(rng, u, plain=False):
    n = max(1, len(u["decls"]))
    if plain:
        return dict(kwcase=[], decls=[gen_dspell(rng, d, plain=True) for d in u["decls"]] or [PLAIN_D], stmt=[False] * n,
                    dimstmt=[False] * n, stmt_dcolon=False, rettype=dict(PLAIN_T), argblank=0)
    rt = gen_tspell(rng)
    if u["rettype"] is not None:
        for _ in range(20):
            if type_form_ok(rt, u["rettype"]):
                break
            rt = gen_tspell(rng)
        else:
            rt["form"] = 0
    return dict(kwcase=gen_mask(rng, 12), decls=[gen_dspell(rng, d) for d in u["decls"]] or [PLAIN_D],
                stmt=[rng.random() < 0.35 for _ in range(n)], dimstmt=[rng.random() < 0.2 for _ in range(n)],
                stmt_dcolon=rng.random() < 0.5, rettype=rt, argblank=rng.choice([0, 0, 1]))
