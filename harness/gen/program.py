"""Abstract Fortran project model + generator + free-form renderer (DESIGN §4.5).

An abstract project is plain JSON-able data:
  project = {"files": [file]}
  file    = {"dir": "src" | "src/sub1" ..., "name": "m1.f90", "units": [unit]}
  unit    = module | submodule | program | proc (external) | blockdata
Every entity carries "doc": [lines] (tracer words) and "uid" (unique int).
The renderer turns it into text; property adapters project it onto their model's input.
"""
import itertools

INTRINSIC_TYPES = ["integer", "real", "logical", "complex", "character(len=8)", "double precision"]


class Uid:
    def __init__(self):
        self.n = 0

    def __call__(self):
        self.n += 1
        return self.n


def tracer(uid, k=0):
    return f"zq{uid}w{k}"


def mk_doc(rng, uid, p=0.8):
    if rng.random() > p:
        return []
    n = rng.choice([1, 1, 2, 3])
    return [" ".join(tracer(uid, 10 * i + j) for j in range(rng.choice([1, 2, 3]))) for i in range(n)]


def gen_var(rng, uid, name, types=(), perm_ok=False, intent=None, allow_init=True):
    u = uid()
    if types and rng.random() < 0.35:
        t = rng.choice(types)
        vtype = rng.choice(["type", "class"]) if intent else "type"
        typ = f"{vtype}({t})"
    else:
        typ = rng.choice(INTRINSIC_TYPES)
    attrs = []
    if rng.random() < 0.2 and not intent:
        attrs.append(rng.choice(["allocatable", "pointer", "target", "save"]))
    dim = None
    if rng.random() < 0.25:
        dim = "(:)" if attrs and attrs[0] in ("allocatable", "pointer") else rng.choice(["(3)", "(2,2)", "(0:4)"])
    init = None
    if allow_init and not intent and not attrs and dim is None and typ in ("integer", "real", "logical") \
            and rng.random() < 0.4:
        init = {"integer": rng.choice(["1", "42", "-7"]), "real": rng.choice(["1.0", "2.5e0"]),
                "logical": rng.choice([".true.", ".false."])}[typ]
        if rng.random() < 0.4:
            attrs.append("parameter")
    perm = None
    if perm_ok and rng.random() < 0.3:
        perm = rng.choice(["public", "private", "protected"] if "parameter" not in attrs else ["public", "private"])
    return {"uid": u, "name": name, "type": typ, "attrs": attrs, "dim": dim, "init": init,
            "perm": perm, "intent": intent, "doc": mk_doc(rng, u)}


def gen_proc(rng, uid, name, knobs, depth=0, types=(), callables=(), perm_ok=False):
    u = uid()
    kind = rng.choice(["subroutine", "function"])
    nargs = rng.choice([0, 1, 2, 3])
    args = [f"a{i}" for i in range(nargs)]
    argdecls = [gen_var(rng, uid, a, types, intent=rng.choice(["in", "out", "inout"])) for a in args]
    result = None
    if kind == "function":
        result = rng.choice([None, "res"])
    locals_ = [gen_var(rng, uid, f"l{i}", types) for i in range(rng.choice([0, 1, 2]))]
    calls = [rng.choice(callables) for _ in range(rng.choice([0, 1, 2]))] if callables else []
    contains = []
    if depth == 0 and rng.random() < knobs.get("p_internal", 0.3):
        for i in range(rng.choice([1, 2])):
            iname = knobs["names"](rng, "proc")
            contains.append(gen_proc(rng, uid, iname, knobs, depth + 1, types, callables))
        # internal names must be unique within the host
        seen = set()
        contains = [c for c in contains if not (c["name"].lower() in seen or seen.add(c["name"].lower()))]
    attrs = []
    if rng.random() < 0.2:
        attrs.append(rng.choice(["pure", "elemental", "recursive"]))
    perm = rng.choice(["public", "private"]) if perm_ok and rng.random() < 0.25 else None
    return {"uid": u, "kind": kind, "name": name, "args": args, "argdecls": argdecls, "result": result,
            "restype": rng.choice(["integer", "real"]), "locals": locals_, "calls": calls,
            "contains": contains, "attrs": attrs, "perm": perm, "doc": mk_doc(rng, u)}


def gen_type(rng, uid, name, knobs, types=(), procs=()):
    u = uid()
    comps = [gen_var(rng, uid, f"c{i}", types, perm_ok=True, allow_init=False) for i in range(rng.choice([0, 1, 2, 3]))]
    for c in comps:
        if c["perm"] == "protected":
            c["perm"] = None
        c["attrs"] = [a for a in c["attrs"] if a in ("allocatable", "pointer")]
    bindings = []
    for i, p in enumerate(rng.sample(list(procs), min(len(procs), rng.choice([0, 0, 1, 2])))):
        bu = uid()
        bindings.append({"uid": bu, "name": f"b{i}", "target": p, "perm": rng.choice([None, None, "public", "private"]),
                         "doc": mk_doc(rng, bu)})
    return {"uid": u, "name": name, "extends": rng.choice(list(types)) if types and rng.random() < 0.3 else None,
            "perm": rng.choice([None, None, "public", "private"]),
            "comp_default": rng.choice([None, None, "private"]),
            "bind_default": rng.choice([None, None, "private"]) if bindings else None,
            "components": comps, "bindings": bindings, "doc": mk_doc(rng, u)}


def ci_unique(names):
    """drop names equal up to letter case (Fortran identifiers are case-insensitive)"""
    seen, out = set(), []
    for n in names:
        if n.lower() not in seen:
            seen.add(n.lower())
            out.append(n)
    return out


def default_names(pool):
    def f(rng, kind):
        return rng.choice(pool)
    return f


def uniq_by_name(items):
    seen, out = set(), []
    for it in items:
        k = it["name"].lower()
        if k not in seen:
            seen.add(k)
            out.append(it)
    return out


def gen_module(rng, uid, name, knobs, other_modules=()):
    u = uid()
    names = knobs["names"]
    tnames = ci_unique(names(rng, "type") + "_t" for _ in range(rng.choice([0, 1, 2])))
    pnames = ci_unique(names(rng, "proc") for _ in range(rng.choice([0, 1, 2, 3])))
    pnames = [p for p in pnames if p.lower() != name.lower()]
    types = []
    for t in tnames:
        types.append(gen_type(rng, uid, t, knobs, [x["name"] for x in types], pnames))
    procs = [gen_proc(rng, uid, p, knobs, 0, tnames, pnames, perm_ok=True) for p in pnames]
    vnames = ci_unique(names(rng, "var") + "_v" for _ in range(rng.choice([0, 1, 2, 3])))
    vars_ = [gen_var(rng, uid, v, tnames, perm_ok=True) for v in vnames]
    uses = []
    for om in other_modules:
        if rng.random() < knobs.get("p_use", 0.4):
            uses.append({"mod": om, "only": None, "renames": []})
    interfaces = []
    if pnames and rng.random() < knobs.get("p_generic", 0.3):
        iu = uid()
        gname = names(rng, "generic") + "_g"
        if rng.random() < knobs.get("p_operator", 0.0):
            gname = rng.choice(["operator(<)", "operator(>)", "operator(/)", "operator(*)", "operator(==)",
                                "operator(.dot.)", "assignment(=)", "operator(<=)", "operator(//)"])
            if rng.random() < knobs.get("p_blank_in_generic", 0.0):
                # blanks are not significant in a generic identifier: "operator (+)" is "operator(+)"
                gname = gname.replace("(", rng.choice([" (", "  (", "( "]), 1)
        interfaces.append({"uid": iu, "kind": "generic", "name": gname,
                           "procs": rng.sample(pnames, rng.choice([1, min(2, len(pnames))])),
                           "perm": None, "doc": mk_doc(rng, iu)})
    return {"uid": u, "kind": "module", "name": name, "default": rng.choice([None, None, "public", "private"]),
            "uses": uses, "vars": vars_, "types": types, "interfaces": interfaces, "procs": procs,
            "access": [], "doc": mk_doc(rng, u)}


def gen_program(rng, uid, name, knobs, modules=()):
    u = uid()
    pn = ci_unique(knobs["names"](rng, "proc") for _ in range(rng.choice([0, 1, 2])))
    procs = [gen_proc(rng, uid, p, knobs, 1, (), pn) for p in pn]
    return {"uid": u, "kind": "program", "name": name,
            "uses": [{"mod": m, "only": None, "renames": []} for m in modules if rng.random() < 0.5],
            "vars": [gen_var(rng, uid, f"pv{i}") for i in range(rng.choice([0, 1, 2]))],
            "procs": procs, "calls": list(pn), "doc": mk_doc(rng, u)}


def gen_project(rng, knobs=None):
    """knobs: names(rng, kind) -> str ; nfiles ; dirs ; p_* probabilities"""
    knobs = dict(knobs or {})
    knobs.setdefault("names", default_names(["alpha", "beta", "gamma", "delta", "init", "Init", "solve"]))
    uid = Uid()
    nfiles = knobs.get("nfiles") or rng.choice([1, 2, 3, 4])
    dirs = knobs.get("dirs", ["src"])
    files, modnames, used_files = [], [], set()
    for i in range(nfiles):
        d = rng.choice(dirs)
        fname = knobs.get("filename", lambda rng, i: f"f{i}.f90")(rng, i)
        if (d, fname) in used_files:
            fname = f"u{i}_{fname}"
        used_files.add((d, fname))
        units = []
        nunits = rng.choice([1, 1, 2])
        for j in range(nunits):
            r = rng.random()
            if r < knobs.get("p_submodule", 0.0) and modnames:
                # a submodule; its name may equal the name of a (different) module or another submodule
                anc = rng.choice(modnames)
                sname = rng.choice([m for m in modnames] + [f"sm{i}_{j}", "impl"])
                u = uid()
                units.append({"uid": u, "kind": "submodule", "name": sname, "ancestor": anc, "default": None,
                              "uses": [], "vars": [gen_var(rng, uid, f"sv{i}{j}")], "types": [], "interfaces": [],
                              "procs": [], "access": [], "doc": mk_doc(rng, u)})
            elif r < 0.7:
                mname = knobs.get("modname", lambda rng, i, j: f"m{i}_{j}")(rng, i, j)
                if mname.lower() in [m.lower() for m in modnames]:
                    mname = f"{mname}_{i}_{j}"
                units.append(gen_module(rng, uid, mname, knobs, list(modnames)))
                modnames.append(mname)
            elif r < 0.85:
                p = gen_proc(rng, uid, knobs["names"](rng, "proc"), knobs, 0)
                p["external"] = True
                units.append(p)
            else:
                pname = rng.choice(["", f"prog{i}_{j}", "main"]) if knobs.get("unnamed_programs") else f"prog{i}_{j}"
                units.append(gen_program(rng, uid, pname, knobs, list(modnames)))
        files.append({"dir": d, "name": fname, "units": units})
    return {"files": files}


# ----------------------------------------------------------------------------- rendering

def _doc_after(lines, ind, mark="!!"):
    return [f"{ind}{mark} {l}" for l in lines]


def render_var(v, ind):
    parts = [v["type"]]
    if v.get("perm"):
        parts.append(v["perm"])
    if v.get("intent"):
        parts.append(f"intent({v['intent']})")
    parts += v["attrs"]
    decl = ", ".join(parts) + " :: " + v["name"] + (v["dim"] or "")
    if v.get("init") is not None:
        decl += " = " + v["init"]
    return [ind + decl] + _doc_after(v["doc"], ind + "  ")


def render_proc(p, ind, module_proc=False):
    out = []
    prefix = " ".join(p["attrs"]) + (" " if p["attrs"] else "")
    arglist = "(" + ", ".join(p["args"]) + ")"
    if p["kind"] == "function":
        head = f"{prefix}function {p['name']}{arglist}"
        if p["result"]:
            head += f" result({p['result']})"
    else:
        head = f"{prefix}subroutine {p['name']}{arglist}"
    out.append(ind + head)
    out += _doc_after(p["doc"], ind + "  ")
    i2 = ind + "  "
    for a in p["argdecls"]:
        out += render_var(a, i2)
    if p["kind"] == "function":
        rn = p["result"] or p["name"]
        out.append(f"{i2}{p['restype']} :: {rn}")
    for v in p["locals"]:
        out += render_var(v, i2)
    if p["kind"] == "function":
        out.append(f"{i2}{p['result'] or p['name']} = 1")
    for c in p["calls"]:
        out.append(f"{i2}call {c}()")
    if p["contains"]:
        out.append(ind + "contains")
        for c in p["contains"]:
            out += render_proc(c, i2)
    out.append(f"{ind}end {p['kind']} {p['name']}")
    return out


def render_type(t, ind):
    out = []
    attrs = ""
    if t["perm"]:
        attrs += f", {t['perm']}"
    if t["extends"]:
        attrs += f", extends({t['extends']})"
    out.append(f"{ind}type{attrs} :: {t['name']}")
    out += _doc_after(t["doc"], ind + "  ")
    i2 = ind + "  "
    if t["comp_default"]:
        out.append(i2 + "private")
    for c in t["components"]:
        out += render_var(c, i2)
    if t["bindings"]:
        out.append(ind + "contains")
        if t["bind_default"]:
            out.append(i2 + "private")
        for b in t["bindings"]:
            perm = f", {b['perm']}" if b["perm"] else ""
            out.append(f"{i2}procedure, nopass{perm} :: {b['name']} => {b['target']}")
            out += _doc_after(b["doc"], i2 + "  ")
    out.append(f"{ind}end type {t['name']}")
    return out


def render_use(u, ind):
    line = f"{ind}use {u['mod']}"
    items = [f"{l} => {r}" for l, r in u.get("renames", [])]
    if u.get("only") is not None:
        line += ", only: " + ", ".join(list(u["only"]) + items)
    elif items:
        line += ", " + ", ".join(items)
    return [line]


def render_unit(u, ind=""):
    k = u["kind"]
    if k in ("subroutine", "function"):
        return render_proc(u, ind)
    out = []
    i2 = ind + "  "
    if k == "submodule":
        out.append(f"{ind}submodule ({u['ancestor']}) {u['name']}")
        out += _doc_after(u["doc"], i2)
        for v in u["vars"]:
            out += render_var(v, i2)
        out.append(f"{ind}end submodule {u['name']}")
    elif k == "module":
        out.append(f"{ind}module {u['name']}")
        out += _doc_after(u["doc"], i2)
        for us in u["uses"]:
            out += render_use(us, i2)
        out.append(i2 + "implicit none")
        if u["default"]:
            out.append(i2 + u["default"])
        for acc, names in u.get("access", []):
            out.append(f"{i2}{acc} :: " + ", ".join(names))
        for t in u["types"]:
            out += render_type(t, i2)
        for v in u["vars"]:
            out += render_var(v, i2)
        for it in u["interfaces"]:
            out.append(f"{i2}interface {it['name']}")
            out += _doc_after(it["doc"], i2 + "  ")
            out.append(f"{i2}  module procedure " + ", ".join(it["procs"]))
            out.append(f"{i2}end interface")
        if u["procs"]:
            out.append(ind + "contains")
            for p in u["procs"]:
                out += render_proc(p, i2)
        out.append(f"{ind}end module {u['name']}")
    elif k == "program":
        out.append(f"{ind}program {u['name']}".rstrip())
        out += _doc_after(u["doc"], i2)
        for us in u["uses"]:
            out += render_use(us, i2)
        out.append(i2 + "implicit none")
        for v in u["vars"]:
            out += render_var(v, i2)
        for c in u["calls"]:
            out.append(f"{i2}call {c}()")
        if u["procs"]:
            out.append(ind + "contains")
            for p in u["procs"]:
                out += render_proc(p, i2)
        out.append(f"{ind}end program {u['name']}".rstrip())
    else:
        raise ValueError(k)
    return out


def render_project(project):
    """-> {relative path: text}"""
    files = {}
    for f in project["files"]:
        lines = []
        for u in f["units"]:
            lines += render_unit(u)
            lines.append("")
        files[f"{f['dir']}/{f['name']}"] = "\n".join(lines) + "\n"
    return files


def walk_entities(project):
    """yield (path tuple of names, kind, entity dict) for every entity of the abstract project"""
    def proc(p, path):
        yield path + (p["name"],), "proc", p
        for a in p["argdecls"] + p["locals"]:
            yield path + (p["name"], a["name"]), "variable", a
        for c in p["contains"]:
            yield from proc(c, path + (p["name"],))
    for f in project["files"]:
        for u in f["units"]:
            if u["kind"] in ("subroutine", "function"):
                yield from proc(u, (f["name"],))
            else:
                yield (u["name"],), u["kind"], u
                for v in u.get("vars", []):
                    yield (u["name"], v["name"]), "variable", v
                for t in u.get("types", []):
                    yield (u["name"], t["name"]), "type", t
                    for c in t["components"]:
                        yield (u["name"], t["name"], c["name"]), "variable", c
                    for b in t["bindings"]:
                        yield (u["name"], t["name"], b["name"]), "boundproc", b
                for it in u.get("interfaces", []):
                    yield (u["name"], it["name"]), "interface", it
                for p in u.get("procs", []):
                    yield from proc(p, (u["name"],))
