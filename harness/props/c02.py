"""C02 — statement and doc extraction depends only on Fortran lexical rules."""
import itertools
import shutil
import tempfile

from harness import core
from harness.core import coq_str, coq_list
from harness.gen import layout as L
from harness.impl.reader import run_reader

IMPORTS = "From Ford Require Import Base.Str Lex.Quote Lex.Reader Lex.ReaderSpec Corr.C02."
THEOREMS = ["C02_unterminated_tokens", "C02_unterminated_open_literal", "C02_comment_found",
            "C02_no_comment_in_literal", "C02_comment_found_after_open_literal", "C02_comment_line_in_open_literal",
            "C02_semicolon_split", "C02_file_statements", "C02_layout_invariance", "C02_joined_all_amp",
            "C02_repaired_comment_after_literal", "C02_repaired_comment_in_literal"]

ABCDEF = [("c", "x"), ("s", 1), ("c", "="), ("s", 1), ("l", "'", "abcdef")]
# fixed regression inputs: layouts on which the reader used to fail (commentary after / between the lines of a
# continued literal); judged against the Spec like every other layout: (lines, pieces per logical line)
REGRESSIONS = [
    (["x = 'abc&", "  &def' ! comment"], [ABCDEF]),
    (["x = 'abc&", "! note", "  &def'"], [ABCDEF]),
    (["x = 'abc&", "   ! it's a note", "", "  &def'   ! 'c' \"", "y = 2"],
     [ABCDEF, [("c", "y"), ("s", 1), ("c", "="), ("s", 1), ("c", "2")]]),
    (["x = 'abc&", "  !! doc between", "  &def' !! doc after"], [ABCDEF]),
    (['s = "a\'b &', "  ! '", '  &c" // \'d&', '!"', "  &e' ! \" '", "t = 1 ! c"],
     [[("c", "s"), ("s", 1), ("c", "="), ("s", 1), ("l", '"', "a'b c"), ("s", 1), ("c", "//"), ("s", 1),
       ("l", "'", "de")],
      [("c", "t"), ("s", 1), ("c", "="), ("s", 1), ("c", "1")]]),
    (["x = 'abc&", "  &de&", " ! 1", "  &f'! c"], [ABCDEF]),
]


def coq_char(c):
    return '""""%char' if c == '"' else f'"{c}"%char'


def coq_piece(p):
    if p[0] == "c":
        return f"PCode {coq_str(p[1])}"
    if p[0] == "l":
        return f"PLit {coq_char(p[1])} {coq_str(p[2])}"
    if p[0] == "s":
        return f"PSp {p[1]}"
    return "PSemi"


def coq_impl(res):
    kind, out = res
    if kind == "ok":
        return "inl " + coq_list(coq_str(o) for o in out)
    return f"inr {out}"


def gen_layout_case(rng, knobs=None):
    nlog = rng.choice([1, 1, 2, 3, 5])
    lines, pss, shapes, ncuts = [], [], set(), 0
    for _ in range(nlog):
        while rng.random() < 0.2:
            lines.append(rng.choice(["", "   ", "! c", "  !" + rng.choice(L.COMMENTS)]))
        pieces = L.gen_pieces(rng)
        kk = dict(knobs or {})
        kk.setdefault("p_cut", rng.choice([0.0, 0.03, 0.08, 0.2, 0.5]))
        lay = L.gen_layout(rng, pieces, kk)
        st = lay["cs"].strip()
        if not st or st[0] in "&#" or st.lower().startswith("include "):
            continue
        lines += lay["lines"]
        pss.append(pieces)
        shapes |= lay["shapes"]
        ncuts += lay["cuts"]
    return lines, pss, shapes, ncuts


def exhaustive_small(rng, limit):
    """bounded-exhaustive layer: every sequence of <=4 tokens over a small alphabet, every single cut"""
    alpha = [("c", "x"), ("c", "=y"), ("l", "'", "a!b"), ("l", '"', "it's;&"), ("l", "'", "it's"), ("s", 1), (";",)]
    seqs = [seq for n in (1, 2, 3) for seq in itertools.product(alpha, repeat=n)]
    rng.shuffle(seqs)
    for seq in seqs[:limit]:
        pieces = list(seq)
        cs, _ = L.render_cs(pieces)
        st = cs.strip()
        if not st:
            continue
        for cuts in [[]] + [[p] for p in range(1, len(cs))] + [[p, p + 2] for p in range(1, len(cs) - 2, 3)]:
            lay = L.gen_layout(rng, pieces, {"force_cuts": cuts, "comments": False, "between": False,
                                             "max_indent": 2})
            yield lay["lines"], [pieces], lay["shapes"], lay["cuts"]


def malformed(rng):
    pool = ["x = 'abc", "&", "& y", "x = 1 &", "  & ! c", "'", "a = \"b ! c", "!! doc", "!> pre", "x = 1 !> bad",
            "!* alt", "! plain", "!| altpre", "", "#if X", "; ;", "a;;b", "x = 'it''s' // &", "'more' ! c", "&def' ! c", "  &de\" !! doc", "&d'//\"e&", "!> 'pre", "  ! it's",
            "& 'z'", "call f(a, & ! c", "b)", "x = ''", "y = \"\"\"\"", "    !! doc2", "z = 3 !! inline doc"]
    return [rng.choice(pool) for _ in range(rng.choice([1, 2, 3, 4, 6]))]


def run(chk):
    chk.build(["theories/Corr/C02.vo", "theories/Props/C02.vo"])
    chk.props("theories/Props/C02.v", THEOREMS)
    if chk.tier == "thorough":
        chk.coqchk(["Ford.Props.C02"])
    rng = chk.rng
    quick = chk.tier == "quick"
    work = tempfile.mkdtemp(prefix="verif_c02_")
    try:
        # ---- A. structured layouts: model = impl (tie) and impl = spec (property)
        cases = []
        corpus = [
            (["x = 'it''s' // &", "    'more' ! c"], [[("c", "x"), ("s", 1), ("c", "="), ("s", 1), ("l", "'", "it's"),
                                                       ("s", 1), ("c", "//"), ("s", 1), ("l", "'", "more")]], set(), 1),
            (['msg = "well, &', "   &it isn't &", '   &over ! yes" ; print *, msg'],
             [[("c", "msg"), ("s", 1), ("c", "="), ("s", 1), ("l", '"', "well, it isn't over ! yes"), ("s", 1),
               (";",), ("s", 1), ("c", "print"), ("s", 1), ("c", "*,"), ("s", 1), ("c", "msg")]], set(), 2),
        ] + [(lines, pss, {"regression"}, len(lines) - 1) for lines, pss in REGRESSIONS]
        gens = itertools.chain(corpus, exhaustive_small(rng, 60 if quick else 2000),
                               (gen_layout_case(rng) for _ in range(1500 if quick else 40000)))
        shape_cases = {"comment_after_cont_lit": 0, "comment_in_cont_lit": 0, "regression": 0}
        for lines, pss, shapes, ncuts in gens:
            if not all(core.is_ascii(l) for l in lines):
                continue
            res = run_reader(lines, workdir=work)
            cases.append((lines, pss, res))
            for sh in shapes:
                shape_cases[sh] += 1
            chk.count(("lay", tuple(lines)), nontrivial=ncuts > 0 or len(lines) > 1,
                      sample={"lines": lines, "impl": res} if ncuts else None)
        terms = [f"({coq_list(coq_str(l) for l in lines)}, {coq_list(coq_list(coq_piece(p) for p in ps) for ps in pss)},"
                 f" {coq_impl(res)})" for lines, pss, res in cases]
        out = chk.coq_judge(IMPORTS, "list str * list (list piece) * (list str + nat)", "judge_layout", terms)
        if out is not None:
            chk.traces += len(cases)
            for idx, code in sorted(out.items()):
                lines, pss, res = cases[idx]
                if code & 2:
                    chk.disagreements += 1
                    chk.violation("failing-input", {"what": "extracted statements differ from the lexical meaning",
                                                    "lines": lines, "impl": res, "code": code,
                                                    "expected": [L.split_statements(ps) for ps in pss]}, True)
                else:
                    chk.violation("broken-correspondence",
                                  {"what": "FortranReader vs model on a generated layout", "lines": lines,
                                   "impl": res, "code": code}, False)
        else:
            # the judge could not be evaluated: the fixed regression inputs are still decided here
            for lines, pss in REGRESSIONS:
                res = run_reader(lines, workdir=work)
                want = [st for ps in pss for st in L.split_statements(ps)]
                got = [L.canon(o) for o in res[1] if not o.startswith("!")] if res[0] == "ok" else None
                if got != want:
                    chk.violation("failing-input", {"what": "extracted statements differ from the lexical meaning",
                                                    "lines": lines, "impl": res, "expected": want}, True)
        chk.extra["commentary_around_continued_literal_cases"] = shape_cases
        chk.extra["layout_cases"] = len(cases)
        # ---- B. malformed / doc-marker stream: model = impl only
        mcases = []
        for _ in range(600 if quick else 20000):
            lines = malformed(rng)
            marks = rng.choice([("!", ">", "*", "|"), ("!", ">", "*", "|"), ("!", "", "", ""), ("^", ">", "", "|")])
            res = run_reader(lines, marks, workdir=work)
            mcases.append((marks, lines, res))
            chk.count(("mal", marks, tuple(lines)), nontrivial=len(lines) > 1)
        terms = [f"(mkcfg {' '.join(coq_str(m) for m in marks)}, {coq_list(coq_str(l) for l in lines)}, {coq_impl(res)})"
                 for marks, lines, res in mcases]
        out = chk.coq_judge(IMPORTS, "cfg * list str * (list str + nat)", "judge_lines", terms)
        if out is not None:
            chk.traces += len(mcases)
            for idx, code in sorted(out.items()):
                marks, lines, res = mcases[idx]
                chk.violation("broken-correspondence", {"what": "FortranReader vs model (malformed/doc stream)",
                                                        "marks": marks, "lines": lines, "impl": res}, False)
    finally:
        shutil.rmtree(work, ignore_errors=True)


def replay(chk, rep):
    lines = rep["lines"]
    marks = tuple(rep.get("marks", ("!", ">", "*", "|")))
    res = run_reader(lines, marks)
    print("impl:", res)
    chk.build(["theories/Corr/C02.vo"])
    term = f"(mkcfg {' '.join(coq_str(m) for m in marks)}, {coq_list(coq_str(l) for l in lines)}, {coq_impl(res)})"
    out = chk.coq_judge(IMPORTS, "cfg * list str * (list str + nat)", "judge_lines", [term])
    print("model agrees" if not out else "model disagrees")
    return 1 if out else 0


def finish(chk):
    return chk.finish(
        level_note="Coq theorems about the reader model (scanner lemmas, layout invariance for every layout of a "
                   "logical line); model tied to ford.reader.FortranReader by differential runs",
        trusted_base=["Coq 8.16.1 kernel (+ vm_compute for case evaluation)", "hand-written model Lex/Quote.v, "
                      "Lex/Reader.v (regex recognisers written from the pattern text)", "harness generators/adapters",
                      "7-bit ASCII input, no preprocessor, no include"],
        rule="generated token-level layouts (pieces x cuts x comments x blank lines), bounded-exhaustive small "
             "layouts, malformed/doc-marker line streams; distinct = distinct physical line list; non-trivial = "
             "has a continuation or several lines",
        checker_cmd="make theories/Props/C02.vo && coqc theories/Props/C02.v (Print Assumptions)",
        assumptions=["Python's re semantics for COM_RE/docmark patterns as modelled by first_bang",
                     "file iteration yields lines without embedded newlines"])
