"""C02 — statement and doc extraction depends only on Fortran lexical rules."""
import itertools
import shutil
import tempfile

from harness import core
from harness.core import coq_str, coq_list
from harness.gen import layout as L
from harness.impl.reader import run_reader, parse_fields

IMPORTS = "From Ford Require Import Base.Str Lex.Quote Lex.Reader Lex.ReaderSpec Corr.C02."
THEOREMS = ["C02_unterminated_tokens", "C02_unterminated_open_literal", "C02_comment_found",
            "C02_no_comment_in_literal", "C02_comment_found_after_open_literal", "C02_comment_line_in_open_literal",
            "C02_semicolon_split", "C02_file_statements", "C02_layout_invariance", "C02_joined_all_amp",
            "C02_repaired_comment_after_literal", "C02_repaired_comment_in_literal", "C02_mask_lower_unmask"]

ABCDEF = [("c", "x"), ("s", 1), ("c", "="), ("s", 1), ("l", "'", "abcdef")]
# fixed regression inputs: layouts on which the reader used to fail (commentary after / between the lines of a
# continued literal); judged against the Spec like every other layout: (lines, pieces per logical line)
REGRESSIONS = [
    (["x = 'abc&", "  &def' ! comment"], [ABCDEF]),
    (["x = 'abc&", "! note", "  &def'"], [ABCDEF]),
    (["x = 'abc&", "   ! it's a note", "", "  &def'   ! 'c' \"", "y = 2"],
     [ABCDEF, [("c", "y"), ("s", 1), ("c", "="), ("s", 1), ("c", "2")]]),
    (["x = 'abc&", "  !! doc between", "  &def' !! doc after"], [ABCDEF]),
    (['s = "a\'b &', "  ! '", '  &c" // \'d&', '!"', "  &e' ! \" '", "t = 1 ! c"],
     [[("c", "s"), ("s", 1), ("c", "="), ("s", 1), ("l", '"', "a'b c"), ("s", 1), ("c", "//"), ("s", 1),
       ("l", "'", "de")],
      [("c", "t"), ("s", 1), ("c", "="), ("s", 1), ("c", "1")]]),
    (["x = 'abc&", "  &de&", " ! 1", "  &f'! c"], [ABCDEF]),
]


def coq_char(c):
    return '""""%char' if c == '"' else f'"{c}"%char'


def coq_piece(p):
    if p[0] == "c":
        return f"PCode {coq_str(p[1])}"
    if p[0] == "l":
        return f"PLit {coq_char(p[1])} {coq_str(p[2])}"
    if p[0] == "s":
        return f"PSp {p[1]}"
    return "PSemi"


def coq_impl(res):
    kind, out = res
    if kind == "ok":
        return "inl " + coq_list(coq_str(o) for o in out)
    return f"inr {out}"


def gen_layout_case(rng, knobs=None):
    nlog = rng.choice([1, 1, 2, 3, 5])
    lines, pss, shapes, ncuts = [], [], set(), 0
    for _ in range(nlog):
        while rng.random() < 0.2:
            lines.append(rng.choice(["", "   ", "! c", "  !" + rng.choice(L.COMMENTS)]))
        pieces = L.gen_pieces(rng)
        kk = dict(knobs or {})
        kk.setdefault("p_cut", rng.choice([0.0, 0.03, 0.08, 0.2, 0.5]))
        lay = L.gen_layout(rng, pieces, kk)
        st = lay["cs"].strip()
        if not st or st[0] in "&#" or st.lower().startswith("include "):
            continue
        lines += lay["lines"]
        pss.append(pieces)
        shapes |= lay["shapes"]
        ncuts += lay["cuts"]
    return lines, pss, shapes, ncuts


def exhaustive_small(rng, limit):
    """bounded-exhaustive layer: every sequence of <=4 tokens over a small alphabet, every single cut"""
    alpha = [("c", "x"), ("c", "=y"), ("l", "'", "a!b"), ("l", '"', "it's;&"), ("l", "'", "it's"), ("s", 1), (";",)]
    seqs = [seq for n in (1, 2, 3) for seq in itertools.product(alpha, repeat=n)]
    rng.shuffle(seqs)
    for seq in seqs[:limit]:
        pieces = list(seq)
        cs, _ = L.render_cs(pieces)
        st = cs.strip()
        if not st:
            continue
        for cuts in [[]] + [[p] for p in range(1, len(cs))] + [[p, p + 2] for p in range(1, len(cs) - 2, 3)]:
            lay = L.gen_layout(rng, pieces, {"force_cuts": cuts, "comments": False, "between": False,
                                             "max_indent": 2})
            yield lay["lines"], [pieces], lay["shapes"], lay["cuts"]


# ---- parser-level part: literals that end up in parsed data, under the option `lower` ----
UPPER_BODIES = ["Hello World", "Hello; World ! It's \"Me\" & Co", 'Say "HI" !! Not Doc', "MiXeD Case", "ABCdef", "A", "X;Y",
                "It''S", "Don't SHOUT", "Tab&Amp", "UPPER lower", "  Padded  ", "Q!R", "C_Sub_MixedCase", "Ünicode"[1:],
                "End Module", "a,B", "(Paren)", "Dbl\"\"Q", "!>Pre", "x=1;Y=2"]


def code(text):
    """pieces of a piece of code: blanks become 's' pieces"""
    out = []
    for i, w in enumerate(text.split(" ")):
        if i:
            out.append(("s", 1))
        if w:
            out.append(("c", w))
    return out


def gen_literal_module(rng, idx):
    """A module whose declarations carry character literals with upper-case letters.
    -> (logical lines as piece lists, checks) with checks = [(entity key, field, source text of the field)]"""
    def lit():
        q = rng.choice("'\"")
        body = rng.choice(UPPER_BODIES)
        return ("l", q, body), L.render_lit(q, body)

    decls, subs, checks = [], [], []
    n = rng.randint(2, 6)
    for i in range(n):
        kind = rng.choice(["init", "init2", "param", "strlen", "kind", "dim", "bindc", "bindf"])
        name = f"{rng.choice(['Var', 'NAME', 'mixedCase'])}_{idx}_{i}"
        p1, t1 = lit()
        if kind == "init":
            decls.append(code(f"Character(LEN=*), Parameter :: {name} =") + [("s", 1), p1])
            checks.append((("var", name.lower()), "initial", t1))
        elif kind == "init2":
            p2, t2 = lit()
            decls.append(code(f"character(len=*), parameter :: {name} =") + [("s", 1), p1, ("c", "//TRIM("), p2, ("c", ")")])
            checks.append((("var", name.lower()), "initial", f"{t1}//TRIM({t2})"))
        elif kind == "param":
            decls.append(code(f"character(len=40) :: {name}"))
            decls.append(code(f"PARAMETER ({name} =") + [("s", 1), p1, ("c", ")")])
            checks.append((("param", name.lower()), None, t1))
        elif kind == "strlen":
            decls.append([("c", "character(len=LEN("), p1, ("c", "))"), ("s", 1)] + code(f":: {name}"))
            checks.append((("var", name.lower()), "strlen", f"LEN({t1})"))
        elif kind == "kind":
            decls.append([("c", "character(kind=SELECTED_CHAR_KIND("), p1, ("c", "),"), ("s", 1), ("c", "len=3)"), ("s", 1)]
                         + code(f":: {name}"))
            checks.append((("var", name.lower()), "kind", f"SELECTED_CHAR_KIND({t1})"))
        elif kind == "dim":
            decls.append([("c", "integer,"), ("s", 1), ("c", "dimension(LEN("), p1, ("c", "))"), ("s", 1)] + code(f":: {name}"))
            checks.append((("var", name.lower()), "attribs", f"dimension(LEN({t1}))"))
        elif kind == "bindc":
            subs.append((code(f"Subroutine {name}() BIND(C, NAME=") + [p1, ("c", ")")], code(f"end subroutine {name}")))
            checks.append((("proc", name.lower()), None, f"C, NAME={t1}"))
        else:
            subs.append((code(f"function {name}() result(R) bind(C,name=") + [p1, ("c", ")")], code(f"end function {name}")))
            checks.append((("proc", name.lower()), None, f"C,name={t1}"))
    # group declarations into logical lines with ';'
    logical = [code(f"Module Lit_Mod_{idx}")]
    cur = code("implicit none")
    for dcl in decls:
        if rng.random() < 0.35:
            cur = cur + rng.choice([[], [("s", 1)]]) + [(";",)] + rng.choice([[], [("s", 1)]]) + dcl
        else:
            logical.append(cur)
            cur = dcl
    logical.append(cur)
    if subs:
        logical.append(code("contains"))
        for head, end in subs:
            if rng.random() < 0.3:
                logical.append(head + [(";",), ("s", 1)] + end)
            else:
                logical += [head, end]
    logical.append(code(f"end module Lit_Mod_{idx}"))
    return logical, checks


def lower_outside(text):
    """the reference for the option `lower`: code lower-cased, literals verbatim (mirrors Lex/QuoteLower.v)"""
    out, q = [], None
    for ch in text:
        if q is None:
            if ch in "'\"":
                q = ch
                out.append(ch)
            else:
                out.append(ch.lower())
        else:
            out.append(ch)
            if ch == q:
                q = None
    return "".join(out)


def field_of(parsed, key, field):
    ent = parsed.get(key)
    if ent is None:
        return None
    if field is None:
        return ent
    if field == "attribs":
        return next((a for a in ent["attribs"] if a.lower().startswith("dimension")), None)
    return ent[field]


def malformed(rng):
    pool = ["x = 'abc", "&", "& y", "x = 1 &", "  & ! c", "'", "a = \"b ! c", "!! doc", "!> pre", "x = 1 !> bad",
            "!* alt", "! plain", "!| altpre", "", "#if X", "; ;", "a;;b", "x = 'it''s' // &", "'more' ! c", "&def' ! c", "  &de\" !! doc", "&d'//\"e&", "!> 'pre", "  ! it's",
            "& 'z'", "call f(a, & ! c", "b)", "x = ''", "y = \"\"\"\"", "    !! doc2", "z = 3 !! inline doc"]
    return [rng.choice(pool) for _ in range(rng.choice([1, 2, 3, 4, 6]))]


def run(chk):
    chk.build(["theories/Corr/C02.vo", "theories/Props/C02.vo"])
    chk.props("theories/Props/C02.v", THEOREMS)
    if chk.tier == "thorough":
        chk.coqchk(["Ford.Props.C02"])
    rng = chk.rng
    quick = chk.tier == "quick"
    work = tempfile.mkdtemp(prefix="verif_c02_")
    try:
        # ---- A. structured layouts: model = impl (tie) and impl = spec (property)
        cases = []
        corpus = [
            (["x = 'it''s' // &", "    'more' ! c"], [[("c", "x"), ("s", 1), ("c", "="), ("s", 1), ("l", "'", "it's"),
                                                       ("s", 1), ("c", "//"), ("s", 1), ("l", "'", "more")]], set(), 1),
            (['msg = "well, &', "   &it isn't &", '   &over ! yes" ; print *, msg'],
             [[("c", "msg"), ("s", 1), ("c", "="), ("s", 1), ("l", '"', "well, it isn't over ! yes"), ("s", 1),
               (";",), ("s", 1), ("c", "print"), ("s", 1), ("c", "*,"), ("s", 1), ("c", "msg")]], set(), 2),
        ] + [(lines, pss, {"regression"}, len(lines) - 1) for lines, pss in REGRESSIONS]
        gens = itertools.chain(corpus, exhaustive_small(rng, 60 if quick else 2000),
                               (gen_layout_case(rng) for _ in range(1500 if quick else 40000)))
        shape_cases = {"comment_after_cont_lit": 0, "comment_in_cont_lit": 0, "regression": 0}
        for lines, pss, shapes, ncuts in gens:
            if not all(core.is_ascii(l) for l in lines):
                continue
            res = run_reader(lines, workdir=work)
            cases.append((lines, pss, res))
            for sh in shapes:
                shape_cases[sh] += 1
            chk.count(("lay", tuple(lines)), nontrivial=ncuts > 0 or len(lines) > 1,
                      sample={"lines": lines, "impl": res} if ncuts else None)
        terms = [f"({coq_list(coq_str(l) for l in lines)}, {coq_list(coq_list(coq_piece(p) for p in ps) for ps in pss)},"
                 f" {coq_impl(res)})" for lines, pss, res in cases]
        out = chk.coq_judge(IMPORTS, "list str * list (list piece) * (list str + nat)", "judge_layout", terms)
        if out is not None:
            chk.traces += len(cases)
            for idx, code in sorted(out.items()):
                lines, pss, res = cases[idx]
                if code & 2:
                    chk.disagreements += 1
                    chk.violation("failing-input", {"what": "extracted statements differ from the lexical meaning",
                                                    "lines": lines, "impl": res, "code": code,
                                                    "expected": [L.split_statements(ps) for ps in pss]}, True)
                else:
                    chk.violation("broken-correspondence",
                                  {"what": "FortranReader vs model on a generated layout", "lines": lines,
                                   "impl": res, "code": code}, False)
        else:
            # the judge could not be evaluated: the fixed regression inputs are still decided here
            for lines, pss in REGRESSIONS:
                res = run_reader(lines, workdir=work)
                want = [st for ps in pss for st in L.split_statements(ps)]
                got = [L.canon(o) for o in res[1] if not o.startswith("!")] if res[0] == "ok" else None
                if got != want:
                    chk.violation("failing-input", {"what": "extracted statements differ from the lexical meaning",
                                                    "lines": lines, "impl": res, "expected": want}, True)
        chk.extra["commentary_around_continued_literal_cases"] = shape_cases
        chk.extra["layout_cases"] = len(cases)
        # ---- C. parser level: literals in parsed data are verbatim in every layout, with `lower` off and on;
        #         the code around them is lower-cased exactly when `lower` is on
        fcases, fterms = [], []
        for i in range(120 if quick else 3000):
            logical, checks = gen_literal_module(rng, i)
            p_cut = rng.choice([0.0, 0.0, 0.03, 0.08, 0.2])
            lines, ncuts = [], 0
            for pieces in logical:
                lay = L.gen_layout(rng, pieces, {"p_cut": p_cut})
                lines += lay["lines"]
                ncuts += lay["cuts"]
                if rng.random() < 0.15:
                    lines.append(rng.choice(["", "  ! Ordinary COMMENT with 'Quotes'"]))
            text = "\n".join(lines) + "\n"
            if not core.is_ascii(text):
                continue
            for lw in (False, True):
                res = parse_fields(text, lower=lw, workdir=work)
                chk.count(("fields", lw, text), nontrivial=True,
                          sample={"text": text, "lower": lw} if i < 1 else None)
                if res[0] != "ok":
                    chk.violation("failing-input", {"what": "generated module with literal-bearing declarations is "
                                                    "rejected by the parser", "text": text, "lower": lw, "impl": res}, True)
                    continue
                for key, field, src in checks:
                    got = field_of(res[1], key, field)
                    fcases.append((text, lw, key, field, src, got))
                    fterms.append(f"({'true' if lw else 'false'}, {coq_str(src)}, "
                                  f"{'Some ' + coq_str(got) if isinstance(got, str) and core.is_ascii(got) else 'None'})")
                # entity names are code: lower-cased exactly when `lower` is on
                for key, _f, _s in checks:
                    want = [nm for nm in res[1]["names"] if nm.lower() == key[1]]
                    if key[0] != "param" and (not want or (want[0] == want[0].lower()) != (lw or key[1] == want[0])):
                        chk.violation("failing-input", {"what": "entity name not lower-cased exactly when `lower` is on",
                                                        "text": text, "lower": lw, "name": key[1], "impl": want}, True)
        out = chk.coq_judge(IMPORTS, "bool * str * option str", "judge_field", fterms)
        bad = None
        if out is not None:
            chk.traces += len(fcases)
            bad = sorted(out)
        else:
            bad = [i for i, (text, lw, key, field, src, got) in enumerate(fcases)
                   if got != (lower_outside(src) if lw else src)]
        for idx in bad:
            text, lw, key, field, src, got = fcases[idx]
            chk.disagreements += 1
            chk.violation("failing-input", {"what": "text of a parsed entity: literal not verbatim, or code not "
                                            "lower-cased exactly when `lower` is on", "text": text, "lower": lw,
                                            "entity": list(key), "field": field, "source": src, "impl": got,
                                            "expected": lower_outside(src) if lw else src}, True)
        chk.extra["parser_field_cases"] = len(fcases)
        # ---- B. malformed / doc-marker stream: model = impl only
        mcases = []
        for _ in range(600 if quick else 20000):
            lines = malformed(rng)
            marks = rng.choice([("!", ">", "*", "|"), ("!", ">", "*", "|"), ("!", "", "", ""), ("^", ">", "", "|")])
            res = run_reader(lines, marks, workdir=work)
            mcases.append((marks, lines, res))
            chk.count(("mal", marks, tuple(lines)), nontrivial=len(lines) > 1)
        terms = [f"(mkcfg {' '.join(coq_str(m) for m in marks)}, {coq_list(coq_str(l) for l in lines)}, {coq_impl(res)})"
                 for marks, lines, res in mcases]
        out = chk.coq_judge(IMPORTS, "cfg * list str * (list str + nat)", "judge_lines", terms)
        if out is not None:
            chk.traces += len(mcases)
            for idx, code in sorted(out.items()):
                marks, lines, res = mcases[idx]
                chk.violation("broken-correspondence", {"what": "FortranReader vs model (malformed/doc stream)",
                                                        "marks": marks, "lines": lines, "impl": res}, False)
    finally:
        shutil.rmtree(work, ignore_errors=True)


def replay(chk, rep):
    if "text" in rep:
        res = parse_fields(rep["text"], lower=bool(rep.get("lower")))
        print("impl:", res)
        if "entity" in rep and res[0] == "ok":
            got = field_of(res[1], tuple(rep["entity"]), rep.get("field"))
            want = lower_outside(rep["source"]) if rep.get("lower") else rep["source"]
            print("field:", repr(got), "expected:", repr(want))
            return 0 if got == want else 1
        return 0 if res[0] == "ok" else 1
    lines = rep["lines"]
    marks = tuple(rep.get("marks", ("!", ">", "*", "|")))
    res = run_reader(lines, marks)
    print("impl:", res)
    chk.build(["theories/Corr/C02.vo"])
    term = f"(mkcfg {' '.join(coq_str(m) for m in marks)}, {coq_list(coq_str(l) for l in lines)}, {coq_impl(res)})"
    out = chk.coq_judge(IMPORTS, "cfg * list str * (list str + nat)", "judge_lines", [term])
    print("model agrees" if not out else "model disagrees")
    return 1 if out else 0


def finish(chk):
    return chk.finish(
        level_note="Coq theorems about the reader model (scanner lemmas, layout invariance for every layout of a "
                   "logical line); model tied to ford.reader.FortranReader by differential runs",
        trusted_base=["Coq 8.16.1 kernel (+ vm_compute for case evaluation)", "hand-written model Lex/Quote.v, "
                      "Lex/Reader.v (regex recognisers written from the pattern text)", "harness generators/adapters",
                      "7-bit ASCII input, no preprocessor, no include"],
        rule="generated token-level layouts (pieces x cuts x comments x blank lines), bounded-exhaustive small "
             "layouts, malformed/doc-marker line streams; distinct = distinct physical line list; non-trivial = "
             "has a continuation or several lines",
        checker_cmd="make theories/Props/C02.vo && coqc theories/Props/C02.v (Print Assumptions)",
        assumptions=["Python's re semantics for COM_RE/docmark patterns as modelled by first_bang",
                     "file iteration yields lines without embedded newlines"])
