"""C13 — every graph shows exactly the relation it is documented to show."""
import hashlib
import json
import pathlib
import re
import time

from harness import core
from harness.core import coq_list, coq_bool
from harness.gen import graphs as GG
from harness.impl import fordrun as F
from harness.impl import graphs as GI

IMPORTS = "From Coq Require Import NArith.\nFrom Ford Require Import Base.Str Out.Graph Out.GraphSpec Corr.C13."
CASE_T = "case"
THEOREMS = ["C13_inverse", "C13_registry_fuel", "C13_call_nodes_sound", "C13_no_dangling", "C13_bfs_exact",
            "C13_node_limit", "C13_inverse_graph", "C13_calledby_is_inverse", "C13_forward_declared",
            "C13_edges_declared", "C13_inverse_declared", "C13_no_late_nodes", "C13_inverse_complete",
            "C13_graph_false"]
COUNTS = {"intended_relations": 0, "intended_arrows_checked": 0, "spec_from_generator": 0, "declared_call_graph_roots": 0}
# the six defects repaired in /repo (known_findings.d/C13.json "fixed"): their witnesses are replayed on every
# run and a defect that returns is a failing input
REGRESSIONS = [("graph-false-neighbour", "c13_graph_false"), ("lazy-inverse", "c13_lazy_inverse"),
               ("filegraph-reversed", "c13_filegraph_reversed"),
               ("callgraph-limit-double-count", "c13_callgraph_limit"),
               ("module-procedure-impl-edge", "c13_module_procedure_impl"),
               ("external-procedure-call-unresolved", "c13_external_procedure_calls")]

CORPUS = [
    # project-level proc_internals off, one procedure switches it on: its internal procedures are displayed
    ({"src/t.f90": "module m\ncontains\nsubroutine q\nend subroutine\nsubroutine host\n!! proc_internals: true\n"
                   "call inner\ncontains\n  subroutine inner\n    call q\n  end subroutine\n  subroutine lone\n"
                   "    call q\n  end subroutine\nend subroutine\nsubroutine plain\ncontains\n  subroutine hidden_in\n"
                   "    call q\n  end subroutine\nend subroutine\nend module m\n"}, {"proc_internals": False}),
    # (files, settings) — hand-written projects that once mattered
    ({"src/t.f90": "module a\nend module a\nmodule b\n!! graph: false\nuse a\nend module b\nmodule c\nuse b\nuse extmod\n"
                   "contains\nsubroutine s1\ncall s2\ncall unknown_thing\nend subroutine\nsubroutine s2\ncall s1\n"
                   "end subroutine\nend module c\n"}, {}),
    ({"src/t.f90": "module m\ncontains\nsubroutine q\nend subroutine\nsubroutine host\n!! proc_internals: true\n"
                   "contains\n  subroutine inner\n    call q\n  end subroutine\nend subroutine\nend module m\n"}, {}),
    ({"src/a.f90": "module a\nend module a\n", "src/b.f90": "module b\nuse a\nend module b\n",
      "src/c.f90": "program c\nuse b\nend program\n"}, {"graph_maxdepth": 1}),
    ({"src/t.f90": "module m\ncontains\nsubroutine p0\ncall p1\nend subroutine\nsubroutine p1\ncall p2\nend subroutine\n"
                   "subroutine p2\ncall p0\nend subroutine\nend module m\n"}, {"graph_maxnodes": 4}),
    ({"src/t.f90": "module m\ntype :: t0\ncontains\nprocedure :: b0 => p0\nprocedure :: b1 => p1\n"
                   "generic :: g => b0, b1\nend type\ncontains\nsubroutine p0(this)\nclass(t0) :: this\nend subroutine\n"
                   "subroutine p1(this)\nclass(t0) :: this\nend subroutine\nend module m\n"}, {}),
]


# ------------------------------------------------------------------ one project -> one judge case
def relimit(rng, world, fixed=None):
    d = rng.choice([0, 1, 1, 2, 2, 3, 4, 10000])
    n = rng.choice([1, 2, 3, 4, 5, 6, 8, 10, 15, 1000000000, 1000000000])
    if fixed:
        d, n = fixed
    for i in sorted(world.ents, key=lambda i: world.ident[i]):     # canonical order: ids depend on set iteration
        e = world.ents[i]
        obj = e.get("obj")
        if obj is not None and hasattr(obj, "meta") and (fixed or rng.random() < 0.85):
            obj.meta.graph_maxdepth = d
            obj.meta.graph_maxnodes = n
    return d, n


def project_case(rng, files, st, nruns, project=None, intended=None, limits=None, proj=None):
    """parse, build the graphs nruns times under different limits; returns (term, info) or raises"""
    st = {k: (dict(v) if isinstance(v, dict) else v) for k, v in st.items()}   # FORD updates extra_mods in place
    show = bool(st.pop("show_proc_parent", False))
    with F.Work(files) as w:
        p = project if project is not None else F.parse_project(w.root, graph=True, **st)
        runs, infos = [], []
        world = None
        for k in range(nruns):
            gm, log = GI.build_graphs(p, show)
            wk, regs, recs = GI.collect(p, log)
            if world is None:
                world, regs0 = wk, regs
                wterm = world.term()
                allv, _ = GI.registered(p)
                regids = [world.node(r, "KMod") for r in regs]
                nograph = sorted(i for i, e in world.ents.items() if not e.get("graph", True))
            else:
                # same objects -> same ids (ids are assigned in traversal order of the same project)
                assert wk.term() == wterm, "world changed between runs"
            runs.append(recs)
            infos.append(python_checks(p, gm, log, recs, wk))
            if k == 0 and intended:
                infos.append(intended_check(intended, recs, wk, proj))
            if k + 1 < nruns:
                relimit(rng, world, limits[k] if limits else None)
    labels, lbad = GI.label_table(runs)
    spec, sbad = spec_term(world, allv, proj, st)
    term = ("(" + wterm + ", " + GI.nats(regids) + ", " + GI.nats(nograph) + ", " + coq_bool(show) + ", " +
            labels + ", " + coq_list(coq_list(GI.graph_term(r) for r in recs) for recs in runs) + ", " + spec + ")")
    problems = [x for i in infos for x in i] + lbad + sbad
    summary = dict(entities=len(world.ents), registered=len(regids), nograph=len(nograph),
                   graphs=sum(len(r) for r in runs),
                   edges=sum(len(g["edges"]) for r in runs for g in r),
                   truncated=sum(1 for r in runs for g in r if g["trunc"] is not None),
                   limit_hit=sum(1 for r in runs for g in r if g["hop"]),
                   classes=sorted({g["cls"] for r in runs for g in r}))
    return term, summary, problems, runs


def spec_term(world, allv, proj, st=None):
    """the Spec side from the generator: Some (world with the declared relation, entities of the registration
    lists without graph: false, entities with graph: false) for a strict generated project, else None"""
    if proj is None or not proj.get("strict"):
        return "None", []
    rel, ng_keys, root_keys = GG.declared(proj, st)
    ents, keyid = world.gen_world(rel, force=root_keys)
    bad = []
    # displayed-ness of internal procedures: the generator's rule against FORD's flag
    for k, d in rel.items():
        if "visible" in d and k in keyid and keyid[k] in world.ents:
            fv = world.ents[keyid[k]].get("visible")
            if fv is not None and bool(fv) != bool(d["visible"]):
                bad.append(f"internal procedure {k[1]}: displayed according to the source metadata = {d['visible']}, "
                           f"FORD's visible = {fv}")
    allids = [world.node(r, "KMod") for r in allv]
    top = max(world.ents, default=0)          # ids above are entities FORD has no object for: never in a graph
    ng = sorted(keyid[k] for k in ng_keys if k in keyid and keyid[k] <= top)
    ford_ng = sorted(i for i, e in world.ents.items() if not e.get("graph", True))
    if ng != ford_ng:
        bad.append(f"graph: false written for {ng} but FORD has it for {ford_ng}")
    # what was handed to GraphData.register (which entities are documented is not a relation)
    sregs = list(world.regids)
    COUNTS["spec_from_generator"] += 1
    roots = sorted(keyid[k] for k in root_keys)
    COUNTS["declared_call_graph_roots"] += len(roots)
    return f"Some ({world.term(ents)}, {GI.nats(sregs)}, {GI.nats(ng)}, {GI.nats(roots)})", bad


def python_checks(project, gm, log, recs, world):
    """property checks that need FORD's objects (sound on correct code)"""
    bad = []
    for (gobj, roots), r in zip(log, recs):
        if r["nodes"] != r["added"]:
            bad.append(f"{r['ident']}: nodes in DOT source {r['nodes']} differ from graph.added {r['added']}")
        if any(s not in ("solid", "dashed") for s in r["styles"]):
            bad.append(f"{r['ident']}: edge style {r['styles']}")
    allv, regs = GI.registered(project)
    want = {"KMod": ["usesgraph", "usedbygraph"], "KSubmod": ["usesgraph", "usedbygraph"],
            "KType": ["inhergraph", "inherbygraph"], "KProc": ["callsgraph", "calledbygraph", "usesgraph"],
            "KProg": ["usesgraph", "callsgraph"], "KFile": ["afferentgraph", "efferentgraph"], "KBlock": ["usesgraph"]}
    made = {id(g) for g, _ in log}
    for it in allv:
        kind = world.kind_of(it)
        for a in want[kind]:
            has = id(getattr(it, a, None)) in made
            if it.meta.graph and not has:
                bad.append(f"{it.name}: no {a} although graph is not false")
            if not it.meta.graph and has:
                bad.append(f"{it.name}: {a} built although graph: false")
    for a in ("usegraph", "typegraph", "callgraph", "filegraph"):
        if id(getattr(gm, a, None)) not in made:
            bad.append(f"project-wide {a} missing")
    # every displayed internal procedure of a procedure that draws graphs is expanded by the project-wide call
    # graph (displayed = FORD's own flag, set by prune() from the per-entity or project-level proc_internals)
    cg = getattr(gm, "callgraph", None)
    if cg is not None and id(cg) in made:
        root_idents = {n.ident for n in cg.root}

        def internals(o):
            for q in list(getattr(o, "subroutines", []) or []) + list(getattr(o, "functions", []) or []):
                yield q
                yield from internals(q)
        for it in regs:
            if world.kind_of(it) == "KProc":
                for q in internals(it):
                    if getattr(q, "visible", False) and q.meta.graph and \
                            f"{q.get_dir() or 'none'}~{q.ident}" not in root_idents:
                        bad.append(f"call graph: displayed internal procedure {q.name} of {it.name} is not expanded")
    return bad


def intended_check(intended, recs, world, proj=None):
    """the relation written into the generated source is drawn: for each `use`, submodule parent, type
    extension and type-valued component of the generated text, the arrow is in the first hop of the
    source entity's own uses / inherits graph (when that graph exists and its first hop was drawn)"""
    bad = []
    byid = {r["ident"]: r for r in recs}
    COUNTS["intended_relations"] += len(intended)
    project_mods = {u["name"] for f in (proj or {}).get("files", []) for u in f if u["kind"] in ("module", "submodule")}
    for kind, a, b in sorted(intended):
        if kind in ("uses", "anc"):
            gids = [f"module~~{a}~~UsesGraph", f"program~~{a}~~UsesGraph"]
            tails = {f"module~{a}", f"program~{a}"}
            heads = {f"module~{b}"} if (re.fullmatch(r"m\d+|s\d+_\w+", b) or b in project_mods) else {b}
            dashed = kind == "uses"
        else:
            gids = [f"type~~{a}~~InheritsGraph"]
            tails, heads = {f"type~{a}"}, {f"type~{b}", b}
            dashed = kind == "comp"
        for gid in gids:
            r = byid.get(gid)
            if r is None or r["hop"]:
                continue
            found = any(world.ident[t] in tails and world.ident[h] in heads and d == dashed
                        for t, h, d, _ in r["edges"])
            COUNTS["intended_arrows_checked"] += 1
            if not found:
                bad.append(f"{gid}: no {'dashed' if dashed else 'solid'} arrow {a} -> {b} for the {kind} "
                           f"relation written in the source")
    return bad


# ------------------------------------------------------------------ main
def handle(chk, cases, res):
    if res is None:
        return
    for idx, (term, meta) in enumerate(cases):
        code = res.get(idx, 0)
        chk.traces += meta["summary"]["graphs"]
        if code:
            chk.disagreements += 1
        if code & 2 or code >> 2:
            chk.violation("failing-input", {"what": "a graph built by FORD violates the property (see detail)",
                                            "files": meta["files"], "settings": meta["settings"], "code": code,
                                            "nruns": meta["nruns"], "rngstate": meta.get("seed"),
                                            "limits": meta.get("limits")}, True)
        elif code & 1:
            chk.violation("broken-correspondence", {"what": "Coq graph model and ford.graphs disagree",
                                                    "files": meta["files"], "settings": meta["settings"],
                                                    "code": code, "nruns": meta["nruns"],
                                                    "rngstate": meta.get("seed"), "limits": meta.get("limits")},
                          False)


def add_case(chk, cases, rng, files, st, nruns, tag, intended=None, limits=None, proj=None):
    seed = rng.getrandbits(32)
    import random
    sub = random.Random(seed)
    key = hashlib.sha1(json.dumps([files, st], sort_keys=True, default=str).encode()).hexdigest()[:12]
    try:
        term, summary, problems, runs = project_case(sub, files, st, nruns, intended=intended, limits=limits, proj=proj)
    except Exception as e:  # FORD failed on a valid project: an output, not a harness crash
        chk.count((tag, key), nontrivial=False, sample={"files": sorted(files), "error": repr(e)[:300]})
        chk.violation("failing-input", {"what": "ford raised on a generated project", "error": repr(e)[:2000],
                                        "files": files, "settings": st}, True)
        return
    chk.count((tag, key), nontrivial=summary["edges"] > 0,
              sample={"files": sorted(files), "settings": st, **summary})
    for k in ("graphs", "edges", "truncated", "limit_hit"):
        chk.extra.setdefault("totals", {}).setdefault(k, 0)
        chk.extra["totals"][k] += summary[k]
    for pbl in problems[:3]:
        chk.violation("failing-input", {"what": pbl, "files": files, "settings": st}, True)
    cases.append((term, dict(files=files, settings=st, summary=summary, nruns=nruns, seed=seed, limits=limits)))


def exhaustive(chk, cases, rng, kprocs, kmods):
    """every call relation (self loops included) on kprocs procedures of one module and every USE DAG on
    kmods modules, each under every (graph_maxdepth, graph_maxnodes) of a small grid"""
    import itertools
    grid = [(d, n) for d in (0, 1, 2, 3) for n in (1, 2, 3, 1000000000)]
    pairs = [(i, j) for i in range(kprocs) for j in range(kprocs)]
    count = 0
    for mask in range(2 ** len(pairs)):
        body = []
        for i in range(kprocs):
            body.append(f"subroutine p{i}()")
            body += [f"  call p{j}()" for b, (a, j) in enumerate(pairs) if a == i and mask >> b & 1]
            body.append(f"end subroutine p{i}")
        files = {"src/x.f90": "module m\ncontains\n" + "\n".join(body) + "\nend module m\n"}
        add_case(chk, cases, rng, files, {}, len(grid) + 1, "exh-calls", limits=grid)
        count += 1
    mp = [(i, j) for i in range(kmods) for j in range(i)]
    for mask in range(2 ** len(mp)):
        files = {}
        for i in range(kmods):
            uses = "".join(f"  use m{j}\n" for b, (a, j) in enumerate(mp) if a == i and mask >> b & 1)
            files[f"src/m{i}.f90"] = f"module m{i}\n{uses}end module m{i}\n"
        add_case(chk, cases, rng, files, {}, len(grid) + 1, "exh-uses", limits=grid)
        count += 1
    chk.extra["exhaustive"] = (f"all {2 ** len(pairs)} call relations on {kprocs} procedures and all "
                               f"{2 ** len(mp)} USE DAGs on {kmods} modules x {len(grid)} (depth, maxnodes) pairs")
    return count


def run(chk):
    chk.build(["theories/Corr/C13.vo", "theories/Props/C13.vo"])
    chk.props("theories/Props/C13.v", THEOREMS)
    if chk.tier == "thorough":
        chk.coqchk(["Ford.Props.C13"])
    rng = chk.rng
    quick = chk.tier == "quick"
    cases = []
    cdir = core.VERIF / "corpus" / "C13"
    corpus = list(CORPUS)
    for f in sorted(cdir.glob("*.json")) if cdir.is_dir() else []:
        d = json.load(open(f))
        corpus.append((d["files"], d.get("settings", {})))
    for files, st in corpus:
        add_case(chk, cases, rng, files, st, 3, "corpus")
    exhaustive(chk, cases, rng, 2 if quick else 3, 3 if quick else 4)
    n = 80 if quick else 1000
    for i in range(n):
        # every fifth project is drawn in the loose mode (ambiguous references, deferred and inherited
        # bindings): model = implementation only; the others carry the generator's declared relation
        proj = GG.gen(rng, {"big": (not quick) and i % 10 == 0, "strict": i % 5 != 4,
                            "nmods": rng.choice([2, 3, 4]) if i % 40 in (0, 1) else None})
        st = GG.settings(rng)
        if i % 40 == 0:
            # a project module named like a module FORD knows by itself (settings.INTRINSIC_MODS): plain
            # `use mpi` from a module, a procedure and a program means the project's module
            GG.force_shadowing(rng, proj, rng.choice(["mpi", "omp_lib", "mpi_f08", "openacc"]))
        elif i % 40 == 1:
            # ... and a project module that also has an extra_mods entry
            GG.force_shadowing(rng, proj)
            st["extra_mods"] = {"m0": "https://example.org/doc/m0.html", "elsewhere": "https://example.org/e.html"}
        add_case(chk, cases, rng, GG.render(proj), st, 3 if quick else 4, "gen", GG.intended(proj), proj=proj)
    t0 = time.time()
    res = chk.coq_judge(IMPORTS, CASE_T, "judge", [t for t, _ in cases], shard=5 if quick else 8)
    chk.extra["coq_eval_s"] = round(time.time() - t0, 1)
    handle(chk, cases, res)
    end_to_end(chk, rng, 3 if quick else 20)
    chk.extra.update(COUNTS)
    findings(chk)


def end_to_end(chk, rng, nproj):
    """the real pipeline: ford.main with graph: true; the graphs Documentation builds are judged the same
    way, and the .gv files written to graph_dir must hold the same DOT source"""
    import ford.output
    cases = []
    for k in range(nproj):
        proj = GG.gen(rng, {"nmods": rng.choice([2, 3])})
        files = GG.render(proj)
        st = GG.settings(rng)
        opts = {"graph": "true", "graph_dir": "./gv", "search": "false", "parallel": "0"}
        for key in ("graph_maxdepth", "graph_maxnodes", "proc_internals", "show_proc_parent"):
            if key in st:
                opts[key] = str(st[key]).lower()
        if "display" in st:
            opts["display"] = st["display"]
        seen = {}
        orig = ford.output.Documentation.__init__

        def spy_doc(this, settings, proj_docs, project, pagetree, _orig=orig, _seen=seen):
            _seen["project"] = project
            return _orig(this, settings, proj_docs, project, pagetree)
        with F.Work(files) as w:
            gmod = GI.graphs_module()
            gmod.graphviz_installed = True       # the real thing: dot renders every graph
            ford.output.Documentation.__init__ = spy_doc
            try:
                with GI.Spy() as spy:
                    data, out, err = F.full_run_inprocess(w.root, opts)
            finally:
                ford.output.Documentation.__init__ = orig
                gmod.graphviz_installed = False
            key = hashlib.sha1(json.dumps(files, sort_keys=True).encode()).hexdigest()[:12]
            chk.count(("e2e", key), sample={"files": sorted(files), "options": opts, "error": err,
                                            "graphs": len(spy.log)})
            if err or "project" not in seen:
                chk.violation("failing-input", {"what": "ford.main failed with graph: true", "error": err,
                                                "log": out[-1500:], "files": files, "options": opts}, True)
                continue
            p = seen["project"]
            world, regs, recs = GI.collect(p, GI.SpyLog(spy.log, spy.registered))
            allv, _ = GI.registered(p)
            gm = type("GM", (), {})()
            for a in ("usegraph", "typegraph", "callgraph", "filegraph"):
                setattr(gm, a, getattr(p, a, None))
            for pbl in python_checks(p, gm, spy.log, recs, world)[:3]:
                chk.violation("failing-input", {"what": pbl, "files": files, "options": opts}, True)
            show = st.get("show_proc_parent", False)
            labels, lbad = GI.label_table([recs])
            for pbl in lbad[:2]:
                chk.violation("failing-input", {"what": pbl, "files": files, "options": opts}, True)
            spec, sbad = spec_term(world, allv, proj, st)
            for pbl in sbad[:2]:
                chk.violation("failing-input", {"what": pbl, "files": files, "options": opts}, True)
            term = ("(" + world.term() + ", " + GI.nats([world.node(r, "KMod") for r in regs]) + ", " +
                    GI.nats(sorted(i for i, e in world.ents.items() if not e.get("graph", True))) + ", " +
                    coq_bool(show) +
                    ", " + labels + ", " + coq_list([coq_list(GI.graph_term(r) for r in recs)]) + ", " + spec + ")")
            summary = dict(graphs=len(recs), edges=sum(len(g["edges"]) for g in recs))
            cases.append((term, dict(files=files, settings=opts, summary=summary, nruns=1)))
            # .gv files: same DOT source as the graph object; SVG of the graph names the same nodes
            gv = {f.name: f.read_text() for f in (w.root / "gv").glob("*.gv")}
            byname = {gobj.imgfile + ".gv": gobj for gobj, _ in spy.log}
            for name, text in gv.items():
                if name not in byname:
                    chk.violation("failing-input", {"what": f"{name} in graph_dir belongs to no graph",
                                                    "files": files, "options": opts}, True)
                elif GI.parse_dot(text) != GI.parse_dot(byname[name].dot.source):
                    chk.violation("failing-input", {"what": f"{name} differs from the graph's DOT source",
                                                    "files": files, "options": opts}, True)
            for a in ("usegraph", "typegraph", "callgraph", "filegraph"):
                gobj = getattr(p, a)
                if len(gobj.added) > len(gobj.root) and gobj.imgfile + ".gv" not in gv:
                    chk.violation("failing-input", {"what": f"{gobj.imgfile}.gv not written to graph_dir",
                                                    "files": files, "options": opts}, True)
            chk.extra["gv_files_compared"] = chk.extra.get("gv_files_compared", 0) + len(gv)
            for gobj, roots in spy.log:
                titles = set(re.findall(r"<title>([^<]*)</title>", gobj.svg_src or ""))
                nodes, edges = GI.parse_dot(gobj.dot.source)
                want = {n for n in nodes}
                have = {t.replace("&#45;", "-").replace("&gt;", ">").replace("&amp;", "&") for t in titles}
                missing = [n for n in want if n not in have]
                if gobj.svg_src and missing:
                    chk.violation("failing-input", {"what": f"SVG of {gobj.ident} lacks nodes {missing[:3]}",
                                                    "files": files, "options": opts}, True)
    res = chk.coq_judge(IMPORTS, CASE_T, "judge", [t for t, _ in cases], shard=2)
    handle(chk, cases, res)


def findings(chk):
    """the witnesses of the repaired defects are regression inputs: a defect that returns fails the check"""
    import importlib
    for key, mod in REGRESSIONS:
        try:
            m = importlib.import_module("findings." + mod)
            back = bool(m.demonstrate(verbose=False))
        except Exception as e:  # noqa
            chk.obligation("regression:" + key, False, f"demonstration failed to run: {e!r}")
            continue
        chk.count(("regression", key), sample={"regression": key, "defect_present": back})
        chk.extra.setdefault("regression_replays", {})[key] = back
        if back:
            chk.violation("failing-input", {"what": f"repaired defect is back: {key}",
                                            "demo": f"findings/{mod}.py", "doc": (m.__doc__ or "")[:600]}, True)


def replay(chk, rep):
    chk.build(["theories/Corr/C13.vo"])
    if "files" not in rep:
        print(json.dumps(rep, indent=1)[:3000])
        return 0
    import random
    st = {k: v for k, v in rep.get("settings", {}).items()
          if k in ("graph_maxdepth", "graph_maxnodes", "proc_internals", "show_proc_parent", "display",
                   "extra_mods")}
    for k in ("graph_maxdepth", "graph_maxnodes"):
        if k in st:
            st[k] = int(st[k])
    for k in ("proc_internals", "show_proc_parent"):
        if k in st and isinstance(st[k], str):
            st[k] = st[k] == "true"
    sub = random.Random(rep.get("rngstate", 0))
    lim = [tuple(x) for x in rep["limits"]] if rep.get("limits") else None
    term, summary, problems, runs = project_case(sub, rep["files"], st, rep.get("nruns", 1), limits=lim)
    print("summary:", summary)
    for pbl in problems:
        print("python check:", pbl)
    res = chk.coq_judge(IMPORTS, CASE_T, "judge", [term])
    print("judge code (bit0 model<>impl, bit1 property violated):", res)
    print("relation FORD derived vs relation declared in the source (entity, only FORD, only source):",
          chk.coq_eval(IMPORTS, f"relation_diff {term}")[-2000:])
    out = chk.coq_eval(IMPORTS, f"detail {term}")
    print("detail (run, graph, model-mismatch, property violated):", out[-3000:])
    m = re.findall(r"\((\d+), (\d+), (true|false), (true|false)\)", out)
    for r, j, mm, un in m[:10]:
        g = runs[int(r)][int(j)]
        print(f" run {r} graph {j}: {g['ident']} roots={g['roots']} lims={g['lims']} nodes={g['nodes']} "
              f"edges={[(t, h, d) for t, h, d, _ in g['edges']]} trunc={g['trunc']} hop={g['hop']}")
    if res is None:
        return 1
    return 1 if (any(c & 3 for c in res.values()) or problems) else 0


def finish(chk):
    return chk.finish(
        level_note="Coq proofs over all relations / limits for the registry and BFS model; model tied to "
                   "ford.graphs by comparing every graph of generated projects",
        trusted_base=["Coq 8.16.1 kernel (vm_compute evaluates the model on the cases and closes the witnesses)",
                      "harness/impl/graphs.py (reads the relation from FORD's objects, parses DOT sources)",
                      "harness/gen/graphs.py (generator; [declared] states the relation of the generated text "
                      "under the scoping rules of the generated subset and is the Spec side of the judge)",
                      "hand-written model Out/Graph.v",
                      "graphviz dot only for the end-to-end runs"],
        rule="Spec side = relation declared by the generator (strict projects, 4 of 5) / relation read from FORD's "
             "objects (loose, hand-written, exhaustive layers); visibility flags are taken from FORD; "
             "one case = one generated project x limit settings; distinct = distinct (files, settings) with at "
             "least one edge in some graph; every graph object FORD builds is compared (nodes, edges with style "
             "and label, truncated, hop_nodes, node labels)",
        checker_cmd="make theories/Props/C13.vo && coqc theories/Props/C13.v (Print Assumptions)",
        assumptions=["the six defects recorded earlier are repaired in /repo (known_findings.d/C13.json fixed); "
                     "their witnesses are replayed as regression inputs",
                     "module USE relation acyclic (FORD's toposort rejects cycles before graphs are built)",
                     "7-bit names", "no external (extra_mods / external_links) projects",
                     "iteration order of Python sets only affects the order of DOT lines"])
