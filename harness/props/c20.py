"""C20 — an unparseable file is skipped without disturbing the rest."""
import contextlib
import io
import os
import pathlib
import shutil
import signal
import tempfile
import time

from harness import core
from harness.core import coq_str, coq_list
from harness.gen import ftree as T
from harness.impl import tree as I
from harness.impl import fordrun as F
from harness.props.c01 import case_term, IMPORTS, CASE_T, impl_term

IMPORTS20 = "From Ford Require Import Base.Str Sem.Tree Corr.C01 Corr.C20."
CASE_T20 = "str * list stmt * (ent + nat) * bool"
STRAY_ENDS = ["end", "END", "end module nosuch", "end subroutine s", "end program", "endfunction", "end  module",
              "end type", "end interface"]


def reject_term(fname, events, res, must_reject):
    stmts = coq_list(t for t, _ in events if t is not None)
    return f"({coq_str(fname)}, {stmts}, {impl_term(res)}, {core.coq_bool(must_reject)})"


def render_with_marks(cx, fnode):
    """events of a file plus the event indices at which no program unit is open"""
    out = T.Out()
    out.cx = cx
    marks = [0]
    for u in fnode["children"]:
        T.render_container(cx, out, u)
        marks.append(len(out.events))
    return out.events, marks

THEOREMS = ["C20_truncation_rejected", "C20_stray_end_rejected", "C20_isolation", "C20_parse_total"]
GARBAGE = ["this is not fortran at all", "end", "contains", "end module nothing", "module", "program a\nprogram b",
           "subroutine s(\n", "))))((((", "x = 'unterminated", "&", "  & continued from nowhere", "interface\ncontains",
           "type t\nend module t", "\x00\x01\x02", "module m\ncontains\ncontains\nend module", "function f(\nend",
           "submodule (a) b\nend program", "block data\nend block", "module m\n integer :: x\n", "! only a comment",
           "", "   \n\n", "#ifdef X\nmodule m\n#endif", "enum, bind(c)\n enumerator :: a = 'x'\nend enum",
           # diagnostics that quote the offending line: brackets must come out as they are
           "  & \"[/s]\" continued from nowhere", "module m\n real :: per_second = \"[/s]\" !> inline predoc\nend module m",
           "x = '[bold]' &\n\n& '[/bold]'\n&"]


# lines that are cheap to write and expensive for a backtracking matcher: long runs of one character
PATHOLOGICAL = ["'" * 78, '"' * 77, "x = " + "''" * 30 + " ! c", 'title = ' + '""' * 34,
                "module m\n character(4) :: rule = " + "'" * 61 + "\nend module m",
                "Notes\n" + '"' * 70 + "\nsome text, not Fortran", "(" * 80, "call s(" + "(" * 40 + ")" * 39,
                "&" * 80, "!" * 80 + "'" * 60, "a" + ", a" * 200, "x = " + "1 + " * 150 + "1"]


class Timeout(BaseException):
    """raised by the watchdog; not an Exception, so that FORD's own `except Exception` handlers (the per-file
    handler of Project.__init__ among them) cannot swallow it and turn a hang into a skipped file"""


@contextlib.contextmanager
def watchdog(seconds):
    def handler(signum, frame):
        raise Timeout()
    old = signal.signal(signal.SIGALRM, handler)
    signal.alarm(seconds)
    try:
        yield
    finally:
        signal.alarm(0)
        signal.signal(signal.SIGALRM, old)


def gen_valid_files(rng, n):
    files, mods = [], []
    for i in range(n):
        cx = T.Ctx(rng, docs=True, spell=rng.random() < 0.5)
        cx.n = 100 * i          # distinct entity names per file, except the deliberately shared ones below
        f = T.gen_file(cx, f"v{i}.f90", mods, allow_program=(i == 0))
        ev = T.render_file(cx, f)
        files.append((f, ev, "\n".join(t for _, t in ev if t is not None) + "\n"))
    return files


def bad_variants(rng, valid):
    """bad files derived from a valid one: truncation at a statement boundary, splice, corruption"""
    f, ev, text = valid
    lines = [t for _, t in ev]
    out = []
    cuts = sorted(rng.sample(range(1, len(lines)), min(3, max(0, len(lines) - 1)))) if len(lines) > 1 else []
    for c in cuts:
        out.append(("truncate", "\n".join(lines[:c]) + "\n", ev[:c]))
    if len(lines) > 3:
        i = rng.randrange(1, len(lines) - 1)
        out.append(("drop-line", "\n".join(lines[:i] + lines[i + 1:]) + "\n", None))
        out.append(("dup-end", "\n".join(lines[:i] + ["end"] + lines[i:]) + "\n", None))
        out.append(("contains", "\n".join(lines[:i] + ["contains"] + lines[i:]) + "\n", None))
    out.append(("garbage", rng.choice(GARBAGE + PATHOLOGICAL) + "\n", None))
    out += cut_in_continuation(rng, lines)
    return out


def cut_in_continuation(rng, lines):
    """the file ends inside a continued statement (a cut at a physical line, not at a statement boundary), with
    or without documentation pending for that statement"""
    idx = [i for i, l in enumerate(lines) if l and "::" in l and "!" not in l and not l.rstrip().endswith("&")]
    if not idx:
        return []
    i = rng.choice(idx)
    head = lines[:i]
    shape = rng.choice(["inline-doc", "doc-after", "plain", "predoc"])
    if shape == "inline-doc":
        tail = [lines[i] + ", &   !! pending documentation"]
    elif shape == "doc-after":
        tail = [lines[i] + ", &", "    !! pending documentation"]
    elif shape == "predoc":
        tail = ["  !> documentation before", lines[i] + ", &"]
    else:
        tail = [lines[i] + ", &"]
    return [("cut-in-continuation:" + shape, "\n".join(head + tail) + "\n", None)]


def stray_end_variants(rng, n):
    """valid files with one END statement added where no unit is open (before, between or after the units)"""
    out = []
    for i in range(n):
        cx = T.Ctx(rng, docs=True, spell=rng.random() < 0.5)
        f = T.gen_file(cx, "s.f90", [], allow_program=True)
        ev, marks = render_with_marks(cx, f)
        m = rng.choice(marks)
        word = rng.choice(STRAY_ENDS)
        kind = "EndBlock" if False else "EndPlain"
        ev2 = ev[:m] + [(f"SEnd {kind}", word)] + ev[m:]
        out.append(("stray-end", "\n".join(t for _, t in ev2 if t is not None) + "\n", ev2))
    return out


def project_snapshot(root, order, names):
    """parse + correlate a project with a forced file enumeration order; canonical per-file trees and idents"""
    import ford.fortran_project as fp
    import ford.sourceform as sf
    orig = fp.find_all_files
    fp.find_all_files = lambda settings: [pathlib.Path(root) / "src" / n for n in order]
    buf = io.StringIO()
    try:
        with watchdog(20):
            p = F.parse_project(root, correlate=True)
    finally:
        fp.find_all_files = orig
    snap = {}
    for f in p.files:
        if f.name in names:
            node = I.file_node(f)
            ids = []
            for e in list(f.modules) + list(f.submodules) + list(f.programs) + list(f.functions) + list(f.subroutines):
                ids.append((e.name, e.ident, e.get_url()))
                for c in getattr(e, "types", []) + getattr(e, "functions", []) + getattr(e, "subroutines", []) \
                        + getattr(e, "variables", []):
                    ids.append((e.name, c.name, c.ident, c.get_url()))
            snap[f.name] = (T.tree_term(node), ids)
    return snap, [f.name for f in p.files], getattr(p, "_verif_log", "")


def run(chk):
    chk.build(["theories/Corr/C01.vo", "theories/Corr/C20.vo", "theories/Props/C20.vo"])
    chk.props("theories/Props/C20.v", THEOREMS)
    if chk.tier == "thorough":
        chk.coqchk(["Ford.Props.C20"])
    rng = chk.rng
    quick = chk.tier == "quick"
    work = tempfile.mkdtemp(prefix="verif_c20_")
    try:
        # A. the structural parser on truncated statement sequences: model = impl (rejected or tree)
        cases, terms = [], []
        variants = []
        for i in range(150 if quick else 3000):
            valid = gen_valid_files(rng, 1)[0]
            variants += bad_variants(rng, valid)
        variants += stray_end_variants(rng, 60 if quick else 1200)
        hangs = 0
        if True:
            for kind, text, ev in variants:
                if ev is None or not core.is_ascii(text):
                    continue
                t0 = time.time()
                if hangs >= 3:
                    break     # three non-terminating inputs are reported; do not wait for more of them
                try:
                    with watchdog(15):
                        res = I.parse_text(text, "b.f90", workdir=work)
                except Timeout:
                    hangs += 1
                    chk.violation("failing-input", {"what": "FORD did not terminate within 15 s on a truncated file",
                                                    "kind": kind, "text": text}, True)
                    continue
                # a stray END is invalid by construction; a cut may fall on a unit boundary (then the file is valid)
                must = kind == "stray-end"
                cases.append((text, ev, res, kind))
                terms.append(reject_term("b.f90", ev, res, must))
                chk.count((kind, text), sample={"kind": kind, "text": text[-300:], "impl": res[0]} if len(cases) < 3 else None)
        out = chk.coq_judge(IMPORTS20, CASE_T20, "judge_reject", terms, shard=40)
        if out is not None:
            chk.traces += len(cases)
            for idx, code in sorted(out.items()):
                text, ev, res, kind = cases[idx]
                if code & 2:
                    chk.violation("failing-input", {"what": "a file with an END statement where no program unit is "
                                  "open was accepted instead of being rejected", "kind": kind, "impl": res[0],
                                  "text": text}, True)
                else:
                    chk.violation("broken-correspondence", {"what": "invalid file: model and FORD disagree on "
                                  "rejection / tree", "kind": kind, "impl": res[0],
                                  "impl_detail": res[1] if res[0] != "ok" else None, "text": text}, False)
        # B. isolation: the other files' trees and identifiers with and without the bad file, every position
        nproj = 40 if quick else 400
        special = [g + "\n" for g in GARBAGE[-3:]]     # diagnostics that quote a line with markup-like brackets
        special += [g + "\n" for g in (PATHOLOGICAL if not quick else rng.sample(PATHOLOGICAL, 5) + PATHOLOGICAL[:2])]
        for pi in range(nproj):
            nvalid = rng.choice([2, 3])
            valids = gen_valid_files(rng, nvalid)
            # make a name clash likely: the bad file is derived from one of the valid files (stale copy)
            src = rng.choice(valids)
            kind, btext, _ = rng.choice(bad_variants(rng, src))
            if pi < len(special):
                kind, btext = "quoted-brackets", special[pi]
            elif pi < len(special) + 6:
                cc = cut_in_continuation(rng, [t for _, t in src[1]])
                if cc:
                    kind, btext, _ = cc[0]
            names = [v[0]["name"] for v in valids]
            with F.Work({f"src/{v[0]['name']}": v[2] for v in valids}) as w:
                try:
                    base, base_files, _ = project_snapshot(w.root, names, names)
                except Timeout:
                    chk.violation("failing-input", {"what": "FORD did not terminate on a valid project"}, True)
                    continue
                except Exception as e:  # noqa
                    continue   # the valid project itself is rejected (e.g. two programs): not a C20 case
                # is the bad file rejected at all? (a truncated file may still be a valid file)
                try:
                    with watchdog(15):
                        single = I.parse_text(btext, "bad.f90", workdir=work)
                except Timeout:
                    hangs += 1
                    if hangs <= 6:
                        chk.violation("failing-input", {"what": "FORD did not terminate within 15 s on a bad file",
                                                        "kind": kind, "text": btext}, True)
                    continue
                prev_bad = None
                for pos in range(nvalid + 1):
                    # FORD parses files in sorted order: the name places the bad file before / between / after
                    deco = rng.choice(["", "", "[old]", "[v2]", " (copy)", "[b]x"])
                    bad_name = f"a_bad{deco}.f90" if pos == 0 else f"v{pos - 1}z_bad{deco}.f90"
                    if prev_bad:
                        (w.root / "src" / prev_bad).unlink()
                    w.write(f"src/{bad_name}", btext)
                    prev_bad = bad_name
                    order = names[:pos] + [bad_name] + names[pos:]
                    try:
                        snap, files_now, log = project_snapshot(w.root, order, names)
                    except Timeout:
                        chk.violation("failing-input", {"what": "FORD did not terminate", "bad": btext,
                                                        "order": order}, True)
                        break
                    except BaseException as e:  # noqa
                        if isinstance(e, (KeyboardInterrupt, SystemExit)):
                            raise
                        if isinstance(e, Timeout):
                            chk.violation("failing-input", {"what": "FORD did not terminate", "bad": btext,
                                                            "order": order, "bad_name": bad_name,
                                                            "valid": {v[0]["name"]: v[2] for v in valids}}, True)
                            break
                        chk.violation("failing-input", {"what": "a bad file aborted the whole project instead of "
                                      "being skipped", "error": f"{type(e).__name__}: {e}", "bad": btext,
                                      "kind": kind, "order": order, "bad_name": bad_name,
                                      "valid": {v[0]["name"]: v[2] for v in valids}}, True)
                        break
                    chk.count(("iso", pi, pos, kind), sample={"order": order, "kind": kind,
                                                              "bad_rejected": single[0] != "ok"} if pi < 2 else None)
                    if single[0] != "ok":
                        if bad_name in files_now:
                            chk.violation("failing-input", {"what": "a file that cannot be parsed on its own was "
                                          "registered in the project", "bad": btext, "order": order,
                                          "bad_name": bad_name, "valid": {v[0]["name"]: v[2] for v in valids}}, True)
                        if bad_name not in log:
                            chk.violation("failing-input", {"what": "rejected file not named in the diagnostic",
                                                            "bad": btext, "log": log[-500:], "order": order,
                                                            "bad_name": bad_name,
                                                            "valid": {v[0]["name"]: v[2] for v in valids}}, True)
                        if snap != base:
                            diff = [n for n in names if snap.get(n) != base.get(n)]
                            chk.violation("failing-input", {"what": "the documentation of other files depends on "
                                          "the presence of a rejected file", "files": diff, "order": order,
                                          "kind": kind, "bad": btext, "bad_name": bad_name,
                                          "valid": {v[0]["name"]: v[2] for v in valids}}, True)
                            break
    finally:
        shutil.rmtree(work, ignore_errors=True)


def replay(chk, rep):
    """re-run the stored scenario on the current tree; 1 when it still fails"""
    work = tempfile.mkdtemp(prefix="verif_c20r_")
    try:
        text = rep.get("text") if rep.get("text") is not None else rep.get("bad")
        single = None
        if text is not None:
            try:
                with watchdog(15):
                    single = I.parse_text(text, "b.f90", workdir=work)
            except Timeout:
                print("FORD does not terminate on the stored file")
                return 1
            print("single file:", single[:2])
            if rep.get("kind") == "stray-end" and single[0] == "ok":
                print("a stray END is still accepted")
                return 1
        if rep.get("valid") and rep.get("order") and rep.get("bad_name"):
            names = [n for n in rep["order"] if n != rep["bad_name"]]
            with F.Work({f"src/{n}": s for n, s in rep["valid"].items()}) as w:
                base, _, _ = project_snapshot(w.root, names, names)
                w.write(f"src/{rep['bad_name']}", rep["bad"])
                try:
                    snap, files_now, log = project_snapshot(w.root, rep["order"], names)
                except Timeout:
                    print("FORD does not terminate on the stored project")
                    return 1
                except Exception as e:  # noqa
                    print("the bad file aborts the project:", type(e).__name__, e)
                    return 1
                if single is not None and single[0] != "ok":
                    if rep["bad_name"] in files_now:
                        print("rejected file registered")
                        return 1
                    if rep["bad_name"] not in log:
                        print("rejected file not named in the diagnostic")
                        return 1
                    if snap != base:
                        print("other files' documentation differs")
                        return 1
        elif text is None:
            print({k: v for k, v in rep.items() if k not in ("valid", "bad")})
        return 0
    finally:
        shutil.rmtree(work, ignore_errors=True)


def finish(chk):
    return chk.finish(
        level_note="Coq theorems about the structural parser model (truncation inside a unit is rejected) and the "
                   "project fold (a rejected file leaves no trace); tied to FortranSourceFile / Project by "
                   "differential runs and isolation runs with forced file order",
        trusted_base=["Coq 8.16.1 kernel (+ vm_compute)", "model Sem/Tree.v, Out/ProjectFold.v", "harness/gen/ftree.py",
                      "harness adapters; SIGALRM watchdog for termination"],
        rule="valid generated files truncated at statement boundaries (model=impl), and projects of 2-3 valid files "
             "plus one bad file (truncated / line dropped / extra END / extra CONTAINS / garbage) placed at every "
             "position of a forced enumeration order; trees and identifiers of the valid files compared with the "
             "run without the bad file",
        checker_cmd="make theories/Props/C20.vo && coqc theories/Props/C20.v (Print Assumptions)",
        assumptions=["run time of Python's regular expressions on adversarial lines is outside the model (watchdog only)"])
