"""C04 — accessibility of every entity follows Fortran's PUBLIC/PRIVATE rules."""
import collections
import json

from harness import core
from harness.gen import access as A
from harness.gen import program as G
from harness.impl import fordrun as F

IMPORTS = "From Ford Require Import Base.Str Sem.Access Corr.C04."
CASE_T = "case"
THEOREMS = ["C04_statement_refuted", "C04_partial", "C04_refuted_protected_private", "C04_refuted_protected_lost",
            "C04_protected_recorded", "C04_constructor", "C04_same_identifier", "C04_fixed_late_default",
            "C04_fixed_repeated_generic", "C04_fixed_operator_spelling", "C04_types", "C04_types_in_scope",
            "C04_submodule_private", "C04_interface_procs", "C04_raises_iff_misplaced"]
ALL = ["public", "private", "protected"]
# region bits of Sem/Access.v: 2 = the recorded finding; 4 = the identifier has another attribute-carrying
# declaration (constructor interfaces): outside C04_partial but no finding — a disagreement there is a violation
REGIONS = {2: "protected-single-keyword"}

# ---------------------------------------------------------------------------------------------- implementation


def ford_entities(mod):
    """entity.permission of everything in one FortranModule/FortranSubmodule, in the model's order"""
    import ford.sourceform as sf
    top, ifp, children = [], [], []
    for f in mod.functions:
        top.append(("KFun", "", f.name, f.permission))
    for f in mod.subroutines:
        top.append(("KSub", "", f.name, f.permission))
    for t in mod.types:
        top.append(("KType", "", t.name, t.permission))
        for v in t.variables:
            if v.parent is t:          # not the components inherited through EXTENDS
                children.append(("KComp", t.name, v.name, v.permission))
        for b in t.boundprocs:
            if b.parent is t:
                children.append(("KBind", t.name, b.name, b.permission))
    for i in mod.interfaces:
        if isinstance(i, sf.FortranModuleProcedureInterface):
            top.append(("KExplicit", "", i.name, i.permission))
            ifp.append(("KIfProc", "", i.procedure.name, i.procedure.permission))
        else:
            low = i.name.lower()
            kind = "KOperator" if low.startswith("operator") or low.startswith("assignment") else "KGeneric"
            top.append((kind, "", i.name, i.permission))
    for i in mod.absinterfaces:
        top.append(("KAbstract", "", i.name, i.permission))
        ifp.append(("KIfProc", "", i.procedure.name, i.procedure.permission))
    for v in mod.variables:
        top.append(("KParam" if v.parameter else "KVar", "", v.name, v.permission))
    return top + ifp + children


def parse_texts(files, display=ALL, dbg=False):
    """-> ({unit name: entity list}, project) or ('EXC', type name).  dbg=False: FORD's print_error raises"""
    with F.Work(files) as w:
        try:
            p = F.parse_project(w.root, display=list(display), dbg=dbg, proc_internals=True)
        except Exception as e:  # noqa — an exception of the implementation is an output
            return ("EXC", type(e).__name__)
        return {m.name: ford_entities(m) for m in list(p.modules) + list(p.submodules)}, p


def run_cases(chk, cases, rng):
    """render, parse with FORD (structurally fine cases share one project), -> impl outputs"""
    texts = {c["name"]: A.render_case(c, rng) for c in cases}
    good = [c for c in cases if A.struct_ok(c["body"])]
    impl = {}
    res = parse_texts({f"src/{c['name']}.f90": texts[c["name"]] for c in good}) if good else ({}, None)
    if res[0] == "EXC":          # should not happen: find the culprit one by one
        for c in good:
            r = parse_texts({f"src/{c['name']}.f90": texts[c["name"]]})
            impl[c["name"]] = None if r[0] == "EXC" else r[0].get(c["name"])
    else:
        for c in good:
            impl[c["name"]] = res[0].get(c["name"])
    for c in cases:
        if c["name"] not in impl:
            r = parse_texts({f"src/{c['name']}.f90": texts[c["name"]]})
            impl[c["name"]] = None if r[0] == "EXC" else r[0].get(c["name"])
    return texts, impl


def judge_cases(chk, cases, texts, impl, what):
    terms = [A.coq_case(c, impl[c["name"]]) for c in cases]
    res = chk.coq_judge(IMPORTS, CASE_T, "judge", terms, shard=150)
    if res is None:
        return None
    chk.traces += len(cases)
    stats = collections.Counter()
    for idx, code in sorted(res.items()):
        c = cases[idx]
        reg = code >> 2
        payload = {"what": what, "case": {k: v for k, v in c.items()}, "fortran": texts[c["name"]],
                   "impl": impl[c["name"]], "code": code,
                   "meaning": "bit0 model!=impl, bit1 impl violates the Spec, bits>=2 region mask " + str(REGIONS)}
        if code & 2:
            chk.disagreements += 1
            if reg == 0 or reg & ~sum(REGIONS):
                stats["spec-violation-outside-regions"] += 1
                chk.violation("failing-input", payload, True)
            else:
                for bit, key in REGIONS.items():
                    if reg & bit:
                        stats["region:" + key] += 1
                        if not any(f["key"] == key and f.get("status", "open") == "open" for f in chk.findings):
                            chk.violation("failing-input", payload, True)
        if code & 1:
            stats["model-mismatch"] += 1
            if not (code & 2 and (reg == 0 or reg & ~sum(REGIONS))):
                if stats["model-mismatch"] <= 3:      # the model's answer, for the first few replays only
                    payload["model"] = chk.coq_eval(IMPORTS, f"model_of {terms[idx]}")
                chk.violation("broken-correspondence", payload, False)
    return stats


# ---------------------------------------------------------------------------------------------- end to end

def project_module(u):
    """projection of a module of the general program model (harness/gen/program.py) onto a scope body, in the
    order its renderer writes the statements"""
    body = []
    if u["default"]:
        body.append(["default", u["default"]])
    for acc, names in u.get("access", []):
        body.append(["access", acc, list(names)])
    for t in u["types"]:
        tb = []
        if t["comp_default"]:
            tb.append(["tdefault", "private"])
        for c in t["components"]:
            tb.append(["comp", c["name"], [c["perm"]] if c["perm"] else []])
        if t["bindings"]:
            tb.append(["tcontains"])
            if t["bind_default"]:
                tb.append(["tdefault", "private"])
            for b in t["bindings"]:
                tb.append(["bind", b["name"], [b["perm"]] if b["perm"] else []])
        body.append(["type", t["name"], [t["perm"]] if t["perm"] else [], tb])
    for v in u["vars"]:
        body.append(["var", "parameter" in v["attrs"], v["name"], [v["perm"]] if v["perm"] else []])
    for it in u["interfaces"]:
        low = it["name"].lower()
        body.append(["iface", "operator" if low.startswith(("operator", "assignment")) else "generic", it["name"]])
    if u["procs"]:
        body.append(["contains"])
        for p in u["procs"]:
            body.append(["proc", p["kind"] == "function", p["name"]])
    return {"sk": "module", "name": u["name"], "body": body}


def e2e_knobs(rng):
    return {"names": G.default_names(["alpha", "beta", "gamma", "delta", "solve", "init", "kappa", "omega"]),
            "nfiles": rng.choice([1, 2, 3]), "p_generic": 0.7, "p_operator": 0.4, "p_use": 0.5, "p_internal": 0.3}


def end_to_end(chk, rng, nproj):
    """random programs of the general generator: (1) entity.permission of every module entity vs Model and Spec;
    (2) the observable consequence: with the default `display` (public, protected) exactly the entities whose
    permission is not private survive Project.correlate()'s pruning."""
    for k in range(nproj):
        proj = G.gen_project(rng, e2e_knobs(rng))
        mods = [u for f in proj["files"] for u in f["units"] if u["kind"] == "module"]
        for u in mods:
            # procedure accessibility is given by access statements (the general renderer writes them first)
            by = collections.defaultdict(list)
            for p in u["procs"]:
                if p.get("perm"):
                    by[p["perm"]].append(p["name"])
            for it in u["interfaces"]:
                if rng.random() < 0.3:
                    by[rng.choice(["public", "private"])].append(it["name"])
            u["access"] = [(acc, names) for acc, names in sorted(by.items())]
        files = G.render_project(proj)
        full = parse_texts(files, dbg=True)
        if full[0] == "EXC":     # the general generator may emit what FORD rejects (two programs in a file): skipped
            chk.extra["e2e_skipped"] = chk.extra.get("e2e_skipped", 0) + 1
            continue
        ents, _ = full
        cases = [project_module(u) for u in mods]
        impl = {c["name"]: ents.get(c["name"]) for c in cases}
        texts = {c["name"]: next((t for t in files.values() if f"module {c['name']}\n" in t), "") for c in cases}
        for c in cases:
            chk.count(("e2e-mod", repr(c["body"])), nontrivial=len(c["body"]) > 2,
                      sample={"module": c["name"], "body": c["body"], "impl": impl[c["name"]]})
        if cases:
            st = judge_cases(chk, cases, texts, impl, "module of a random project (general generator)")
            if st:
                chk.extra.setdefault("e2e_stats", collections.Counter()).update(st)
        for name, full_list in ents.items():
            chk.count(("e2e-prune", name, k), nontrivial=bool(full_list))
        for bad in prune_mismatch(files, ents):
            chk.violation("failing-input", dict(bad, files=files), True)


def prune_mismatch(files, ents=None):
    """with the default display exactly the entities whose permission is not private (and whose type is not
    private) survive correlate()'s pruning"""
    if ents is None:
        full = parse_texts(files, dbg=True)
        if full[0] == "EXC":
            return []
        ents = full[0]
    pruned = parse_texts(files, display=["public", "protected"], dbg=True)
    if pruned[0] == "EXC":
        return [{"what": "FORD failed with the default display but not with display = public, private, protected"}]
    out = []
    for name, full_list in ents.items():
        want = [(kd, ow, n) for kd, ow, n, p in full_list if p != "private" and kd != "KIfProc"]
        priv_types = {n for kd, ow, n, p in full_list if kd == "KType" and p == "private"}
        want = [x for x in want if x[1] not in priv_types]
        got = [(kd, ow, n) for kd, ow, n, p in pruned[0].get(name, []) if kd != "KIfProc"]
        if sorted(want) != sorted(got):
            out.append({"what": "entities shown under display=[public, protected] are not those whose permission "
                                "is public/protected", "module": name, "expected": want, "got": got})
    return out


def html_mismatch(files):
    """full FORD run: the Visibility column of the variable table on every module page, and the heading of
    every generic-interface page, show entity.permission (which the judge compares with Model and Spec).
    -> (number of module pages looked at, mismatches) or None when the run could not be made"""
    import re
    row_re = re.compile(r'<tr>\s*<td>\s*<span class="anchor" id="variable-[^"]*"></span>(.*?)</tr>', re.S)
    full = parse_texts(files, dbg=True)
    if full[0] == "EXC":
        return None
    ents, pages, out = full[0], 0, []
    # interface pages are named after the identifier: only identifiers that occur once in the project
    gen_count = collections.Counter(n.lower() for el in ents.values() for kd, ow, n, p in el if kd == "KGeneric")
    with F.Work(files) as w:
        data, log, err = F.full_run_inprocess(w.root, {"display": ["public", "private", "protected"]})
        if err:                  # not a C04 matter (and the general generator is not guaranteed valid)
            return None
        for mod, elist in ents.items():
            page = w.root / "doc" / "module" / (mod.lower() + ".html")
            if not page.exists():
                continue
            pages += 1
            sec = re.search(r"<h2>Variables</h2>(.*?)</section>", page.read_text(), re.S)
            shown = {}
            for m in row_re.finditer(sec.group(1) if sec else ""):
                cells = re.findall(r"<td>(.*?)</td>", "<td>" + m.group(1), re.S)
                name = re.search(r"<strong>(.*?)</strong>", m.group(1))
                if name and len(cells) > 1:
                    shown[name.group(1).strip()] = cells[1].strip().rstrip(",").strip()
            want = {n: p for kd, ow, n, p in elist if kd in ("KVar", "KParam")}
            if shown != want:
                out.append({"what": "Visibility column of the module page differs from entity.permission",
                            "module": mod, "page": shown, "permission": want})
            for kd, ow, n, p in elist:
                if kd == "KGeneric" and gen_count[n.lower()] == 1:
                    ip = w.root / "doc" / "interface" / (n.lower() + ".html")
                    if ip.exists():
                        h2 = re.search(r"<h2>\s*(\w+)\s+interface\s", ip.read_text())
                        if h2 and h2.group(1) != p:
                            out.append({"what": "generic interface page heading differs from entity.permission",
                                        "interface": n, "heading": h2.group(1), "permission": p})
    return pages, out


def html_check(chk, rng, nproj):
    for k in range(nproj):
        files = G.render_project(G.gen_project(rng, e2e_knobs(rng)))
        res = html_mismatch(files)
        if res is None:
            chk.extra["html_skipped"] = chk.extra.get("html_skipped", 0) + 1
            continue
        chk.count(("html", k, tuple(sorted(files))), nontrivial=res[0] > 0)
        chk.extra["html_module_pages"] = chk.extra.get("html_module_pages", 0) + res[0]
        for bad in res[1]:
            chk.violation("failing-input", dict(bad, files=files), True)


# ---------------------------------------------------------------------------------------------- findings

WITNESSES = {
    "late-default": ("module m\n  integer :: x\n  type t\n    integer :: c\n  end type\n  private\nend module m\n",
                     lambda e: dict(((k, n), p) for k, o, n, p in e["m"]).get(("KVar", "x")) == "public"
                     and dict(((k, n), p) for k, o, n, p in e["m"]).get(("KType", "t")) == "public"),
    "protected-single-keyword": ("module m\n  private\n  integer, protected :: y\n  integer, protected :: w\n"
                                 "  public :: w\nend module m\n",
                                 lambda e: dict(((k, n), p) for k, o, n, p in e["m"]).get(("KVar", "y")) == "protected"
                                 and dict(((k, n), p) for k, o, n, p in e["m"]).get(("KVar", "w")) == "public"),
    "repeated-identifier": ("module m\n  private\n  public :: gen\n  interface gen\n    module procedure a\n"
                            "  end interface\n  interface gen\n    module procedure b\n  end interface\ncontains\n"
                            "  subroutine a()\n  end subroutine a\n  subroutine b(x)\n    integer :: x\n"
                            "  end subroutine b\nend module m\n",
                            lambda e: [p for k, o, n, p in e["m"] if k == "KGeneric"] == ["public", "private"]),
    "blank-in-identifier": ("module m\n  private\n  public :: operator(+)\n  interface operator (+)\n"
                            "    module procedure f\n  end interface\ncontains\n  function f(a, b)\n"
                            "    integer, intent(in) :: a, b\n    integer :: f\n    f = a\n  end function f\n"
                            "end module m\n",
                            lambda e: [p for k, o, n, p in e["m"] if k == "KOperator"] == ["private"]),
}


FINDINGS = {"protected-single-keyword"}          # still open
REGRESSIONS = {"late-default": "a PRIVATE statement after a declaration is ignored for it",
               "repeated-identifier": "an access statement reaches only the first of several entities of a name",
               "blank-in-identifier": "`public :: operator(+)` does not reach `interface operator (+)`"}


def replay_findings(chk):
    """open findings: is the witness still failing?  repaired ones: the witness must not fail again"""
    for key, (src, still) in WITNESSES.items():
        r = parse_texts({"src/m.f90": src})
        fails = r[0] != "EXC" and bool(still(r[0]))
        if key in FINDINGS:
            chk.known(key, fails)
        elif fails:
            chk.violation("failing-input", {"what": "a repaired defect is back: " + REGRESSIONS[key],
                                            "fortran": src, "impl": r[0].get("m") if r[0] != "EXC" else None}, True)


# ---------------------------------------------------------------------------------------------- protocol

def run(chk):
    chk.build(["theories/Corr/C04.vo", "theories/Props/C04.vo"])
    chk.props("theories/Props/C04.v", THEOREMS)
    rng = chk.rng
    quick = chk.tier == "quick"
    if not quick:
        chk.coqchk(["Ford.Props.C04"])
    stats = collections.Counter()

    # (0) saved corpus: witnesses of the recorded regions, edge cases of the model
    corpus = json.load(open(core.VERIF / "corpus" / "C04" / "cases.json"))["cases"]
    texts, impl = run_cases(chk, corpus, rng)
    for c in corpus:
        chk.count(("corpus", c["name"]), sample={"corpus": c["name"], "fortran": texts[c["name"]],
                                                "impl": impl[c["name"]]})
    st = judge_cases(chk, corpus, texts, impl, "corpus case")
    if st is not None:
        stats.update({f"corpus:{k}": v for k, v in st.items()})

    # (1) the exhaustive product named in the property, each cell embedded in a random module
    reps = 1 if quick else 6
    cells = A.cells()
    cases = []
    for r in range(reps):
        for i, cell in enumerate(cells):
            cases.append(A.cell_case(cell, rng, r * len(cells) + i))
    texts, impl = run_cases(chk, cases, rng)
    for c in cases:
        chk.count(("cell", tuple(sorted((k, str(v)) for k, v in c["cell"].items()))),
                  sample={"cell": c["cell"], "fortran": texts[c["name"]], "impl": impl[c["name"]]})
    st = judge_cases(chk, cases, texts, impl, "cell of the exhaustive product")
    if st is not None:
        stats.update(st)
    chk.extra["exhaustive"] = {"cells": len(cells), "repetitions": reps,
                               "cells_by_kind": dict(collections.Counter(c["kind"] for c in cells)),
                               "domain": "kind(10) x default{none,public,private}x{early,late} x attribute"
                                         "{none,public,private,protected} x statement{none,public,private}x"
                                         "{before,after}; inexpressible combinations omitted"}

    # (1b) constructor interfaces: the generic interface named after a derived type has the type's accessibility
    cases = A.constructor_cases(rng)
    texts, impl = run_cases(chk, cases, rng)
    for c in cases:
        chk.count(("constructor", tuple(sorted((k, str(v)) for k, v in c["ctor"].items()))),
                  sample={"constructor": c["ctor"], "fortran": texts[c["name"]], "impl": impl[c["name"]]})
    st = judge_cases(chk, cases, texts, impl, "constructor interface of a derived type")
    if st is not None:
        stats.update({f"constructor:{k}": v for k, v in st.items()})

    # (2) random modules and submodules: valid stream, then malformed stream
    n_valid, n_bad = (500, 250) if quick else (8000, 4000)
    valid = [A.gen_case(rng, i, malformed=False) for i in range(n_valid)]
    bad = [A.gen_case(rng, n_valid + i, malformed=True) for i in range(n_bad)]
    for name, group in (("valid", valid), ("malformed", bad)):
        texts, impl = run_cases(chk, group, rng)
        for c in group:
            chk.count((name, repr(c["body"]), c["sk"]), nontrivial=len(A.declared(c["body"])) > 0,
                      sample={"stream": name, "fortran": texts[c["name"]], "impl": impl[c["name"]]})
        st = judge_cases(chk, group, texts, impl, f"random {name} scope")
        if st is not None:
            stats.update({f"{name}:{k}": v for k, v in st.items()})
        stats[f"{name}:raised"] = sum(1 for c in group if impl[c["name"]] is None)

    # (3) random programs end to end
    end_to_end(chk, rng, 12 if quick else 150)
    html_check(chk, rng, 3 if quick else 25)
    chk.extra["distribution"] = dict(stats)
    if "e2e_stats" in chk.extra:
        chk.extra["e2e_stats"] = dict(chk.extra["e2e_stats"])

    # (4) recorded findings: are they still there?
    replay_findings(chk)


def replay(chk, rep):
    if "case" in rep:
        c = rep["case"]
        text = rep.get("fortran") or A.render_case(c, chk.rng)
        r = parse_texts({f"src/{c['name']}.f90": text})
        impl = None if r[0] == "EXC" else r[0].get(c["name"])
        print(text)
        print("impl:", impl)
        chk.build(["theories/Corr/C04.vo"])
        term = A.coq_case(c, impl)
        res = chk.coq_judge(IMPORTS, CASE_T, "judge", [term])
        print("model:", chk.coq_eval(IMPORTS, f"model_of {term}"))
        print("judge code:", res)
        return 1 if res else 0
    if "files" in rep:
        bad = prune_mismatch(rep["files"]) + ((html_mismatch(rep["files"]) or (0, []))[1])
        for b in bad:
            print(b)
        return 1 if bad else 0
    print("nothing to replay in", sorted(rep))
    return 0


def finish(chk):
    return chk.finish(
        level_note="Coq proofs over all statement lists of a module / submodule / derived-type body about a model of "
                   "FORD's permission threading; model tied to ford.sourceform by differential runs through Project",
        trusted_base=["Coq 8.16.1 kernel (vm_compute for cases and witnesses)",
                      "harness/gen/access.py (generator, renderer scope body -> Fortran text), harness/props/c04.py",
                      "hand-written model Sem/Access.v (scan/process_attribs/constructor step) and the Spec in it",
                      "ASCII identifiers; one entity per declaration statement; no USE association, no EXTENDS, "
                      "no enums/namelists/common blocks in the modelled scope"],
        rule="distinct = distinct cell of the product, or distinct abstract scope body (statement list) of the "
             "random streams, or distinct module of an end-to-end project",
        checker_cmd="make theories/Props/C04.vo && coqc theories/Props/C04.v (Print Assumptions)",
        assumptions=["entity.permission read after Project.correlate() with display = public, private, protected",
                     "Spec summarises (accessibility, protected) as one keyword: private / protected / public"])
