"""C01, statement-classification layer: which statement of Sem/Tree.v a logical line is (the if/elif
chain over regular expressions in FortranContainer.__init__).  Exposes THEOREMS, PROPS_FILE,
BUILD_TARGETS, TRANSLATORS, run_part(chk) and replay_part(chk, rep) for harness/props/c01.py."""
import json

from harness import core
from harness.core import coq_str, coq_list, coq_bool
from harness.gen import ftree as T
from harness.gen import c01lines as L
from harness.impl import c01cascade as I
from harness.impl import reader as RD
from harness.impl import tree as TR

IMPORTS = ("From Coq Require Import String.\nFrom Ford Require Import Base.Str Base.StrX Sem.Tree Sem.TypeSpec Sem.DeclSpec "
           "Sem.CascadeTypes Sem.Cascade Sem.CascadeSpec Sem.CascadeTree Corr.C01 Corr.C01cascade.")
THEOREMS = ["C01_cascade_tables", "C01_dispatch", "C01_dispatch_examples", "C01_dispatch_fixed_final",
            "C01_dispatch_fixed_end_blockdata", "C01_dispatch_fixed_labelled_end", "C01_assignment_fixed_interface",
            "C01_dispatch_fixed_program_inside_unit", "C01_text_roundtrip", "C01_text_roundtrip_example"]
PROPS_FILE = "theories/Props/C01cascade.v"
BUILD_TARGETS = ["theories/Corr/C01cascade.vo", "theories/Props/C01cascade.vo"]
TRANSLATORS = ["t_c01_cascade.py"]
UNMODELLED, MALFORMED = 1000, 2000
PROBE_T = "probe"
# spellings FORD is known to treat differently (region codes of the judge other than 0 and 9): none since
# FINAL without "::", "end blockdata" and labelled END statements were repaired
REGIONS = {}

KINDS = list(I.PROLOGUE)


def contexts(rng, n):
    """reachable parser states: (kind, after CONTAINS, block level)"""
    out = []
    for _ in range(n):
        k = rng.choice(KINDS)
        inc = k in I.CAN_CONTAIN and rng.random() < 0.4
        lvl = rng.choice([0, 0, 0, 0, 1, -1])
        out.append((k, inc, lvl))
    return out


def natural_contexts(term):
    """a state in which the statement is at home"""
    if term.startswith("SLeaf LBoundProc") or term.startswith("SLeaf LFinal"):
        return [("KType", True, 0)]
    if term.startswith("SLeaf LModProcRef"):
        return [("KInterface", False, 0)]
    if term.startswith("SModProcImpl"):
        return [("KSubmodule", False, 0), ("KModule", True, 0)]
    if term.startswith(("SUnit KSubroutine", "SUnit KFunction")):
        return [("KModule", True, 0), ("KFile", False, 0), ("KInterface", False, 0), ("KSubroutine", True, 0)]
    if term.startswith(("SUnit KModule", "SUnit KSubmodule", "SUnit KProgram", "SUnit KBlockData")):
        return [("KFile", False, 0)]
    return [("KModule", False, 0), ("KSubroutine", False, 0), ("KType", False, 0), ("KProgram", False, 0)]


def obs_term(o):
    created = coq_list(f"({coq_str(t)}, {coq_str(n)})" for t, n in o["created"])
    ifaces = coq_list(f"({coq_bool(a)}, {coq_str(n)})" for a, n in o["ifaces"])
    return f"({coq_str(o['branch'])}, {created}, {ifaces}, {coq_bool(o['raised_in_dispatch'] is not None)})"


def probe_term(ctx, line, o, spec=None, region=0):
    k, inc, lvl = ctx
    sp = f"(Some ({spec}))" if spec else "None"
    return f"({k}, {coq_bool(inc)}, {coq_bool(lvl == 0)}, {coq_str(line)}, {obs_term(o)}, {sp}, {region})"


CORPUS = [
    # END spellings
    "end", "END", "end module", "end module m", "endmodule", "endmodule m", "end  subroutine  foo", "endsubroutine",
    "end function f", "end procedure", "endprocedure p", "end program", "end type", "endtype t", "end interface",
    "end interface operator(+)", "endinterface", "end enum", "endenum", "end block data", "end block data bd",
    "end blockdata", "endblockdata", "end block  data", "ENDBLOCKDATA bd", "end block", "endblock", "end block b1",
    "end associate", "endassociate", "end do", "enddo", "end if", "endif", "end select", "endfile (10)", "endfile 10",
    "end = 5", "ending = 1", "end where", "end forall", "end critical", "end team", "end submodule", "end submodule s",
    "end modulex", "end module m n", "end type(t)", "end block datax", "end associate a1", "end % x = 1",
    # first lines
    "module m", "MODULE M", "module", "module  m1", "module m n", "module procedure", "module procedure p",
    "module procedure :: p", "module procedure::p, q", "MODULE PROCEDURE p , q", "module procedure, p",
    "module function f(x)", "module subroutine s", "module pure function f(x) result(r)", "moduleprocedure p",
    "procedure p", "procedure :: p", "procedure(iface) :: p", "procedure(iface), pointer, nopass :: p => null()",
    "procedure, nopass :: a => t", "procedure, nopass :: a => t, b => u", "procedure, pass(x) ab", "procedure :: a, b",
    "procedure a, b", "procedures = 1", "generic :: g => a, b", "generic, public :: operator(+) => add",
    "generic :: assignment(=) => asg", "procedure, deferred, pass :: d", "procedure,nopass::x=>y", "procedure(), nopass :: q",
    "procedure, nopass : a", "procedure, nopass", "procedure", "generic", "genericfoo", "procedure :: ", "procedure ::, a",
    "procedure, nopass :: a,, b", "procedure, nopass :: a, b =>", "procedure, nopass a, b",
    "submodule (anc) s", "submodule(anc:par)s", "SUBMODULE ( anc : par ) s", "submodule (anc) s t", "submodule anc s",
    "submodule (anc:) s", "submodule () s", "program", "program p", "PROGRAM  p", "program p q", "programp",
    "block data", "BLOCK DATA bd", "blockdata", "blockdatabd", "block data bd x", "block", "BLOCK", "blk1: block",
    "blk1 : block", "block: block", "1: block", "block data: block", "blockx", "b l: block",
    "associate (q => x1)", "a1: associate (q => x1, r => f(2))", "associate ()", "associate (q => x1) x", "associate(q=>x)",
    "type t", "type :: t", "TYPE::t", "type, public :: t", "type, abstract :: t", "type,extends(b)::t", "type t(k)",
    "type, bind(c) :: t", "type :: t(a, b)", "type(t) :: x", "type (t) :: x", "type(t) x", "type is (t)", "type is(t)",
    "type isx", "type is", "type, public :: is", "type :: is(t)", "type , public::t", "type, public : t", "type",
    "type ::", "type :: t u", "type, a :: b :: c", "type, a :: b(c::d)", "type, extends(b) :: t(k, l)", "typet", "type t (k)",
    "type :: t((k))", "class(t) :: x", "class is (t)", "class default", "class(*), pointer :: p",
    "enum, bind(c)", "ENUM, BIND(C)", "enum , bind( c )", "enum,bind(c)", "enum, bind(c) x", "enum", "enum, bind c",
    "enumerator :: a = 1", "enumerator a", "enumerator::a,b", "ENUMERATOR :: red",
    "interface", "interface foo", "INTERFACE operator(+)", "interface assignment(=)", "abstract interface",
    "ABSTRACT INTERFACE", "abstract  interface", "abstractinterface", "abstract interface foo", "interfacefoo",
    "interface  foo bar", "interface read(formatted)",
    "subroutine s", "subroutine s()", "subroutine s(a, b)", "SUBROUTINE S (A)", "pure subroutine s(a)",
    "pure elemental subroutine s(a)", "recursive subroutine s", "module subroutine s(a)", "subroutine s(a) bind(c)",
    "subroutine s(a) bind(c, name=\"cs\")", "subroutine s bind(c)", "subroutine s((a))", "subroutine sbind((a))",
    "subroutine", "subroutine  ", "subroutine s t", "subroutine s(a) x", "call subroutine s", "x subroutine s",
    "pure subroutine subroutine s2", "subroutinefoo s", "a subroutine s(b) subroutine t", "impure  elemental   subroutine s",
    "function f()", "function f(x) result(r)", "FUNCTION F(X) RESULT(R)", "pure function f(x)", "integer function f(x)",
    "real(8) function f(x) result(r)", "type(t) function f()", "character(len=10) function f()", "recursive function f(n) result(r)",
    "function f", "function", "function f(x) bind(c)", "double precision function f(x)", "myfunction f(x)", "x = myfunction y",
    "integer :: function_x", "integer :: nfunction = 3", "type(t) :: function_x", "integer function", "use function_mod",
    "elemental module function f(x)", "function f(x) result (r) bind(c)", "functionf(x)", "function  f  ( x )",
    # leaves
    "use m", "USE m", "use m, only: a", "use m , only : a => b", "use :: m", "use, intrinsic :: iso_c_binding",
    "use,non_intrinsic::m", "use, intrinsic :: iso_c_binding, only: c_int", "use", "use m n", "use, intrinsic m",
    "use, foo :: m", "usem", "use  m,", "use ::m", "use :: ", "use m;", "use, intrinsic::m n",
    "common /blk/ a, b", "COMMON/blk/a", "common / blk / a", "common a, b", "common // a", "common /blk/", "common",
    "common /a/ x, y /b/ z", "common /a/ x(3/2)", "commona", "common/a/x,/b/y", "common x /a/ y",
    "namelist /nml/ a, b", "NAMELIST/nml/a", "namelist / nml / a", "namelist /nml/", "namelist nml", "namelist /n/ a /m/ b",
    "namelist/n/a,b,c",
    "final :: f1", "FINAL::f1,f2", "final f1", "final :: f1 , f2", "final ::", "final", "final:: f", "final : : f",
    "integer :: x", "integer x", "INTEGER, PARAMETER :: n = 10", "real(8), dimension(3) :: v", "real*8 r", "real r(3)",
    "character(len=*), intent(in) :: s", "character(len=3) :: c = 'a,b'", "character*10 c", "double precision d",
    "doubleprecision :: d", "double  complex z", "logical :: l = .true.", "complex(kind=8) :: z", "integer(kind=4)::i,j,k",
    "integer, intent(in out) :: x", "integerx", "integer", "integer ::", "integer :: x = f(3)", "real :: a(3) = [1., 2., 3.]",
    "type(t), pointer :: p => null()", "real function_result", "integer :: subroutine", "integer subroutine x",
    "integer :: contains", "integer :: end", "logical :: module", "real :: x = \"a\" // 'b'",
    # noise
    "implicit none", "IMPLICIT NONE", "private", "PUBLIC", "Protected", "public :: a, b", "private a", "public::a",
    "protected :: x", "sequence", "SEQUENCE", "contains", "CONTAINS", "Contains", "contains x", "save", "save :: a",
    "save a", "data x /1/", "data x, y /1, 2/", "dimension a(3), b(2,2)", "dimension :: a(3)", "allocatable :: a(:)",
    "pointer :: p", "target t", "optional :: o", "intent(in) :: a", "intent ( in out ) a, b", "intent(in)a", "external f",
    "external :: f, g", "parameter (n = 3)", "parameter (s = 'x,y')", "value :: v", "volatile v", "asynchronous a",
    "bind(c) :: foo", "bind(c, name='x') :: foo", "bind (c) foo", "bind(c)", "binding = 3", "bind(c) /blk/",
    "value = 3", "data = 1", "target (1) = 2", "pointer (p, x)", "value (i) = 3", "save = 1", "public = 2",
    "x1 = x1 + 1", "call helper(x1)", "if (x1 > 0) x1 = 0", "print *, 'hello ! not a comment'", "y2 = f(x1) + g(3)",
    "do i = 1, 3", "end do", "write(*,*) \"end module fake\"", "continue", "100 format (i5)", "go to (10, 20) k",
    "goto (10, 20) k", "100 format i5", "format (i5)", "100  FORMAT(1x, 'a)')", "10 continue", "100 format (", "1format(a)",
    "if (a) call b(c)", "call a%b%c(d)", "x = a%b(1)%c(2)", "stop", "return", "select type (x)", "select case (i)",
    "case default", "where (a > 0) a = 0", "forall (i=1:3) a(i) = 0", "allocate(x(3))", "deallocate(x)", "nullify(p)",
    "open(10, file='x')", "read(*,*) x", "cycle", "exit", "else", "else if (x) then", "then", "import :: t", "import",
    "implicit real(a-h)", "include 'f.inc'", "entry e(x)", "equivalence (a, b)", "intrinsic sin", "", "x", "!", "(", "::",
    "=>", "a => b", "\"0\"", "'unterminated", "x = 'it''s'", "print *, \"a\"\"b\"", "print *, 'module m'",
]


def mutate(rng, line):
    if not line:
        return line
    r = rng.random()
    i = rng.randrange(len(line))
    if r < 0.25:
        return line[:i] + line[i + 1:]
    if r < 0.55:
        return line[:i] + rng.choice(" ,:()=/*%>&;_x9\t") + line[i:]
    if r < 0.7:
        return line[:i] + line[i].swapcase() + line[i + 1:]
    if r < 0.8:
        words = line.split(" ")
        rng.shuffle(words)
        return " ".join(words).strip()
    if r < 0.9:
        return line[:i].rstrip()
    return (line + " " + rng.choice(["x", "(a)", ":: y", "bind(c)", "result(r)", "module", "function f", "subroutine s"]))


def ftree_lines(rng, nfiles):
    """(stmt term, stripped code line) for every statement of generated files"""
    out = []
    for i in range(nfiles):
        cx = T.Ctx(rng, docs=False, spell=rng.random() < 0.9, styles=False, idcase=rng.random() < 0.4)
        f = T.gen_file(cx, f"t{i}.f90", [])
        for term, text in T.render_file(cx, f):
            if term is None or text is None or term.startswith("SDoc"):
                continue
            line = text.strip()
            if line and not line.startswith("!") and core.is_ascii(line):
                out.append((term, line))
    return out


def run_probes(chk, P, items, what):
    """items: (ctx, line, spec term or None, region); probes the implementation, judges in Coq"""
    terms, kept = [], []
    for ctx, line, spec, region in items:
        o = P.probe(ctx[0], ctx[1], ctx[2], line)
        if o["container"] != I.KIND_CLASS[ctx[0]]:
            chk.violation("broken-correspondence", {"what": "probe set-up did not reach the intended container",
                                                    "ctx": ctx, "line": line, "observed": o}, False)
            continue
        kept.append((ctx, line, spec, region, o))
        terms.append(probe_term(ctx, line, o, spec, region))
    out = chk.coq_judge(IMPORTS, PROBE_T, "judge_line", terms, shard=400)
    return kept, out


def line_is_placed(ctx, form):
    """rough: the state is one where the statement is at home (used for exploration output only)"""
    k, inc, lvl = ctx
    if lvl != 0:
        return False
    if form == "XProgram":
        return k == "KFile"
    if form in ("XBound", "XFinal"):
        return k == "KType" and inc
    if form == "XModProcRef":
        return k == "KInterface"
    if form == "XModProcImpl":
        return k != "KInterface"
    if form in ("XAssociate", "XEndAssociate"):
        return k in I.HAS_CALLS
    return True


def is_open(chk, key):
    return any(f["key"] == key and f.get("status", "open") == "open" for f in chk.findings)


def run_slines(chk, P, n, stats, explore=False):
    """spelled statements of Sem/CascadeSpec.v: rendered by Coq, probed, judged"""
    rng = chk.rng
    gen = []
    for _ in range(n):
        form, term, ctxs = L.gen_line(rng, tricky=rng.choice([0.0, 0.0, 0.15, 0.4]))
        gen.append((form, term, ctxs))
    texts = []
    for i in range(0, len(gen), 500):
        out = chk.coq_eval(IMPORTS, "map render_text [" + "; ".join(f"({g[1]})" for g in gen[i:i + 500]) + "]")
        got = L.parse_coq_strings(out) if not out.startswith("COQ-ERROR") else None
        if got is None or len(got) != len(gen[i:i + 500]):
            chk.obligation("model-evaluation", False, "render_text: " + out[-1500:])
            return
        texts += got
    terms, kept = [], []
    for (form, term, ctxs), text in zip(gen, texts):
        stats["forms"][form] = stats["forms"].get(form, 0) + 1
        for ctx in [rng.choice(ctxs)] + (contexts(rng, 1) if rng.random() < 0.3 else []):
            o = P.probe(ctx[0], ctx[1], ctx[2], text)
            if o["container"] != I.KIND_CLASS[ctx[0]]:
                chk.violation("broken-correspondence", {"what": "probe set-up did not reach the intended container",
                                                        "ctx": ctx, "line": text, "observed": o}, False)
                continue
            kept.append((ctx, form, term, text, o))
            terms.append(f"({ctx[0]}, {coq_bool(ctx[1])}, {coq_bool(ctx[2] == 0)}, ({term}), {coq_str(text)}, {obs_term(o)})")
    out = chk.coq_judge(IMPORTS, "sprobe", "judge_sline", terms, shard=400)
    if out is None:
        return
    chk.traces += len(kept)
    for idx, (ctx, form, term, text, o) in enumerate(kept):
        code = out.get(idx, 0)
        stats["sprobes"] += 1
        chk.count(("sline", ctx, text), nontrivial=True,
                  sample={"ctx": ctx, "line": text, "ford": o["branch"]} if idx < 2 else None)
        if code == UNMODELLED:
            stats["unmodelled"] += 1
            continue
        region, bits = code // 4, code % 4
        if code != MALFORMED and bits == 0:
            continue
        if code != MALFORMED and region in REGIONS and bits == 2 and is_open(chk, REGIONS[region]):
            # reported once by witnesses(); here only counted
            stats["known_spellings"] = stats.get("known_spellings", 0) + 1
            continue
        if code != MALFORMED and region == 9:
            # outside the side conditions of the dispatch theorem (wrong place, keyword-like names):
            # deviations are expected there; model and FORD must still agree
            stats["outside_side_conditions_deviating"] = stats.get("outside_side_conditions_deviating", 0) + 1
            if explore and bits & 1:
                print("SLINE-OUTSIDE-MODEL-MISMATCH", ctx, repr(text), o["branch"], o["created"])
            if explore and line_is_placed(ctx, form):
                print("SLINE-OUTSIDE", form, ctx, repr(text), "->", o["branch"], o["created"], o["ifaces"], o["raised_in_dispatch"])
            if not bits & 1:
                continue
        if code:
            payload = {"what": "a spelled statement (Sem/CascadeSpec.v) in a parser state", "code": code, "ctx": ctx,
                       "form": form, "sline": term, "line": text,
                       "ford": {k: o[k] for k in ("branch", "created", "ifaces", "raised_in_dispatch")}}
            if explore:
                print("SLINE", json.dumps(payload))
            if code == MALFORMED:
                chk.violation("broken-correspondence", dict(payload, what="probed text differs from the rendered line"), False)
            else:
                chk.violation("failing-input" if bits & 2 else "broken-correspondence", payload, bool(bits & 2))


def witnesses(chk, P):
    """repaired defects: their former witnesses are regression inputs -- the defect coming back is a failing
    input (the same lines are Examples of Sem/CascadeProofs.v, theorems C01_*_fixed_* of Props/C01cascade.v)"""
    def regression(key, ctx, line, bad):
        o = P.probe(ctx[0], ctx[1], ctx[2], line)
        chk.count(("regression", key), sample=None)
        if bad(o):
            chk.violation("failing-input", {"what": "a repaired defect is back: " + key, "ctx": ctx, "line": line,
                          "ford": {k: o[k] for k in ("branch", "created", "ifaces", "raised_in_dispatch")}}, True)
    regression("final-without-double-colon", ("KType", True, 0), "final f1",
               lambda o: ("LFinal", "f1") not in [tuple(c) for c in o["created"]])
    regression("end-blockdata-spelling", ("KBlockData", False, 0), "end blockdata bd", lambda o: o["branch"] != "END_RE")
    regression("labelled-end-statement", ("KSubroutine", False, 0), "99 end subroutine sub",
               lambda o: o["branch"] != "END_RE" or o["created"])
    regression("interface-named-variable-assignment", ("KSubroutine", False, 0), "interface = 3",
               lambda o: o["branch"] == "INTERFACE_RE" or o["ifaces"])
    regression("program-statement-inside-unit", ("KModule", False, 0), "program p",
               lambda o: bool(o["raised_in_dispatch"]) or o["created"])


def run_files(chk, n, stats):
    """whole generated files: the logical lines the real reader delivers, through the text-level model
    (classification + structure, Sem/CascadeTree.v), against the tree FORD builds"""
    rng = chk.rng
    terms, cases = [], []
    for i in range(n):
        cx = T.Ctx(rng, docs=rng.random() < 0.8, spell=rng.random() < 0.85, styles=rng.random() < 0.5,
                   idcase=rng.random() < 0.5)
        f = T.gen_file(cx, f"t{i % 7}.f90", [])
        text = "\n".join(t for _, t in T.render_file(cx, f) if t is not None) + "\n"
        if not core.is_ascii(text):
            continue
        res = TR.parse_text(text, f["name"])
        rd = RD.run_reader(text.split("\n")[:-1])
        if rd[0] != "ok":
            continue
        # the tree adapter drops empty documentation lines (see harness/impl/tree.py): drop them here too
        lines = [l for l in rd[1] if not (l.startswith("!!") and l[2:].strip() == "")]
        impl = f"inl ({T.tree_term(res[1])})" if res[0] == "ok" else "inr 1"
        terms.append(f"({coq_str(f['name'])}, {coq_list(coq_str(l) for l in lines)}, {impl})")
        cases.append((text, res[0]))
        chk.count(("file-lines", text), nontrivial=len(lines) > 6, sample=None)
    # the spelled file of C01_text_roundtrip_example (Sem/CascadeTextProofs.v), written to disk and parsed by FORD
    ex = chk.coq_eval(IMPORTS + "\nFrom Ford Require Import Sem.CascadeText Sem.CascadeTextProofs.",
                      "map string_of_list_ascii (file_text example_text_units)")
    ex_lines = L.parse_coq_strings(ex) if not ex.startswith("COQ-ERROR") else []
    chk.obligation("text-roundtrip-example-rendered", len(ex_lines) > 30, ex[-600:])
    if ex_lines:
        text = "\n".join(ex_lines) + "\n"
        res = TR.parse_text(text, "t.f90")
        rd = RD.run_reader(ex_lines)
        lines = [l for l in rd[1] if not (l.startswith("!!") and l[2:].strip() == "")] if rd[0] == "ok" else []
        chk.obligation("text-roundtrip-example-read", rd[0] == "ok" and lines == ex_lines,
                       "the reader delivers the lines of the example unchanged")
        impl = f"inl ({T.tree_term(res[1])})" if res[0] == "ok" else "inr 1"
        terms.append(f"({coq_str('t.f90')}, {coq_list(coq_str(l) for l in ex_lines)}, {impl})")
        cases.append((text, res[0]))
        chk.count(("text-roundtrip-example", text), nontrivial=True, sample=None)
    out = chk.coq_judge(IMPORTS, "str * list str * (ent + nat)", "judge_text", terms, shard=15)
    if out is None:
        return
    if ex_lines:
        chk.obligation("text-roundtrip-example-on-ford", out.get(len(terms) - 1, 0) == 0,
                       "FORD builds the tree the theorem's example declares")
    chk.traces += len(cases)
    stats["files"] = len(cases)
    for idx, code in sorted(out.items()):
        if code == UNMODELLED:
            stats["files_unmodelled"] = stats.get("files_unmodelled", 0) + 1
            continue
        chk.violation("broken-correspondence", {"what": "text-level model (classification + structure) and FORD build "
                      "different trees from the reader's lines", "text": cases[idx][0], "impl": cases[idx][1]}, False)


# ------------------------------------------------------------------ type-bound procedures: attributes, spelling equivalence
# Sem/Tree.v carries a binding's name and documentation only; its attributes (FortranBoundProcedure.attribs /
# .deferred / .permission / .proto / .bindings) are checked here, in the harness: a binding statement with several
# names must give every binding exactly what the one-name-per-statement spelling gives it, and what was declared.
BIND_FORCED = [
    (True, None, "procedure(measure), deferred, public :: ", ["area", "perimeter"], "measure", ["deferred", "public"]),
    (False, None, "procedure, nopass :: ", ["unit_name", "version"], None, ["nopass"]),
    (False, None, "procedure, private, pass(this) :: ", ["rescale", "reset"], None, ["private", "pass(this)"]),
    (False, "private", "procedure, public, non_overridable :: ", ["a => a_impl", "b", "c => c_impl"], None,
     ["public", "non_overridable"]),
    (False, None, "PROCEDURE , NoPass , PRIVATE:: ", ["x1", "x2=>impl2"], None, ["nopass", "private"]),
]


def gen_binding(rng):
    proto = rng.choice([None, None, "measure", "iface_t"])
    pool = ["nopass", "pass", "pass(this)", "pass( self )", "non_overridable", "public", "private"] + (["deferred"] if proto else [])
    attrs = rng.sample(pool, rng.choice([1, 1, 2, 3]))
    if sum(a.startswith(("nopass", "pass")) for a in attrs) > 1:
        attrs = [a for a in attrs if not a.startswith("pass")]
    if "public" in attrs and "private" in attrs:
        attrs.remove("public")
    if proto and "deferred" not in attrs:
        attrs.append("deferred")
    names = rng.sample(["area", "perimeter", "rescale", "reset", "unit_name", "version", "draw", "n2"], rng.choice([2, 2, 3, 4]))
    if not proto:
        names = [n + (rng.choice([" => ", "=>", " =>"]) + n + "_impl" if rng.random() < 0.4 else "") for n in names]

    def sp(w):
        w = w.upper() if rng.random() < 0.2 else (w.capitalize() if rng.random() < 0.15 else w)
        return w
    head = sp("procedure") + (f"({proto})" if proto else "") + "".join(rng.choice([", ", ",", " , "]) + sp(a) for a in attrs) \
        + rng.choice([" :: ", "::", " ::", ":: "])
    default = rng.choice([None, None, "private"])
    return (bool(proto), default, head, names, proto, [a.replace(" ", "").lower() for a in attrs])


def bindings_of(lines):
    """the bound procedures FORD records for the type t of a module made of these lines"""
    import contextlib, io, os, shutil, tempfile
    import ford.sourceform as sf
    from ford.settings import ProjectSettings
    d = tempfile.mkdtemp(prefix="verif_b_")
    try:
        with open(os.path.join(d, "b.f90"), "w") as fh:
            fh.write("\n".join(lines) + "\n")
        sf.namelist = sf.NameSelector()
        buf = io.StringIO()
        try:
            with contextlib.redirect_stdout(buf), contextlib.redirect_stderr(buf):
                f = sf.FortranSourceFile(os.path.join(d, "b.f90"), ProjectSettings(preprocess=False, dbg=True), None, False)
            ty = f.modules[0].types[0]
            return {b.name.lower(): {"attribs": sorted(str(a).replace(" ", "").lower() for a in b.attribs),
                                     "deferred": bool(b.deferred), "permission": str(b.permission).lower(),
                                     "proto": None if not b.proto else str(b.proto).lower(),
                                     "bindings": [str(x).lower() for x in b.bindings], "generic": bool(b.generic)}
                    for b in ty.boundprocs}
        except BaseException as e:  # noqa
            if isinstance(e, (KeyboardInterrupt, SystemExit)) or type(e).__name__ == "Timeout":
                raise
            return {"<error>": type(e).__name__}
    finally:
        shutil.rmtree(d, ignore_errors=True)


def binding_texts(case):
    abstract, default, head, names, proto, attrs = case
    top = ["module m", "type, abstract :: t" if abstract else "type :: t", "integer :: i", "contains"] + ([default] if default else [])
    bottom = ["end type t", "end module m"]
    return top + [head + ", ".join(names)] + bottom, top + [head + n for n in names] + bottom


def judge_binding(case):
    """None, or what differs"""
    abstract, default, head, names, proto, attrs = case
    multi, single = binding_texts(case)
    a, b = bindings_of(multi), bindings_of(single)
    if a != b:
        return {"what": "the bindings of a statement with several names differ from the bindings of the same statement "
                "written once per name", "several_names": multi[-3], "ford_several": a, "ford_one_each": b}
    perm = "public" if "public" in attrs else "private" if "private" in attrs else (default or "public")
    other = sorted(x for x in attrs if x not in ("public", "private", "deferred"))
    for n in names:
        nm = n.split("=>")[0].strip().lower()
        got = a.get(nm)
        if got is None or got["permission"] != perm or got["deferred"] != ("deferred" in attrs) \
           or [x for x in got["attribs"] if x != "deferred"] != other or got["proto"] != (proto.lower() if proto else None):
            return {"what": "a type-bound procedure is reported with other attributes than declared", "statement": multi[-3],
                    "binding": nm, "declared": {"permission": perm, "deferred": "deferred" in attrs, "attribs": other, "proto": proto},
                    "ford": got if got is not None else a}
    return None


def run_bindings(chk, n):
    cases = list(BIND_FORCED) + [gen_binding(chk.rng) for _ in range(n)]
    for case in cases:
        chk.count(("binding", case[2], tuple(case[3])), nontrivial=True, sample=None)
        bad = judge_binding(case)
        if bad:
            chk.violation("failing-input", dict(bad, binding_case=list(case)), True)
    chk.traces += len(cases)


def run_part(chk, explore=False):
    """everything except chk.translate / chk.build / chk.props"""
    rng = chk.rng
    quick = chk.tier == "quick"
    P = I.Prober()
    stats = {"probes": 0, "sprobes": 0, "unmodelled": 0, "branches": {}, "forms": {}}
    try:
        witnesses(chk, P)
        run_slines(chk, P, 260 if quick else 8000, stats, explore)
        run_files(chk, 24 if quick else 1500, stats)
        run_bindings(chk, 40 if quick else 1500)
        items = []
        fixed = [("KModule", False, 0), ("KType", True, 0), ("KInterface", False, 0), ("KFile", False, 0)]
        for line in CORPUS:
            for ctx in (rng.sample(fixed, 1) if quick else fixed) + contexts(rng, 1):
                items.append((ctx, line, None, 0))
        for term, line in ftree_lines(rng, 4 if quick else 150):
            for ctx in natural_contexts(term)[:1 if quick else 2] + contexts(rng, 1):
                items.append((ctx, line, None, 0))
            if rng.random() < 0.5:
                items.append((rng.choice(natural_contexts(term)), mutate(rng, line), None, 0))
        for _ in range(120 if quick else 6000):
            line = rng.choice(CORPUS)
            for _ in range(rng.choice([1, 1, 2])):
                line = mutate(rng, line)
            if core.is_ascii(line) and "\n" not in line:
                items.append((contexts(rng, 1)[0], line.strip(), None, 0))
        kept, out = run_probes(chk, P, items, "lines")
        if out is None:
            return
        chk.traces += len(kept)
        for idx, (ctx, line, spec, region, o) in enumerate(kept):
            code = out.get(idx, 0)
            stats["probes"] += 1
            stats["branches"][o["branch"]] = stats["branches"].get(o["branch"], 0) + 1
            chk.count(("probe", ctx, line), nontrivial=o["branch"] != "tail",
                      sample={"ctx": ctx, "line": line, "ford": o["branch"]} if idx < 2 else None)
            if code == UNMODELLED:
                stats["unmodelled"] += 1
                continue
            if code:
                payload = {"what": "statement classification of one logical line", "code": code, "ctx": ctx, "line": line,
                           "ford": {k: o[k] for k in ("branch", "created", "ifaces", "raised_in_dispatch")}}
                if explore:
                    print("MISMATCH", json.dumps(payload))
                chk.violation("failing-input" if code & 2 else "broken-correspondence", payload, bool(code & 2))
        chk.extra["cascade"] = stats
    finally:
        P.close()


def replay_part(chk, rep):
    """replay of a violation recorded by run_part; None when the replay file is not one of this part's"""
    if "binding_case" in rep:
        bad = judge_binding(tuple(rep["binding_case"]))
        print("binding statement:", json.dumps(bad))
        return 1 if bad else 0
    if "line" not in rep or "ctx" not in rep:
        return None
    P = I.Prober()
    try:
        ctx = tuple(rep["ctx"])
        o = P.probe(ctx[0], ctx[1], ctx[2], rep["line"])
        print("ford:", json.dumps({k: o[k] for k in ("branch", "created", "ifaces", "raised_in_dispatch", "container")}))
        if "sline" in rep:
            term = (f"({ctx[0]}, {coq_bool(ctx[1])}, {coq_bool(ctx[2] == 0)}, ({rep['sline']}), {coq_str(rep['line'])}, "
                    f"{obs_term(o)})")
            res = chk.coq_judge(IMPORTS, "sprobe", "judge_sline", [term])
        else:
            res = chk.coq_judge(IMPORTS, PROBE_T, "judge_line", [probe_term(ctx, rep["line"], o)])
        print("judge code (bit0 model != FORD, bit1 FORD != statement, region*4; 1000 outside the model):", res)
        model = chk.coq_eval(IMPORTS, f"classify (mkctx {ctx[0]} {coq_bool(ctx[1])} {coq_bool(ctx[2] == 0)}) {coq_str(rep['line'])}")
        print("model:", model[:600])
        return 1 if res and any(c != UNMODELLED for c in res.values()) else 0
    finally:
        P.close()
