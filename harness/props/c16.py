"""C16 — links into an externalised project hit the right pages of that project."""
import copy
import html
import http.server
import json
import os
import pathlib
import re
import shutil
import socketserver
import threading
import urllib.error
import urllib.parse

from harness import core
from harness.gen import c16gen as G
from harness.impl import c16impl as I
from harness.impl import fordrun as F

IMPORTS = ("From Ford Require Import Base.Str Base.Path Out.Names Out.External Out.ExternalSpec Corr.C16.\n"
           "Definition rq (i : nat) (d n : str) : req := {| r_id := i; r_dir := d; r_name := n |}.")
THEOREMS = []   # filled below once Props/C16.v exists
REGIONS = {1: "export-follows-display", 2: "missing-modules-json", 3: "wrong-shape-json", 4: "absolute-local-path",
           5: "undecodable-modules-json", 6: "external-module-before-local-entity"}


def cs(x):
    return I.coq_str(x)


def copt(x, f):
    return "None" if x is None else f"(Some {f(x)})"


# ---------------------------------------------------------------- running A

class BuiltA:
    """A generated, rendered and documented (externalize) in a scratch directory"""

    def __init__(self, rng, knobs=None, A=None):
        self.A = A or G.gen_A(rng, knobs)
        self.files = G.render_A(self.A)
        self.work = F.Work({"A/" + k: v for k, v in self.files.items()})
        self.root = self.work.root / "A"
        self.err, self.pre, self.modules_json, self.log, self.extra_pages, order = I.run_A(self.root, self.A)
        # the order of project.modules (file-set iteration order) is an input of the model
        self.A["modules"].sort(key=lambda m: order.index(m["name"]) if m["name"] in order else 99)
        if self.modules_json is not None:
            self.stripped = self.root / "stripped"
            self.stripped.mkdir()
            (self.stripped / "modules.json").write_text(json.dumps(I.strip_json(self.modules_json)))
        self.doc = self.root / "doc"

    def close(self):
        shutil.rmtree(self.work.root, ignore_errors=True)

    def term(self):
        return G.coq_aproject(self.A, self.pre)


def export_case(b):
    mj = I.strip_json(copy.deepcopy(b.modules_json))
    if "ford-metadata" in mj:
        mj["ford-metadata"]["version"] = ""
    pages = [p for p in I.written_pages(b.doc) if p not in b.extra_pages]
    return f"(CExport {b.term()} {I.coq_json(mj)} [{'; '.join(cs(p) for p in pages)}])"


def round_case(b, remote):
    """FORD's own dict2obj over FORD's own obj2dict output, against the model's import of the model's export"""
    if remote:
        url = remote
        payload = (b.stripped / "modules.json").read_bytes()
        p, outcome = I.load(url, b.root, payload)
        fixed = url if url.endswith("/") else url + "/"
        base = f"(BRemote {cs(fixed)})"
    else:
        p, outcome = I.load("stripped", b.root)
        base = f"(BLocal {cs(str((b.root / 'stripped').resolve()))})"
    return f"(CRound {b.term()} {base} {I.coq_impl_out(p, outcome)})", outcome


def classify(chk, code, payload, key):
    """common verdict handling: returns True when the case is fine"""
    if code & 1 and not code & 2:
        chk.disagreements += 1
        chk.violation("broken-correspondence", dict(payload, code=code,
                      meaning="bit0 model!=impl, bit1 impl violates the Spec, bits>=2 region"), False)
        return False
    if code & 2:
        region = code >> 2
        chk.disagreements += 1
        if region and chk.known(REGIONS.get(region, "?"), True):
            if code & 1:
                chk.violation("broken-correspondence", dict(payload, code=code), False)
                return False
            return True
        chk.violation("failing-input", dict(payload, code=code, region=region), True)
        return False
    return True


def run(chk):
    if not chk.build(["theories/Corr/C16.vo"] + (["theories/Props/C16.vo"] if THEOREMS else [])):
        return
    if THEOREMS:
        chk.props("theories/Props/C16.v", THEOREMS)
    rng = chk.rng
    quick = chk.tier == "quick"
    cases, meta = [], []
    built = []
    for k in range(12 if quick else 120):
        b = BuiltA(rng)
        built.append(b)
        chk.count(("A", json.dumps(b.A, sort_keys=True)), sample={"A": b.files, "display": b.A["display"]})
        if b.err or b.modules_json is None:
            chk.violation("failing-input", {"what": "FORD failed on a valid generated project A", "error": b.err,
                                            "log": b.log[-1500:], "files": b.files}, True)
            continue
        cases.append(export_case(b))
        meta.append({"what": "export", "files": b.files, "display": b.A["display"]})
        rc, outcome = round_case(b, None if rng.random() < 0.5 else rng.choice(
            ["http://docs.example.org/a", "https://h.example/x/y/", "http://127.0.0.1:8000"]))
        cases.append(rc)
        meta.append({"what": "round", "files": b.files, "outcome": outcome})
    res = chk.coq_judge(IMPORTS, "case", "judge", cases, shard=4)
    if res is not None:
        chk.traces += len(cases)
        for idx, code in sorted(res.items()):
            classify(chk, code, meta[idx], None)
    for b in built:
        b.close()


def replay(chk, rep):
    print(json.dumps({k: v for k, v in rep.items() if k != "files"}, indent=1)[:3000])
    return 0


def finish(chk):
    return chk.finish(
        level_note="Coq proof over the model of obj2dict/dict2obj/load_external_modules/find; tied to ford by "
                   "differential runs",
        trusted_base=["Coq 8.16.1 kernel (vm_compute)", "harness/props/c16.py, harness/gen/c16gen.py, "
                      "harness/impl/c16impl.py", "hand-written model Out/External.v"],
        rule="pairs of generated projects",
        checker_cmd="make theories/Props/C16.vo && coqc theories/Props/C16.v (Print Assumptions)",
        assumptions=[])
