"""C16 — links into an externalised project hit the right pages of that project."""
import copy
import html
import http.server
import json
import os
import pathlib
import re
import shutil
import socketserver
import threading
import urllib.error
import urllib.parse

from harness import core
from harness.gen import c16gen as G
from harness.impl import c16impl as I
from harness.impl import fordrun as F

IMPORTS = ("From Ford Require Import Base.Str Base.Path Out.Names Out.External Out.ExternalSpec Corr.C16.\n"
           "Definition rq (i : nat) (d n : str) : req := {| r_id := i; r_dir := d; r_name := n |}.")
THEOREMS = ["C16_roundtrip", "C16_roundtrip_paths", "C16_roundtrip_paths_use", "C16_roundtrip_reexport", "C16_import_export", "C16_target_unique", "C16_exported_target_written",
            "C16_reexported_target_written", "C16_pub_table", "C16_undisplayed_not_exported", "C16_export_exact_partial", "C16_export_exact_refuted_private_listed",
            "C16_export_exact_refuted_public_unlisted", "C16_local_first", "C16_local_first_find",
            "C16_load_errors_contained", "C16_load_all_or_nothing",
            "C16_tables_fingerprint"]
REGIONS = {1: "export-follows-display"}


def cs(x):
    return I.coq_str(x)


def copt(x, f):
    return "None" if x is None else f"(Some {f(x)})"


# ---------------------------------------------------------------- running A

class BuiltA:
    """A generated, rendered and documented (externalize) in a scratch directory"""

    def __init__(self, rng, knobs=None, A=None):
        self.A = copy.deepcopy(A) if A else G.gen_A(rng, knobs)
        self.files = G.render_A(self.A)
        self.work = F.Work({"A/" + k: v for k, v in self.files.items()})
        self.root = self.work.root / "A"
        self.err, self.pre, self.modules_json, self.log, self.extra_pages, order = I.run_A(self.root, self.A)
        # the order of project.modules (file-set iteration order) is an input of the model
        self.A["modules"].sort(key=lambda m: order.index(m["name"]) if m["name"] in order else 99)
        if self.modules_json is not None:
            # ... and so is the order in which the re-exported names were added to a module's tables
            for m in self.A["modules"]:
                jm = next((j for j in self.modules_json["modules"] if j["name"] == m["name"]), None)
                if jm is None:
                    continue
                keys = [k for w in ("pub_procs", "pub_absints", "pub_types", "pub_vars") for k in jm.get(w, {})]
                pos = {k: i for i, k in enumerate(keys)}
                m["kids"] = ([e for e in m["kids"] if e["kind"] != "alias"]
                             + sorted((e for e in m["kids"] if e["kind"] == "alias"),
                                      key=lambda e: pos.get(e["name"].lower(), 10 ** 6)))
            self.stripped = self.root / "stripped"
            self.stripped.mkdir()
            (self.stripped / "modules.json").write_text(json.dumps(I.strip_json(self.modules_json)))
        self.doc = self.root / "doc"

    def close(self):
        shutil.rmtree(self.work.root, ignore_errors=True)

    def term(self):
        return G.coq_aproject(self.A, self.pre)


def export_case(b):
    mj = I.strip_json(copy.deepcopy(b.modules_json))
    if "ford-metadata" in mj:
        mj["ford-metadata"]["version"] = ""
    pages = [p for p in I.written_pages(b.doc) if p not in b.extra_pages]
    return f"(CExport {b.term()} {I.coq_json(mj)} [{'; '.join(cs(p) for p in pages)}])"


def round_case(b, remote):
    """FORD's own dict2obj over FORD's own obj2dict output, against the model's import of the model's export"""
    if remote:
        url = remote
        payload = (b.stripped / "modules.json").read_bytes()
        p, outcome = I.load(url, b.root, payload)
        fixed = url if url.endswith("/") else url + "/"
        base = f"(BRemote {cs(fixed)})"
    else:
        p, outcome = I.load("stripped", b.root)
        base = f"(BLocal {cs(str((b.root / 'stripped').resolve()))})"
    return f"(CRound {b.term()} {base} {I.coq_impl_out(p, outcome)})", outcome


REMOTE_BASES = ["http://docs.example.org/a", "https://h.example/x/y/", "http://127.0.0.1:8000", "http://h.example/",
                "https://example.org/docs/v1.2/api"]
LINK_KEYS = ["module", "submodule", "extmodule", "type", "exttype", "procedure", "extprocedure", "subroutine",
             "extsubroutine", "function", "extfunction", "proc", "extproc", "file", "interface", "extinterface",
             "absinterface", "extabsinterface", "program", "block", "namelist", "Module", "EXTTYPE", "bogus"]
SUB_KEYS = ["variable", "type", "constructor", "interface", "absinterface", "subroutine", "function", "final",
            "bound", "modproc", "common", "Variable", "nonsense"]
COLL_NAMES = list(I.COLLS)


def names_in(j, acc):
    if isinstance(j, dict):
        if isinstance(j.get("name"), str):
            acc.add(j["name"])
        for v in j.values():
            names_in(v, acc)
    elif isinstance(j, list):
        for v in j:
            names_in(v, acc)
    return acc


def coq_blocal(local):
    return "[" + "; ".join(f"({I.COLLS[c]}, [{'; '.join(cs(n) for n in ns)}])" for c, ns in local.items()) + "]"


def gen_queries(rng, names, local):
    """raw look-ups: ["use", n] | ["find", n, entity, child] | ["used", module, dict, n]"""
    names = sorted(names) + ["nosuch"] + [n for ns in local.values() for n in ns]
    qs = []
    for _ in range(rng.choice([4, 8, 12])):
        n = rng.choice(names)
        n = rng.choice([n, n, n.upper(), n.lower()])
        r = rng.random()
        if r < 0.25:
            qs.append(["use", n])
        elif r < 0.8:
            ent = rng.choice(LINK_KEYS) if rng.random() < 0.4 else None
            child = None
            if rng.random() < 0.5:
                child = [rng.choice(names), rng.choice(SUB_KEYS) if rng.random() < 0.4 else None]
            qs.append(["find", n, ent, child])
        else:
            qs.append(["used", rng.choice(names), rng.choice(["pub_procs", "pub_absints", "pub_types", "pub_vars"]), n])
    return qs


def forced_queries(p, qs):
    out = []
    for q in qs:
        if q[0] == "use":
            out.append((f"(QUse {cs(q[1])})", I.q_use(p, q[1])))
        elif q[0] == "find":
            child = tuple(q[3]) if q[3] else None
            ct = "None" if child is None else f"(Some ({cs(child[0])}, {copt(child[1], cs)}))"
            out.append((f"(QFind {cs(q[1])} {copt(q[2], cs)} {ct})", I.q_find(p, q[1], q[2], child)))
        else:
            out.append((f"(QUsed {cs(q[1])} {cs(q[2])} {cs(q[3])})", I.q_used(p, q[1], q[2], q[3])))
    return out


def load_case(rng, descriptions, force=None):
    """one CLoad case: a source in some state, loaded by FORD's load_external_modules into a stub project"""
    if force:
        desc, mutated = force["desc"], force["mutated"]
    else:
        desc = rng.choice(descriptions) if (descriptions and rng.random() < 0.5) else G.small_description(rng)
        mutated = rng.random() < 0.7
        if mutated:
            for _ in range(rng.choice([1, 1, 2])):
                desc = G.mutate_description(rng, desc)
    text = json.dumps(desc)
    if not core.is_ascii(text):
        return None
    kind = force["kind"] if force else rng.choice(
        ["local"] * 6 + ["remote"] * 3 + ["missing", "undecodable", "badjson", "abs", "urlerror",
                                           "remote-undecodable", "remote-badjson"])
    bad = rng.choice(['{"modules": [', "", "{'a': 1}", "[1, 2,]", "nul"])
    with F.Work() as w:
        d = w.root / "ext" / "doc"
        d.mkdir(parents=True)
        dirterm = cs(str(d.resolve()))
        payload = None
        value = "ext/doc"
        if kind == "local":
            (d / "modules.json").write_text(text)
            src = f"(SLocal {dirterm} (LJson {I.coq_json(desc)}))"
        elif kind == "missing":
            src = f"(SLocal {dirterm} LMissing)"
        elif kind == "undecodable":
            (d / "modules.json").write_bytes(b"\xff\xfe" + text.encode())
            src = f"(SLocal {dirterm} LUndecodable)"
        elif kind == "badjson":
            (d / "modules.json").write_text(bad)
            src = f"(SLocal {dirterm} LBadJson)"
        elif kind == "abs":
            (d / "modules.json").write_text(text)
            value = str(d.resolve())
            src = f"(SLocal {cs(value)} (LJson {I.coq_json(desc)}))"
        else:
            value = rng.choice(REMOTE_BASES)
            if kind == "remote":
                payload, f = text.encode(), f"(RJson {I.coq_json(desc)})"
            elif kind == "urlerror":
                payload = rng.choice([urllib.error.URLError("refused"),
                                      urllib.error.HTTPError(value, 404, "Not Found", {}, None)])
                f = "RUrlError"
            elif kind == "remote-undecodable":
                payload, f = b"\xff\xfe" + text.encode(), "RUndecodable"
            else:
                payload, f = bad.encode(), "RBadJson"
            src = f"(SRemote {cs(value)} {f})"
        p, outcome = I.load(value, w.root, payload)
        local, qs, raw = {}, [], []
        if outcome == "ok" and force:
            local = force.get("local", {})
            I.install_locals(p, local)
            raw = force.get("queries", [])
            qs = forced_queries(p, raw)
        elif outcome == "ok":
            names = names_in(desc, set())
            pool = sorted(names) + ["own_a", "own_b"]
            for c in COLL_NAMES:
                if rng.random() < 0.5:
                    local[c] = [rng.choice([n, n.upper()]) for n in rng.sample(pool, k=min(len(pool), rng.choice([1, 2, 3])))]
            I.install_locals(p, local)
            raw = gen_queries(rng, names, local)
            qs = forced_queries(p, raw)
        term = (f"(CLoad {src} {'true' if mutated else 'false'} {I.coq_impl_out(p, outcome)} {coq_blocal(local)} "
                f"[{'; '.join(f'({q}, {a})' for q, a in qs)}])")
    return term, {"what": "load", "source_kind": kind, "mutated": mutated, "external": value, "outcome": outcome,
                  "raw_queries": raw,
                  "description": desc if kind in ("local", "remote", "abs") else None,
                  "queries": [q for q, _ in qs], "answers": [a for _, a in qs], "local": local}


def load_seq_case(rng, descriptions, force=None):
    """several external projects in one run (some of them broken): what is left in the project lists"""
    n = len(force) if force else rng.choice([2, 2, 3])
    srcs, externals, payloads, metas = [], {}, {}, []
    with F.Work() as w:
        for i in range(n):
            if force:
                kind, desc = force[i]["kind"], force[i]["desc"]
            else:
                kind = rng.choice(["local", "local", "remote", "missing", "badjson", "undecodable", "urlerror"])
                desc = rng.choice(descriptions) if (descriptions and rng.random() < 0.4) else G.small_description(rng)
                if rng.random() < 0.5:
                    desc = G.mutate_description(rng, desc)
            text = json.dumps(desc)
            if not core.is_ascii(text):
                return None
            d = w.root / f"ext{i}" / "doc"
            d.mkdir(parents=True)
            dirterm = cs(str(d.resolve()))
            if kind == "local":
                (d / "modules.json").write_text(text)
                srcs.append(f"(SLocal {dirterm} (LJson {I.coq_json(desc)}))")
                externals[f"e{i}"] = f"ext{i}/doc"
            elif kind == "missing":
                srcs.append(f"(SLocal {dirterm} LMissing)")
                externals[f"e{i}"] = f"ext{i}/doc"
            elif kind == "badjson":
                (d / "modules.json").write_text('{"modules": [')
                srcs.append(f"(SLocal {dirterm} LBadJson)")
                externals[f"e{i}"] = f"ext{i}/doc"
            elif kind == "undecodable":
                (d / "modules.json").write_bytes(b"\xff\xfe" + text.encode())
                srcs.append(f"(SLocal {dirterm} LUndecodable)")
                externals[f"e{i}"] = f"ext{i}/doc"
            else:
                url = f"http://h{i}.example/docs"
                externals[f"e{i}"] = url
                if kind == "remote":
                    payloads[url] = text.encode()
                    srcs.append(f"(SRemote {cs(url)} (RJson {I.coq_json(desc)}))")
                else:
                    payloads[url] = urllib.error.URLError("refused")
                    srcs.append(f"(SRemote {cs(url)} RUrlError)")
            metas.append({"kind": kind, "desc": desc})
        p, outcome = I.load(externals, w.root, payloads or None)
        term = f"(CLoadSeq [{'; '.join(srcs)}] {I.coq_impl_out(p, outcome, seq=True)})"
    return term, {"what": "load-seq", "sources": metas, "outcome": outcome}


SEGS = ["proc", "type", "module", "interface", "init.html", "init~2.html", "shape_t.html#variable-side",
        "operator(.dot.).html", "a.b", "x", "None", "t.html#boundprocedure-get~3", "..", "."]


def join_cases(rng, n):
    """the two re-basing primitives on their own: str(Path(base) / rel) and urljoin(base, rel)"""
    import pathlib as pl
    from urllib.parse import urljoin
    out = []
    for _ in range(n):
        k = rng.choice([1, 2, 2, 2, 3])
        segs = [rng.choice(SEGS) for _ in range(k)]
        rel = "/".join(segs)
        if rng.random() < 0.15:
            rel = "/" + rel
        if rng.random() < 0.1:
            rel = rel.replace("/", "//", 1) if not rel.startswith("/") else rel
        if rng.random() < 0.1:
            rel += "/"
        if rng.random() < 0.5:
            base = rng.choice(["/tmp/a/doc", "/srv/docs", "/x"])
            if rel.startswith("//"):
                continue
            impl = str(pl.Path(base) / rel)
            term = f"(CJoin (BLocal {cs(base)}) {cs(rel)} {cs(impl)})"
        else:
            base = rng.choice(REMOTE_BASES)
            base = base if base.endswith("/") else base + "/"
            # scope of url_join: no dot segments, no "//", no scheme-like first segment
            if any(sg in (".", "..") for sg in rel.split("/")) or "//" in rel or rel == "":
                continue
            impl = urljoin(base, rel)
            term = f"(CJoin (BRemote {cs(base)}) {cs(rel)} {cs(impl)})"
        out.append((term, {"what": "join", "base": base, "rel": rel, "impl": impl}))
    return out


# ---------------------------------------------------------------- end to end: B built against A

class Quiet(http.server.SimpleHTTPRequestHandler):
    def log_message(self, *a):
        pass


class Server:
    """http.server on 127.0.0.1 serving one directory"""

    def __init__(self, directory):
        handler = lambda *a, **k: Quiet(*a, directory=str(directory), **k)  # noqa
        self.httpd = socketserver.ThreadingTCPServer(("127.0.0.1", 0), handler)
        self.httpd.daemon_threads = True
        self.port = self.httpd.server_address[1]
        self.thread = threading.Thread(target=self.httpd.serve_forever, daemon=True)
        self.thread.start()

    def close(self):
        self.httpd.shutdown()
        self.httpd.server_close()


LINK_RE = re.compile(r"""<a\s[^>]*?(?:xlink:)?href=(["'])(.*?)\1[^>]*>(.*?)</a>""", re.S)
TAG_RE = re.compile(r"<[^>]+>")
MARK_RE = re.compile(r"zq(\d+)zq")


def page_links(path):
    text = path.read_text(errors="replace")
    for m in LINK_RE.finditer(text):
        label = html.unescape(TAG_RE.sub("", m.group(3))).strip()
        yield html.unescape(m.group(2)), label


def into_A(href, page, adoc, remote_base):
    """(file in A's output, fragment) when the link points into A's documentation, else None"""
    if remote_base:
        if not href.startswith(remote_base.rstrip("/") + "/") and href != remote_base:
            if href.startswith("http://127.0.0.1"):
                return ("OUTSIDE", href)
            return None
        rest = href[len(remote_base.rstrip("/")) + 1:]
        path, _, frag = rest.partition("#")
        return (adoc / urllib.parse.unquote(path), frag)
    if re.match(r"[a-z]+:", href) or href.startswith("#"):
        return None
    path, _, frag = href.partition("#")
    target = pathlib.Path(os.path.normpath(os.path.join(page.parent, urllib.parse.unquote(path))))
    try:
        target.relative_to(adoc)
    except ValueError:
        return None
    return (target, frag)


def markers_at(target, frag):
    """ids of the entities of A documented at the link target: all markers of the page, or the first marker
    after the anchor"""
    text = target.read_text(errors="replace")
    if not frag:
        return {int(x) for x in MARK_RE.findall(text)}, True
    pos = text.find(f'id="{frag}"')
    if pos < 0:
        return set(), False
    m = MARK_RE.search(text, pos)
    return ({int(m.group(1))} if m else set()), True


def e2e_witnesses(chk):
    """regression inputs: the witnesses of the repaired findings, as full FORD runs on the working tree.
    A defect that comes back is a failing input (the findings are no longer listed as open)."""
    from findings import c16_common as D
    p = D.Pair()
    try:
        err, _ = p.build_A()
        if err:
            chk.violation("failing-input", {"what": "FORD failed on the demonstration project A", "error": err}, True)
            return
        good = (p.root / "A" / "doc" / "modules.json").read_bytes()
        # (a) [[...]] to an entity of a local-path external
        err, log = p.build_B(D.B_PLAIN.replace("!! module of B", "!! module of B, see [[ma]] and [[ma:solve]]"),
                             "../A/doc")
        chk.count(("witness", "doc-link-local"), sample={"B": "[[ma]] with external: ../A/doc", "error": err})
        if err:
            chk.disagreements += 1
            if not ("AttributeError" in err and known_once(chk, "doc-link-to-local-external-crashes")):
                chk.violation("failing-input", {"what": "[[...]] to an entity of a local external ends the run",
                                                "error": err, "log": log[-1500:]}, True)
        else:
            page = (p.root / "B" / "doc" / "module" / "mb.html")
            hits = [(h, l) for h, l in page_links(page) if l in ("ma", "solve") and "A/doc" in
                    os.path.normpath(os.path.join(page.parent, h.partition("#")[0]))]
            targets = {os.path.normpath(os.path.join(page.parent, h.partition("#")[0])) for h, l in hits}
            want = {str((p.root / "A" / "doc" / "module" / "ma.html").resolve()),
                    str((p.root / "A" / "doc" / "proc" / "solve.html").resolve())}
            if not want <= {str(pathlib.Path(x).resolve()) for x in targets}:
                chk.violation("failing-input", {"what": "[[ma]] / [[ma:solve]] are not linked to A's pages",
                                                "links": sorted(targets)}, True)
        # (b) descriptions in a bad state, an absolute path: B must still be built, without the links
        mj = p.root / "A" / "doc" / "modules.json"
        for which in ("absolute", "missing", "shape", "shape2", "undecodable"):
            external = "../A/doc"
            mj.write_bytes(good)
            if which == "missing":
                mj.unlink()
            elif which == "shape":
                mj.write_text('{"ford-metadata": {"version": "x"}}')
            elif which == "shape2":
                d = json.loads(good)
                d["modules"].append({"name": "broken", "external_url": "./module/broken.html"})
                mj.write_text(json.dumps(d))
            elif which == "undecodable":
                mj.write_bytes(b"\xff\xfe" + good)
            else:
                external = str((p.root / "A" / "doc").resolve())
            shutil.rmtree(p.root / "B" / "doc", ignore_errors=True)
            err, log = p.build_B(D.B_PLAIN, external)
            chk.count(("witness", "load", which), sample={"external state": which, "error": err})
            page = p.root / "B" / "doc" / "module" / "mb.html"
            if err or not page.is_file():
                chk.disagreements += 1
                chk.violation("failing-input", {"what": f"a description in state '{which}' ends the run of B",
                                                "error": err, "log": log[-1500:]}, True)
                continue
            into_a = [h for h, l in page_links(page) if "A/doc" in h]
            if which == "absolute" and not into_a:
                chk.violation("failing-input", {"what": "absolute local path: B has no link into A"}, True)
            if which != "absolute" and into_a:
                chk.violation("failing-input", {"what": f"state '{which}': B still links into A (half-loaded "
                                                        f"description)", "links": into_a}, True)
    finally:
        p.close()
    # (c) [[shape]]: B has a type `shape`, the external project a module `shape` (served through a mocked urlopen)
    import ford.external_project as ep
    p = D.Pair(a_src="module shape\n  !! module shape of A\n  implicit none\n  integer :: n = 1\nend module shape\n")
    orig = ep.urlopen
    try:
        err, _ = p.build_A()
        if err:
            chk.violation("failing-input", {"what": "FORD failed on the demonstration project A", "error": err}, True)
            return
        payload = (p.root / "A" / "doc" / "modules.json").read_bytes()
        ep.urlopen = lambda *a, **k: I.FakeResponse(payload)
        err, log = p.build_B("module mb\n  !! module of B\n  implicit none\n  type :: shape\n    !! B's own type\n"
                             "    integer :: k\n  end type\nend module mb\n\nmodule mb2\n"
                             "  !! another module of B, see [[shape]]\n  implicit none\nend module mb2\n",
                             "https://a.example.org/doc/")
        chk.count(("witness", "local-first"), sample={"B": "[[shape]] with type shape in B, module shape in A",
                                                      "error": err})
        if err:
            chk.violation("failing-input", {"what": "FORD failed on B", "error": err, "log": log[-1500:]}, True)
        else:
            page = p.root / "B" / "doc" / "module" / "mb2.html"
            hrefs = [h for h, l in page_links(page) if l == "shape"]
            if not hrefs or any(h.startswith("https://a.example.org") for h in hrefs):
                chk.disagreements += 1
                if not known_once(chk, "external-before-local-entity"):
                    chk.violation("failing-input", {"what": "[[shape]] is linked into the external project although "
                                                            "B defines a type `shape`", "links": hrefs}, True)
    finally:
        ep.urlopen = orig
        p.close()
    # (d) recorded finding graph-external-same-name: B calls m1's `total` and, as t2, m2's `total`
    p = D.Pair(a_src="module m1\n  !! m1 of A\n  implicit none\ncontains\n  subroutine total(x)\n    !! total of m1\n"
                     "    integer, intent(inout) :: x\n    x = x + 1\n  end subroutine total\nend module m1\n\n"
                     "module m2\n  !! m2 of A\n  implicit none\ncontains\n  subroutine total(x)\n    !! total of m2\n"
                     "    integer, intent(inout) :: x\n    x = x + 2\n  end subroutine total\nend module m2\n")
    try:
        err, _ = p.build_A()
        err2, log = (None, "") if err else p.build_B(
            "module mb\n  !! module of B\n  use m1, only: total\n  use m2, only: t2 => total\n  implicit none\n"
            "contains\n  subroutine go(x)\n    !! calls both\n    integer, intent(inout) :: x\n    call total(x)\n"
            "    call t2(x)\n  end subroutine go\nend module mb\n", "../A/doc", graph=True)
        chk.count(("witness", "graph-same-name"), sample={"B": "call total (m1) and t2 => total (m2), graph: true",
                                                           "error": err or err2})
        if err or err2:
            chk.violation("failing-input", {"what": "FORD failed on the graph demonstration pair",
                                            "error": err or err2, "log": log[-1500:]}, True)
        else:
            page = (p.root / "B" / "doc" / "proc" / "go.html").read_text()
            got = {h.rsplit("/", 1)[-1] for h in re.findall(r'xlink:href="([^"]*A/doc/proc/[^"]*)"', page)}
            mpage = p.root / "B" / "doc" / "module" / "mb.html"
            uses = {l for h, l in page_links(mpage) if "A/doc/module/" in h}
            if uses != {"m1", "m2"}:
                chk.violation("failing-input", {"what": "USE links of the graph demonstration pair",
                                                "links": sorted(uses)}, True)
            if got == {"total.html", "total~2.html"}:
                pass                                    # repaired
            elif len(got) == 1 and got <= {"total.html", "total~2.html"}:
                chk.disagreements += 1
                if not known_once(chk, "graph-external-same-name"):
                    chk.violation("failing-input", {"what": "call graph: two procedures of A with the same own name "
                                                            "share one node", "links": sorted(got)}, True)
            else:
                chk.violation("failing-input", {"what": "call graph of the demonstration pair has no right link "
                                                        "into A", "links": sorted(got)}, True)
    finally:
        p.close()


def end_to_end(chk, rng, npairs, nremote):
    for k in range(npairs):
        remote = k < nremote
        clash = rng.random() < 0.6
        graph = rng.random() < (0.6 if clash else 0.25)
        knobs = {} if rng.random() < 0.2 else {"display": ["public", "protected"]}
        if clash:
            knobs.update({"clash": True, "nmod": rng.choice([2, 3])})
        if k == npairs - 1:
            # one pair of every run has a facade over modules with equal names, and graphs
            knobs.update({"clash": True, "nmod": 3, "facade": True, "display": ["public", "protected"]})
            graph = True
        b = BuiltA(rng, knobs)
        try:
            if b.err or b.modules_json is None:
                chk.violation("failing-input", {"what": "FORD failed on a valid generated project A", "error": b.err,
                                                "files": b.files}, True)
                continue
            B = G.gen_B(rng, b.A, doc_refs=True)
            bfiles = G.render_B(B)
            for rel, text in bfiles.items():
                b.work.write("B/" + rel, text)
            broot = b.work.root / "B"
            server = None
            if remote:
                server = Server(b.work.root)
                base = f"http://127.0.0.1:{server.port}/A/doc"
                ext = base + ("/" if rng.random() < 0.5 else "")
            else:
                base, ext = None, "../A/doc"
            try:
                if k % 3 == 2:
                    # the command-line route: -L / --external_links
                    data, out, err = F.full_run_inprocess(broot, {"graph": "true" if graph else "false"},
                                                          extra_args={"external": [f"exta = {ext}"]})
                else:
                    data, out, err = F.full_run_inprocess(broot, {"external": f"exta = {ext}",
                                                                  "graph": "true" if graph else "false"})
            finally:
                if server:
                    server.close()
            chk.count(("pair", json.dumps(b.A, sort_keys=True), json.dumps(sorted(bfiles.items()))),
                      sample={"A": b.files, "B": bfiles, "external": ext})
            payload = {"A": b.files, "B": bfiles, "external": ext, "display": b.A["display"], "graph": graph,
                       "absA": b.A, "absB": B}
            if err:
                chk.violation("failing-input", dict(payload, what="FORD failed on B", error=err, log=out[-1500:]), True)
                continue
            check_pair(chk, b, B, broot / "doc", base, payload, graph)
        finally:
            b.close()


def check_pair(chk, b, B, bdoc, base, payload, graph):
    adoc = (b.root / "doc").resolve()
    bdoc = bdoc.resolve()
    ents = {e["id"]: (e, par) for e, par in G.all_entities(b.A)}
    default_display = set(b.A["display"]) == {"public", "protected"}
    problems = []
    links = {}           # page (relative to B's doc) -> [(label, target, frag, marker ids)]
    for page in sorted(bdoc.rglob("*.html")):
        rel = str(page.relative_to(bdoc))
        for href, label in page_links(page):
            t = into_A(href, page, adoc, base)
            if t is None:
                continue
            if t[0] == "OUTSIDE":
                problems.append(("link to the server but outside A's documentation", rel, href))
                continue
            target, frag = t
            if not target.is_file():
                problems.append(("link into A to a page A did not write", rel, href))
                continue
            ids, found = markers_at(target, frag)
            if not found:
                problems.append(("link into A to an anchor that is not on the page", rel, href))
                continue
            links.setdefault(rel, []).append((label, target, frag, ids))
            # the target documents an entity of that name
            names = {ents[i][0]["name"].lower() for i in ids if i in ents}
            if label and label.lower().split("%")[-1] not in names and not label.startswith("http"):
                problems.append(("link text names no entity documented at the target", rel, href, label))
    n_links = sum(len(v) for v in links.values())
    chk.extra["e2e_links_into_A"] = chk.extra.get("e2e_links_into_A", 0) + n_links

    def expect(page, label, ent_id, what):
        """some link with this text on this page leads to where entity ent_id is documented"""
        e, par = ents[ent_id]
        # an entity that A does not display (or whose container it does not display) is not exported:
        # B shows its name without a link, which is all the property asks for
        chain_ = [e] + ([par] if par is not None and par["kind"] != "module" else [])
        if any(x["kind"] != "module" and x["perm"] not in b.A["display"] for x in chain_):
            return
        hits = [l for l in links.get(page, []) if l[0].lower() == label.lower()]
        if any(ent_id in l[3] for l in hits):
            wrong = [l for l in hits if ent_id not in l[3]]
            return
        problems.append((f"{what}: no link '{label}' on {page} reaches the documentation of entity {ent_id} "
                         f"({e['kind']} {e['name']})", page, [str(l[1]) + "#" + l[2] for l in hits]))

    bnames = {bm["name"].lower() for bm in B["modules"]}
    same_name_nodes = []
    for bm in B["modules"]:
        mpage = f"module/{bm['name'].lower()}.html"
        if not (bdoc / mpage).is_file():
            problems.append(("B's module page is missing", mpage))
            continue
        for u in bm["uses"]:
            if "local" in u:
                bad = [l for l in links.get(mpage, []) if l[0].lower() == u["local"].lower()]
                if bad:
                    problems.append(("USE of B's own module is linked into A", mpage, u["local"]))
                continue
            if u["amod"]["name"].lower() in bnames:
                continue
            expect(mpage, u["amod"]["name"], u["amod"]["id"], "use")
        for t in bm["types"]:
            tpage = f"type/{t['name'].lower()}.html"
            for e in ([t["extends"]] if t["extends"] else []) + t["comps"]:
                expect(tpage, e["name"], e["id"], "type extension / component")
                expect(mpage, e["name"], e["id"], "type extension / component (module page)")
            if t["extends"] and t["extends"]["perm"] in b.A["display"]:
                # the inherited type-bound procedures are listed with links to the parent's documentation:
                # they must be the parent's OWN members, not same-named members of another type of A
                for c in t["extends"]["kids"]:
                    # (B itself shows only public / protected inherited bindings)
                    if c["kind"] == "bound" and c["perm"] in b.A["display"] and c["perm"] != "private":
                        expect(tpage, c["name"], c["id"], f"inherited binding of {t['extends']['name']}")
        for v in bm["vars"]:
            expect(mpage, v["type"]["name"], v["type"]["id"], "variable of an imported type")
        if graph:
            for p in bm["procs"]:
                ppage = f"proc/{p['name'].lower()}.html"
                for c in p["calls"]:
                    if c["perm"] not in b.A["display"]:
                        continue
                    hits = [l for pg in (ppage,) for l in links.get(pg, []) if c["id"] in l[3]]
                    if not hits:
                        # recorded finding graph-external-same-name: another procedure of A with the same own
                        # name is a node of the same graph and IS linked - ford/graphs.py keys external nodes by
                        # name, the two collapse into one node; anything else stays a violation
                        twins = [c2 for c2 in p["calls"] if c2["id"] != c["id"]
                                 and c2["name"].lower() == c["name"].lower()
                                 and any(c2["id"] in l[3] for l in links.get(ppage, []))]
                        if twins:
                            same_name_nodes.append((ppage, c["name"], c["id"], twins[0]["id"]))
                            continue
                        problems.append((f"call graph: no link on {ppage} reaches {c['kind']} {c['name']} "
                                         f"(entity {c['id']})", ppage))
        for r in bm["refs"]:
            if r["amod"]["name"].lower() in bnames:
                continue
            if r["ent"] is None:
                expect(mpage, r["amod"]["name"], r["amod"]["id"], f"reference {r['text']}")
            elif r["qualified"]:
                expect(mpage, r["ent"]["name"], r["ent"]["id"], f"reference {r['text']}")
    chk.traces += 1
    if same_name_nodes:
        chk.disagreements += 1
        if not known_once(chk, "graph-external-same-name"):
            problems.append(("call graph: two procedures of A with the same own name share one node",
                             same_name_nodes[:5]))
    if problems:
        chk.disagreements += 1
        chk.violation("failing-input", dict(payload, what="end-to-end: links of B into A", problems=problems[:10]), True)


def known_once(chk, key):
    """account for a case inside a known region: count it, print the KNOWN-FINDING line once"""
    rc = chk.extra.setdefault("cases_in_known_regions", {})
    rc[key] = rc.get(key, 0) + 1
    seen = chk.extra.setdefault("_known_seen", {})
    if key not in seen:
        seen[key] = chk.known(key, True)
    return seen[key]


def classify(chk, code, payload, key):
    """common verdict handling: returns True when the case is fine"""
    if code & 1 and not code & 2:
        chk.disagreements += 1
        chk.violation("broken-correspondence", dict(payload, code=code,
                      meaning="bit0 model!=impl, bit1 impl violates the Spec, bits>=2 region"), False)
        return False
    if code & 2:
        region = code >> 2
        chk.disagreements += 1
        if region and known_once(chk, REGIONS.get(region, "?")):
            if code & 1:
                chk.violation("broken-correspondence", dict(payload, code=code), False)
                return False
            return True
        chk.violation("failing-input", dict(payload, code=code, region=region), True)
        return False
    return True


def run(chk):
    chk.translate(["t_c16_tables.py"])
    corr_ok = chk.build(["theories/Corr/C16.vo"])
    # a broken proof obligation (e.g. a table of the source changed) does not stop the search for a failing input
    if chk.build(["theories/Props/C16.vo"]):
        chk.props("theories/Props/C16.v", THEOREMS)
    if not corr_ok:
        return
    rng = chk.rng
    quick = chk.tier == "quick"
    cases, meta = [], []
    built = []
    # (1) export and round trip: FORD's obj2dict / dict2obj against the model, on generated projects A
    FIRST = [{"display": ["private"]}, {"display": ["public", "private", "protected"]},
             {"display": ["public", "protected"], "nmod": 3, "clash": True}]
    for k in range(14 if quick else 200):
        b = BuiltA(rng, FIRST[k] if k < len(FIRST) else ({"clash": True} if k % 3 == 0 else None))
        built.append(b)
        chk.count(("A", json.dumps(b.A, sort_keys=True)), sample={"A": b.files, "display": b.A["display"]})
        if b.err or b.modules_json is None:
            chk.violation("failing-input", {"what": "FORD failed on a valid generated project A", "error": b.err,
                                            "log": b.log[-1500:], "files": b.files}, True)
            continue
        cases.append(export_case(b))
        meta.append({"what": "export", "files": b.files, "display": b.A["display"], "absA": b.A})
        remote = None if rng.random() < 0.5 else rng.choice(REMOTE_BASES)
        rc, outcome = round_case(b, remote)
        cases.append(rc)
        meta.append({"what": "round", "files": b.files, "outcome": outcome, "absA": b.A, "remote": remote})
    # (2) loading: corpus (witnesses of the findings first), then descriptions in every state
    descriptions = [b.modules_json for b in built if b.modules_json is not None]
    corpus = json.load(open(core.VERIF / "corpus" / "C16" / "cases.json"))
    for k in range(len(corpus["load"]) + (250 if quick else 6000)):
        lc = load_case(rng, descriptions, corpus["load"][k] if k < len(corpus["load"]) else None)
        if lc is None:
            continue
        cases.append(lc[0])
        meta.append(lc[1])
        chk.count(("load", lc[0]), nontrivial=True, sample=None)
    for k in range(len(corpus.get("seq", [])) + (40 if quick else 600)):
        lc = load_seq_case(rng, descriptions, corpus["seq"][k] if k < len(corpus.get("seq", [])) else None)
        if lc is None:
            continue
        cases.append(lc[0])
        meta.append(lc[1])
        chk.count(("load-seq", lc[0]), nontrivial=True)
    # (3) the two re-basing primitives
    for term, m in join_cases(rng, 200 if quick else 5000):
        cases.append(term)
        meta.append(m)
        chk.count(("join", m["base"], m["rel"]), nontrivial=True)
    kinds = {}
    for m in meta:
        kinds[m["what"]] = kinds.get(m["what"], 0) + 1
    chk.extra["cases_by_kind"] = kinds
    res = chk.coq_judge(IMPORTS, "case", "judge", cases, shard=16)
    if res is not None:
        chk.traces += len(cases)
        for idx, code in sorted(res.items()):
            classify(chk, code, meta[idx], None)
    for b in built:
        b.close()
    # (4) end to end: B built against A's output (local path; http.server on 127.0.0.1), links checked in the HTML
    e2e_witnesses(chk)
    end_to_end(chk, rng, 10 if quick else 150, 3 if quick else 40)
    if not quick:
        chk.coqchk(["Ford.Props.C16"])


def replay(chk, rep):
    chk.build(["theories/Corr/C16.vo"])
    what = rep.get("what", "")
    print("replaying:", what, "| kind:", rep.get("kind"))
    if what in ("export", "round") and rep.get("absA"):
        b = BuiltA(None, A=rep["absA"])
        try:
            if b.err:
                print("FORD failed on A:", b.err)
                return 1
            term = export_case(b) if what == "export" else round_case(b, rep.get("remote"))[0]
            res = chk.coq_judge(IMPORTS, "case", "judge", [term])
            print("judge code (bit0 model!=impl, bit1 spec violated, bits>=2 region):", res)
            return 1 if res and any(c & 3 for c in res.values()) else 0
        finally:
            b.close()
    if what == "load":
        import random
        force = {"kind": {"local": "local", "remote": "remote"}.get(rep["kind"], rep["kind"]),
                 "desc": rep.get("description"), "mutated": rep.get("mutated", False),
                 "local": rep.get("local", {}), "queries": rep.get("raw_queries", [])}
        force["kind"] = rep.get("source_kind", force["kind"])
        lc = load_case(random.Random(0), [], force)
        print("outcome:", lc[1]["outcome"], "answers:", lc[1]["answers"])
        res = chk.coq_judge(IMPORTS, "case", "judge", [lc[0]])
        print("judge code:", res)
        return 1 if res and any(c & 1 or (c & 2 and not c >> 2) for c in res.values()) else 0
    if what == "load-seq":
        lc = load_seq_case(None, [], rep["sources"])
        print("outcome:", lc[1]["outcome"])
        res = chk.coq_judge(IMPORTS, "case", "judge", [lc[0]])
        print("judge code:", res)
        return 1 if res else 0
    if what == "join":
        res = chk.coq_judge(IMPORTS, "case", "judge",
                            [f"(CJoin ({'BLocal' if rep['base'].startswith('/') else 'BRemote'} {cs(rep['base'])}) "
                             f"{cs(rep['rel'])} {cs(rep['impl'])})"])
        print("judge code:", res)
        return 1 if res else 0
    if rep.get("absA") and rep.get("B"):
        b = BuiltA(None, A=rep["absA"])
        try:
            for rel, text in rep["B"].items():
                b.work.write("B/" + rel, text)
            data, out, err = F.full_run_inprocess(b.work.root / "B", {"external": "exta = ../A/doc",
                                                                      "graph": "true" if rep.get("graph") else "false"})
            print("B against a local copy of A:", err or "built")
            if err:
                return 1
            if rep.get("absB"):
                before = getattr(chk, "nviol", 0)
                check_pair(chk, b, rep["absB"], b.work.root / "B" / "doc", None, {}, bool(rep.get("graph")))
                for _, _, payload, _ in getattr(chk, "_pending", []):
                    print(json.dumps(payload.get("problems"), indent=1)[:3000])
                return 1 if getattr(chk, "nviol", 0) > before else 0
            return 0
        finally:
            b.close()
    print(json.dumps({k: v for k, v in rep.items() if k not in ("files", "A", "B", "absA", "absB")}, indent=1)[:3000])
    return 0


def finish(chk):
    chk.extra.pop("_known_seen", None)
    return chk.finish(
        level_note="Coq proofs over all projects A (entity trees of any size, any names, any display, any NameSelector "
                   "history) and all bases about the model Out/External.v of obj2dict / dump_modules / dict2obj / "
                   "load_external_modules / find_used_modules / Project.find; the model is tied to ford by evaluating it "
                   "in Coq on generated projects, descriptions and look-ups next to FORD's own functions, by the "
                   "regenerated tables (C16_tables_fingerprint), and the statement is searched end to end on the HTML of "
                   "B built against A (local path and http.server on 127.0.0.1)",
        trusted_base=["Coq 8.16.1 kernel (vm_compute used for evaluating cases and closed witnesses)",
                      "hand-written model Out/External.v and spec Out/ExternalSpec.v",
                      "harness/props/c16.py, harness/gen/c16gen.py (generator + renderer of A and B), "
                      "harness/impl/c16impl.py (adapters, stub project)",
                      "translate/t_c16_tables.py (ast reader of the tables)",
                      "Out/Names.v (NameSelector model, property C10) for idents"],
        rule="distinct = distinct abstract project A / distinct (source state, description, local names, queries) "
             "load case / distinct (base, reference) join case / distinct pair (A, B); every case is non-trivial "
             "(at least one module, or one load, or one join)",
        checker_cmd="python translate/t_c16_tables.py && make theories/Corr/C16.vo theories/Props/C16.vo && "
                    "coqc theories/Props/C16.v (Print Assumptions of every theorem)",
        assumptions=["7-bit names; JSON objects with distinct keys, JSON numbers are naturals",
                     "A consists of modules with functions, subroutines, generic interfaces (module procedure lists), "
                     "abstract interfaces, derived types (components, bound procedures), variables, local variables / "
                     "internal procedures / local types of procedures; re-exports between A's modules only as `use m, only: [local =>] name` (facade modules)",
                     "project-wide display only, hide_undoc off; pass-through attributes (vartype, deferred, generic, "
                     "attribs) are stripped before the export comparison",
                     "str(Path(base)/rel) modelled for a normalised absolute base; urljoin modelled for references "
                     "without scheme, '//' and dot segments",
                     "markdown / Jinja templates and graphs are outside the model: covered by the end-to-end search "
                     "only (known finding graph-external-same-name: external nodes of a graph are keyed by name)"])
