"""C16 — links into an externalised project hit the right pages of that project."""
import copy
import html
import http.server
import json
import os
import pathlib
import re
import shutil
import socketserver
import threading
import urllib.error
import urllib.parse

from harness import core
from harness.gen import c16gen as G
from harness.impl import c16impl as I
from harness.impl import fordrun as F

IMPORTS = ("From Ford Require Import Base.Str Base.Path Out.Names Out.External Out.ExternalSpec Corr.C16.\n"
           "Definition rq (i : nat) (d n : str) : req := {| r_id := i; r_dir := d; r_name := n |}.")
THEOREMS = []   # filled below once Props/C16.v exists
REGIONS = {1: "export-follows-display", 2: "missing-modules-json", 3: "wrong-shape-json", 4: "absolute-local-path",
           5: "undecodable-modules-json", 6: "external-module-before-local-entity"}


def cs(x):
    return I.coq_str(x)


def copt(x, f):
    return "None" if x is None else f"(Some {f(x)})"


# ---------------------------------------------------------------- running A

class BuiltA:
    """A generated, rendered and documented (externalize) in a scratch directory"""

    def __init__(self, rng, knobs=None, A=None):
        self.A = A or G.gen_A(rng, knobs)
        self.files = G.render_A(self.A)
        self.work = F.Work({"A/" + k: v for k, v in self.files.items()})
        self.root = self.work.root / "A"
        self.err, self.pre, self.modules_json, self.log, self.extra_pages, order = I.run_A(self.root, self.A)
        # the order of project.modules (file-set iteration order) is an input of the model
        self.A["modules"].sort(key=lambda m: order.index(m["name"]) if m["name"] in order else 99)
        if self.modules_json is not None:
            self.stripped = self.root / "stripped"
            self.stripped.mkdir()
            (self.stripped / "modules.json").write_text(json.dumps(I.strip_json(self.modules_json)))
        self.doc = self.root / "doc"

    def close(self):
        shutil.rmtree(self.work.root, ignore_errors=True)

    def term(self):
        return G.coq_aproject(self.A, self.pre)


def export_case(b):
    mj = I.strip_json(copy.deepcopy(b.modules_json))
    if "ford-metadata" in mj:
        mj["ford-metadata"]["version"] = ""
    pages = [p for p in I.written_pages(b.doc) if p not in b.extra_pages]
    return f"(CExport {b.term()} {I.coq_json(mj)} [{'; '.join(cs(p) for p in pages)}])"


def round_case(b, remote):
    """FORD's own dict2obj over FORD's own obj2dict output, against the model's import of the model's export"""
    if remote:
        url = remote
        payload = (b.stripped / "modules.json").read_bytes()
        p, outcome = I.load(url, b.root, payload)
        fixed = url if url.endswith("/") else url + "/"
        base = f"(BRemote {cs(fixed)})"
    else:
        p, outcome = I.load("stripped", b.root)
        base = f"(BLocal {cs(str((b.root / 'stripped').resolve()))})"
    return f"(CRound {b.term()} {base} {I.coq_impl_out(p, outcome)})", outcome


REMOTE_BASES = ["http://docs.example.org/a", "https://h.example/x/y/", "http://127.0.0.1:8000", "http://h.example/",
                "https://example.org/docs/v1.2/api"]
LINK_KEYS = ["module", "submodule", "extmodule", "type", "exttype", "procedure", "extprocedure", "subroutine",
             "extsubroutine", "function", "extfunction", "proc", "extproc", "file", "interface", "extinterface",
             "absinterface", "extabsinterface", "program", "block", "namelist", "Module", "EXTTYPE", "bogus"]
SUB_KEYS = ["variable", "type", "constructor", "interface", "absinterface", "subroutine", "function", "final",
            "bound", "modproc", "common", "Variable", "nonsense"]
COLL_NAMES = list(I.COLLS)


def names_in(j, acc):
    if isinstance(j, dict):
        if isinstance(j.get("name"), str):
            acc.add(j["name"])
        for v in j.values():
            names_in(v, acc)
    elif isinstance(j, list):
        for v in j:
            names_in(v, acc)
    return acc


def coq_blocal(local):
    return "[" + "; ".join(f"({I.COLLS[c]}, [{'; '.join(cs(n) for n in ns)}])" for c, ns in local.items()) + "]"


def gen_queries(rng, p, names, local):
    names = sorted(names) + ["nosuch"] + [n for ns in local.values() for n in ns]
    qs = []
    for _ in range(rng.choice([4, 8, 12])):
        n = rng.choice(names)
        n = rng.choice([n, n, n.upper(), n.lower()])
        r = rng.random()
        if r < 0.25:
            qs.append((f"(QUse {cs(n)})", I.q_use(p, n)))
        elif r < 0.8:
            ent = rng.choice(LINK_KEYS) if rng.random() < 0.4 else None
            child = None
            if rng.random() < 0.5:
                child = (rng.choice(names), rng.choice(SUB_KEYS) if rng.random() < 0.4 else None)
            ct = "None" if child is None else f"(Some ({cs(child[0])}, {copt(child[1], cs)}))"
            qs.append((f"(QFind {cs(n)} {copt(ent, cs)} {ct})", I.q_find(p, n, ent, child)))
        else:
            m = rng.choice(names)
            w = rng.choice(["pub_procs", "pub_absints", "pub_types", "pub_vars"])
            qs.append((f"(QUsed {cs(m)} {cs(w)} {cs(n)})", I.q_used(p, m, w, n)))
    return qs


def load_case(rng, descriptions):
    """one CLoad case: a source in some state, loaded by FORD's load_external_modules into a stub project"""
    desc = rng.choice(descriptions) if (descriptions and rng.random() < 0.5) else G.small_description(rng)
    mutated = rng.random() < 0.7
    if mutated:
        for _ in range(rng.choice([1, 1, 2])):
            desc = G.mutate_description(rng, desc)
    text = json.dumps(desc)
    if not core.is_ascii(text):
        return None
    kind = rng.choice(["local"] * 6 + ["remote"] * 3 + ["missing", "undecodable", "badjson", "abs", "urlerror",
                                                         "remote-undecodable", "remote-badjson"])
    bad = rng.choice(['{"modules": [', "", "{'a': 1}", "[1, 2,]", "nul"])
    with F.Work() as w:
        d = w.root / "ext" / "doc"
        d.mkdir(parents=True)
        dirterm = cs(str(d.resolve()))
        payload = None
        value = "ext/doc"
        if kind == "local":
            (d / "modules.json").write_text(text)
            src = f"(SLocal {dirterm} (LJson {I.coq_json(desc)}))"
        elif kind == "missing":
            src = f"(SLocal {dirterm} LMissing)"
        elif kind == "undecodable":
            (d / "modules.json").write_bytes(b"\xff\xfe" + text.encode())
            src = f"(SLocal {dirterm} LUndecodable)"
        elif kind == "badjson":
            (d / "modules.json").write_text(bad)
            src = f"(SLocal {dirterm} LBadJson)"
        elif kind == "abs":
            (d / "modules.json").write_text(text)
            value = str(d.resolve())
            src = f"(SLocalAbs {cs(value)})"
        else:
            value = rng.choice(REMOTE_BASES)
            if kind == "remote":
                payload, f = text.encode(), f"(RJson {I.coq_json(desc)})"
            elif kind == "urlerror":
                payload = rng.choice([urllib.error.URLError("refused"),
                                      urllib.error.HTTPError(value, 404, "Not Found", {}, None)])
                f = "RUrlError"
            elif kind == "remote-undecodable":
                payload, f = b"\xff\xfe" + text.encode(), "RUndecodable"
            else:
                payload, f = bad.encode(), "RBadJson"
            src = f"(SRemote {cs(value)} {f})"
        p, outcome = I.load(value, w.root, payload)
        local, qs = {}, []
        if outcome == "ok":
            names = names_in(desc, set())
            pool = sorted(names) + ["own_a", "own_b"]
            for c in COLL_NAMES:
                if rng.random() < 0.5:
                    local[c] = [rng.choice([n, n.upper()]) for n in rng.sample(pool, k=min(len(pool), rng.choice([1, 2, 3])))]
            I.install_locals(p, local)
            qs = gen_queries(rng, p, names, local)
        term = (f"(CLoad {src} {'true' if mutated else 'false'} {I.coq_impl_out(p, outcome)} {coq_blocal(local)} "
                f"[{'; '.join(f'({q}, {a})' for q, a in qs)}])")
    return term, {"what": "load", "kind": kind, "mutated": mutated, "external": value, "outcome": outcome,
                  "description": desc if kind in ("local", "remote", "abs") else None,
                  "queries": [q for q, _ in qs], "answers": [a for _, a in qs], "local": local}


SEGS = ["proc", "type", "module", "interface", "init.html", "init~2.html", "shape_t.html#variable-side",
        "operator(.dot.).html", "a.b", "x", "None", "t.html#boundprocedure-get~3", "..", "."]


def join_cases(rng, n):
    """the two re-basing primitives on their own: str(Path(base) / rel) and urljoin(base, rel)"""
    import pathlib as pl
    from urllib.parse import urljoin
    out = []
    for _ in range(n):
        k = rng.choice([1, 2, 2, 2, 3])
        segs = [rng.choice(SEGS) for _ in range(k)]
        rel = "/".join(segs)
        if rng.random() < 0.15:
            rel = "/" + rel
        if rng.random() < 0.1:
            rel = rel.replace("/", "//", 1) if not rel.startswith("/") else rel
        if rng.random() < 0.1:
            rel += "/"
        if rng.random() < 0.5:
            base = rng.choice(["/tmp/a/doc", "/srv/docs", "/x"])
            if rel.startswith("//"):
                continue
            impl = str(pl.Path(base) / rel)
            term = f"(CJoin (BLocal {cs(base)}) {cs(rel)} {cs(impl)})"
        else:
            base = rng.choice(REMOTE_BASES)
            base = base if base.endswith("/") else base + "/"
            # scope of url_join: no dot segments, no "//", no scheme-like first segment
            if any(sg in (".", "..") for sg in rel.split("/")) or "//" in rel or rel == "":
                continue
            impl = urljoin(base, rel)
            term = f"(CJoin (BRemote {cs(base)}) {cs(rel)} {cs(impl)})"
        out.append((term, {"what": "join", "base": base, "rel": rel, "impl": impl}))
    return out


def classify(chk, code, payload, key):
    """common verdict handling: returns True when the case is fine"""
    if code & 1 and not code & 2:
        chk.disagreements += 1
        chk.violation("broken-correspondence", dict(payload, code=code,
                      meaning="bit0 model!=impl, bit1 impl violates the Spec, bits>=2 region"), False)
        return False
    if code & 2:
        region = code >> 2
        chk.disagreements += 1
        if region and chk.known(REGIONS.get(region, "?"), True):
            if code & 1:
                chk.violation("broken-correspondence", dict(payload, code=code), False)
                return False
            return True
        chk.violation("failing-input", dict(payload, code=code, region=region), True)
        return False
    return True


def run(chk):
    if not chk.build(["theories/Corr/C16.vo"] + (["theories/Props/C16.vo"] if THEOREMS else [])):
        return
    if THEOREMS:
        chk.props("theories/Props/C16.v", THEOREMS)
    rng = chk.rng
    quick = chk.tier == "quick"
    cases, meta = [], []
    built = []
    for k in range(12 if quick else 120):
        b = BuiltA(rng)
        built.append(b)
        chk.count(("A", json.dumps(b.A, sort_keys=True)), sample={"A": b.files, "display": b.A["display"]})
        if b.err or b.modules_json is None:
            chk.violation("failing-input", {"what": "FORD failed on a valid generated project A", "error": b.err,
                                            "log": b.log[-1500:], "files": b.files}, True)
            continue
        cases.append(export_case(b))
        meta.append({"what": "export", "files": b.files, "display": b.A["display"]})
        rc, outcome = round_case(b, None if rng.random() < 0.5 else rng.choice(REMOTE_BASES))
        cases.append(rc)
        meta.append({"what": "round", "files": b.files, "outcome": outcome})
    descriptions = [b.modules_json for b in built if b.modules_json is not None]
    for k in range(150 if quick else 3000):
        lc = load_case(rng, descriptions)
        if lc is None:
            continue
        cases.append(lc[0])
        meta.append(lc[1])
        chk.count(("load", lc[0]), nontrivial=True, sample=None)
    for term, m in join_cases(rng, 150 if quick else 3000):
        cases.append(term)
        meta.append(m)
        chk.count(("join", m["base"], m["rel"]), nontrivial=True)
    res = chk.coq_judge(IMPORTS, "case", "judge", cases, shard=12)
    if res is not None:
        chk.traces += len(cases)
        for idx, code in sorted(res.items()):
            classify(chk, code, meta[idx], None)
    for b in built:
        b.close()


def replay(chk, rep):
    print(json.dumps({k: v for k, v in rep.items() if k != "files"}, indent=1)[:3000])
    return 0


def finish(chk):
    return chk.finish(
        level_note="Coq proof over the model of obj2dict/dict2obj/load_external_modules/find; tied to ford by "
                   "differential runs",
        trusted_base=["Coq 8.16.1 kernel (vm_compute)", "harness/props/c16.py, harness/gen/c16gen.py, "
                      "harness/impl/c16impl.py", "hand-written model Out/External.v"],
        rule="pairs of generated projects",
        checker_cmd="make theories/Props/C16.vo && coqc theories/Props/C16.v (Print Assumptions)",
        assumptions=[])
