"""C09 — every internal link in the output resolves, and the output is relocatable."""
import importlib.util
import itertools
import json
import os
import pathlib
import random
import re
from concurrent.futures import ProcessPoolExecutor

from harness import core
from harness.core import coq_str, coq_list, coq_bool, coq_opt
from harness.gen import c09proj as P
from harness.gen import program as G
from harness.impl import fordrun as F
from harness.impl import c09run as R

IMPORTS = "From Ford Require Import Base.Str Base.Path Out.Names Out.Urls Gen.NavConds Out.Nav Corr.C09."
THEOREMS = ["C09_relpath_resolves_any", "C09_relpath_resolves", "C09_site_resolves", "C09_url_depth1",
            "C09_url_unanchored_kind", "C09_url_none_inherited",
            "C09_sibling_trick", "C09_sibling_trick_only_depth1", "C09_nav_pages", "C09_relative"]
ROOT = R.FAKE_ROOT + "/out"
COMPS = ["a", "b", "doc", "proc", "m.html", "..", ".", "", "lists"]
URLS = ["module/m.html", "proc/p.html", "proc/p.html#variable-x", "type/t.html#boundprocedure-b%28x%29",
        "sourcefile/f.f90.html", "interface/operator%28lt%29.html", "program/main.html#proc-inner",
        "namelist/nl.html", "blockdata/bd.html#common-blk"]


def load_translator():
    spec = importlib.util.spec_from_file_location("t4_navconds", core.VERIF / "translate" / "t4_navconds.py")
    mod = importlib.util.module_from_spec(spec)
    spec.loader.exec_module(mod)
    return mod


# ----------------------------------------------------------------------------- unit cases

def rand_abs(rng, maxlen=5):
    return "/" + "/".join(rng.choice(COMPS) for _ in range(rng.choice(range(maxlen + 1))))


def clean_rel(rng, maxdepth=4):
    return [rng.choice(["page", "sub", "deep", "proc", "lists", "x"]) for _ in range(rng.choice(range(maxdepth + 1)))]


def unit_cases(chk, rng, n):
    cases = []      # (coq term, description dict)

    def add(term, desc, nontrivial=True):
        if str(desc.get("impl", "")).startswith("HARNESS:"):
            # the adapter (stub objects / harness code) failed, not FORD: a harness error, never a failing input
            chk.obligation("adapter:" + desc["f"], False, json.dumps(desc)[:600])
            return
        cases.append((term, desc))
        chk.count(json.dumps(desc, sort_keys=True), nontrivial=nontrivial, sample=desc)

    # os.path.relpath: bounded-exhaustive small layer + random messy paths
    small = ["/" + "/".join(c) for k in range(0, 3) for c in itertools.product(["a", "b", ".."], repeat=k)]
    if chk.tier != "quick":
        small = ["/" + "/".join(c) for k in range(0, 4) for c in itertools.product(["a", "b", ".."], repeat=k)]
    pairs = [(t, st) for t in small for st in small]
    chk.extra["relpath_exhaustive_pairs"] = len(pairs)
    pairs += [(rand_abs(rng), rand_abs(rng)) for _ in range(n)]
    for t, st in pairs:
        out = R.impl_relpath(t, st)
        add(f"CRelpath {coq_str(t)} {coq_str(st)} {coq_str(out)}", {"f": "relpath", "target": t, "start": st, "impl": out},
            nontrivial=t != st)
    # BasePage.project_url at every depth
    for _ in range(n // 4):
        rel = clean_rel(rng) + ["x.html"]
        outdir = ROOT if rng.random() < 0.7 else R.FAKE_ROOT + "/" + "/".join(clean_rel(rng, 2) + ["o"])
        page = outdir + "/" + "/".join(rel)
        out = R.impl_project_url(outdir, page)
        add(f"CProjectUrl {coq_str(outdir)} {coq_str(page)} {coq_str(out)}",
            {"f": "project_url", "outdir": outdir, "page": page, "impl": out})
    # relative_url (the relurl filter)
    for _ in range(n // 2):
        page = ROOT + "/" + "/".join(clean_rel(rng) + ["p.html"])
        r = rng.random()
        if r < 0.55:
            href = ROOT + "/" + rng.choice(URLS)
            pre, post, has = "<a href='", f"'>{rng.choice(['name', 'a/b', 'x'])}</a>", True
        elif r < 0.62:     # a first link that is no path at all: left as written
            href = rng.choice(["#variable-side", "#text", "mailto:someone@example.org", "notes.html"])
            pre, post, has = "<p>see <a href='", "'>side</a> zq/w</p>", True
        elif r < 0.7:
            href = rng.choice(["http://example.org/x/y.html", "https://e.org/doc/proc/p.html"])
            pre, post, has = "<a href='", "'>ext</a>", True
        elif r < 0.85:
            href = ROOT + "/" + rng.choice(["page/index.html", "page/sub/x.html", "media/pic.png", "index.html"])
            pre, post, has = "", "", False
        else:
            href, pre, post, has = rng.choice(["integer", "real(8)", "", "type(t)"]), "", "", False
        dead = False
        if has and rng.random() < 0.3:
            pre = "type(" + pre
            post = post + ")"
        if has and rng.random() < 0.25:        # an unresolved [[ref]] (an <a> without href) before the real link
            pre = "<p>see <a>nosuch</a> and " + pre
            post = post + "</p>"
        if not has and not dead and rng.random() < 0.25:   # plain text with a slash: returned unchanged
            pre, href, post = "", rng.choice(["<p>zq4w</p>", "integer(kind=8/2)", "a/b", "len(\"</td>\")", "../x"]), ""
        if not has and rng.random() < 0.2:     # only target-less links: returned unchanged
            pre, href, post, dead = "", rng.choice(["<p>see <a>nosuch</a> here</p>", "<a>x</a>/<a>y</a>",
                                                   "<a>nosuch</a>"]), "", True
        out = R.impl_relurl(pre + href + post, page)
        if not core.is_ascii(out):
            continue
        add(f"CRelurl {coq_str(pre)} {coq_str(href)} {coq_str(post)} {coq_bool(has)} {coq_bool(dead)} "
            f"{coq_str(page)} {coq_str(out)}",
            {"f": "relative_url", "text": pre + href + post, "page": page, "impl": out})
    # docstring links: the sibling-directory trick, static pages, markdown links
    for _ in range(n // 3):
        tgt = rng.choice(URLS)
        tpath, _, tfrag = tgt.partition("#")
        frag = coq_opt(tfrag or None, coq_str)
        r = rng.random()
        if r < 0.45:
            ctx = rng.choice(URLS)
            via = rng.random() < 0.3        # context without URL: the nearest parent with a URL counts
            out = R.impl_doc_link(ROOT, ctx, tgt, via_parent=via)
            add(f"CDocLink {coq_str(ROOT)} {coq_str(ctx.partition('#')[0])} {coq_str(tpath)} {frag} {coq_str(out)}",
                {"f": "doc_link", "ctx": ctx, "via_parent": via, "target": tgt, "impl": out})
        elif r < 0.8:
            cur = ROOT + "".join("/" + c for c in (["page"] + clean_rel(rng, 3) if rng.random() < 0.8 else []))
            out = R.impl_doc_link(ROOT, None, tgt, current=cur)
            add(f"CPageLink {coq_str(ROOT)} {coq_str(cur)} {coq_str(tpath)} {frag} {coq_str(out)}",
                {"f": "page_link", "current": cur, "target": tgt, "impl": out})
        else:
            cur = ROOT + "".join("/" + c for c in ["page"] + clean_rel(rng, 3))
            target = rng.choice([ROOT + "/page/sub/x.html", ROOT + "/media/pic.png", ROOT + "/index.html", ROOT,
                                 R.FAKE_ROOT + "/elsewhere/x.html", "/other/y.html", ROOT + "/page/../proc/p.html"])
            out = R.impl_doc_link(ROOT, None, "unused/u.html", current=cur, markdown_link=target)
            add(f"CMdLink {coq_str(ROOT)} {coq_str(cur)} {coq_str(target)} {coq_str(out)}",
                {"f": "md_link", "current": cur, "target": target, "impl": out})
    return cases


def ent_term(ch):
    kind, obj, ident, named, ifp, par = ch
    p = "None" if par is None else f"(Some {ent_term(par)})"
    return f"(Ent {kind} {coq_str(obj)} {coq_str(ident)} {coq_bool(named)} {coq_bool(ifp)} {p})"


def url_cases(chk, rng, nproj):
    cases = []
    for k in range(nproj):
        if k % 2 == 0:
            spec = P.gen_spec(rng, force_shape=rng.choice([sh for sh in P.SHAPES if sh[0].startswith("full")]))
            files = {f: t for f, t in P.Renderer(spec, random.Random(rng.random())).render().items()
                     if f.startswith("src/")}
        else:
            files = G.render_project(G.gen_project(rng, {"p_internal": 0.6, "p_generic": 0.6, "p_operator": 0.5,
                                                         "unnamed_programs": True}))
        got = R.impl_urls_of_project(files)
        for ch, u in got:
            if ch == "ERROR":
                chk.notes.append("url_of project failed to parse: " + str(u))
                continue
            if not all(core.is_ascii(x) for x in (ch[1], ch[2], u or "")):
                continue
            desc = {"f": "get_url", "kind": ch[0], "ident": ch[2], "parent": ch[5][0] if ch[5] else None, "impl": u}
            cases.append((f"CUrlOf {ent_term(ch)} {coq_opt(u, coq_str)}", desc))
            chk.count(("url", ch[0], ch[5][0] if ch[5] else None, u is None, "#" in (u or "")),
                      nontrivial=True, sample=desc)
    return cases


# ----------------------------------------------------------------------------- known findings (HTML level)

def classify(p, spec):
    """known-finding key for one walker problem, keyed by (page class / template, href pattern,
    option combination); None = not a known finding.  All recorded C09 findings are repaired: every
    walker problem is a violation."""
    return None


FIXED_WITNESSES = {
    # repaired defects (known_findings.d/C09.json "fixed"): they suppress nothing; if the witness fails again it
    # is a violation like any other
    "index-files-link": (
        {"src/m.f90": "module m\n  !! doc\nend module m\n"}, {},
        lambda probs, err: any(p["page"] == "index.html" and p["url"].endswith("lists/files.html") for p in probs)),
    "bound-binding-absolute": (
        {"src/m.f90": "module m\n  type :: t\n  contains\n    procedure, nopass :: b => p\n  end type t\ncontains\n"
                      "  subroutine p()\n  end subroutine p\nend module m\n"}, {},
        lambda probs, err: any(p["problem"] == "absolute" for p in probs)),
    "relurl-keyerror-href": (
        {"src/m.f90": "module m\n  type :: t\n  contains\n    procedure, nopass :: b => p\n      !! see [[nosuch]] here\n"
                      "  end type t\ncontains\n  subroutine p()\n  end subroutine p\nend module m\n"}, {},
        lambda probs, err: bool(err)),
    # repaired later (regression inputs)
    "genint-sidebar-fragment": (
        {"src/m.f90": "module m\n  interface g\n    module procedure p, q\n  end interface g\ncontains\n"
                      "  subroutine p(a)\n    integer :: a\n  end subroutine p\n"
                      "  subroutine q(a)\n    real :: a\n  end subroutine q\nend module m\n"}, {},
        lambda probs, err: any(p["problem"] == "missing-fragment" and "#moduleprocedure-" in p["url"] for p in probs)),
    "file-ref-without-incl-src": (
        {"src/m.f90": "module m\n  !! see [[m.f90]] here\nend module m\n"}, {"incl_src": "false"},
        lambda probs, err: any(p["problem"] == "missing-target" and "sourcefile/" in p["url"] for p in probs)),
    "doc-link-relative-to-cwd": (
        {"src/m.f90": "module m\nend module m\n",
         "src/s.f90": "subroutine s()\n  type :: inner_t\n    !! see [[m]] here\n    integer :: z\n  end type inner_t\n"
                      "end subroutine s\n"}, {"proc_internals": "true"},
        lambda probs, err: any(p["url"].startswith("doc/") for p in probs)),
    "hidden-parent-type-binding": (
        {"src/m.f90": "module m\n  type, private :: a_t\n  contains\n    procedure, nopass :: b => p\n  end type a_t\n"
                      "  type, public, extends(a_t) :: b_t\n  end type b_t\ncontains\n"
                      "  subroutine p()\n  end subroutine p\nend module m\n"}, {"display": ["public"]},
        lambda probs, err: any(p["problem"] == "missing-target" and "#boundprocedure-" in p["url"] for p in probs)),
    # reported by the seeding agents, repaired (regression inputs)
    "link-to-hidden-entity": (
        {"src/m.f90": "module m\n  private :: shape_scale\n  type :: shape_t\n    !! See [[scale:shape_scale]] here\n"
                      "    integer :: n = 0\n  contains\n    procedure, nopass :: scale => shape_scale\n  end type shape_t\n"
                      "contains\n  subroutine shape_scale(a)\n    integer, intent(in) :: a\n  end subroutine shape_scale\n"
                      "end module m\n"}, {},
        lambda probs, err: any(p["problem"] == "missing-target" and "proc/shape_scale.html" in p["url"] for p in probs)),
    "summary-readmore-none": (
        {"src/m.f90": "module m\ncontains\n  subroutine outer(a)\n    !! proc_internals: true\n    !! outer doc\n"
                      "    integer, intent(in) :: a\n    type :: local_t\n      !! summary: short summary\n"
                      "      !! Long description.\n      integer :: z\n    end type local_t\n  end subroutine outer\n"
                      "end module m\n"}, {},
        lambda probs, err: any(p["url"].endswith("../None") or p["url"] == "../None" for p in probs)),
    "constructor-link-absolute": (
        {"src/m.f90": "module m\n  type :: shape_t\n    integer :: n = 0\n  end type shape_t\n  interface shape_t\n"
                      "    module procedure make_shape\n  end interface\ncontains\n  function make_shape(n) result(s)\n"
                      "    integer, intent(in) :: n\n    type(shape_t) :: s\n    s%n = n\n  end function make_shape\n"
                      "end module m\n"}, {},
        lambda probs, err: any(p["problem"] == "absolute" for p in probs)),
}


WITNESSES = {}      # open findings: none


def run_files(files, options):
    """one fixed project through FORD + walker (in this process)"""
    from harness.impl import c09walk as W
    with F.Work(files) as w:
        opts = {"search": "true"}
        opts.update(options)
        data, out, err = F.full_run_inprocess(w.root, opts)
        if err:
            return [], err + " " + out[-300:]
        probs, stats = W.walk(w.root / "doc", search=True)
        for p in probs:
            p["url"] = p["url"].replace(str(w.root.resolve()), "<ROOT>").replace(str(w.root), "<ROOT>")
        return probs, None


# ----------------------------------------------------------------------------- end to end

def make_jobs(rng, n, navinfo):
    corpus = core.VERIF / "corpus" / "C09" / "jobs.json"
    saved = json.load(open(corpus))["jobs"] if corpus.exists() else []
    return [{"spec": j["spec"], "rseed": j["rseed"], "nav": navinfo} for j in saved] + _make_jobs(rng, n, navinfo)


def _make_jobs(rng, n, navinfo):
    jobs = []
    # systematic layer: every project shape with sources shown and hidden
    for sh in P.SHAPES:
        for incl in ("true", "false"):
            jobs.append(P.gen_spec(rng, force_shape=sh, force_options={"incl_src": incl}))
    # graphs drawn as HTML tables: hub-shaped projects with a small graph_maxnodes (and hidden neighbours)
    for sh in [s for s in P.SHAPES if s[0].startswith("hub")]:
        for maxnodes, maxdepth in (("4", "10000"), ("2", "1"), ("4", "2")):
            jobs.append(P.gen_spec(rng, force_shape=sh, force_options={"graph_maxnodes": maxnodes,
                                                                       "graph_maxdepth": maxdepth, "graph": "true"}))
    # derived types declared inside procedures (with bindings): shown with proc_internals, project-wide or by
    # the procedure's own metadata
    for sh in [s for s in P.SHAPES if s[0] in ("full", "one-module", "module+program")]:
        for pi in ("true", "false"):
            jobs.append(P.gen_spec(rng, force_shape=sh, force_options={"proc_internals": pi,
                                                                       "display": ["public", "private", "protected"]}))
    while len(jobs) < n:
        jobs.append(P.gen_spec(rng))
    out = []
    for k, sp in enumerate(jobs[:max(n, len(P.SHAPES) * 2)]):
        # a share of the runs reaches the output directory / the project directory / the sources through a
        # symbolic link, and a third of the sites is moved elsewhere (original deleted) and walked again
        layout = "out-symlink" if k % 5 == 1 else "proj-symlink" if k % 7 == 2 else "src-symlink" if k % 11 == 3 else "plain"
        out.append({"spec": sp, "rseed": rng.randrange(1 << 30), "nav": navinfo, "layout": layout,
                    "relocate": k % 3 == 0})
    return out


def counts_term(fields, vals):
    args = [str(vals["n_" + c]) for c in fields["counts"]] + [coq_bool(vals["f_" + f]) for f in fields["flags"]] + \
           [str(vals["v_" + n]) for n in fields["nums"]]
    return "(mk_counts " + " ".join(args) + ")"


def bools(l):
    return coq_list(coq_bool(b) for b in l)


def end_to_end(chk, rng, n, x):
    navinfo = fields = None
    if x is not None:
        fields = {"counts": x["counts"], "flags": x["flags"], "nums": x["nums"]}
        navinfo = {"fields": fields, "links": [list(l) for l in x["links"]],
                   "list_pages": [list(p) for p in x["list_pages"]]}
    jobs = make_jobs(rng, n, navinfo)
    with ProcessPoolExecutor(max_workers=core.NCPU - 2) as ex:
        try:
            results = list(ex.map(R.run_spec, jobs, chunksize=2, timeout=1500))
        except Exception as e:  # noqa
            chk.obligation("end-to-end-runs", False, f"{type(e).__name__}: {e}")
            return
    nav_cases, nav_meta = [], []
    tot = {"pages": 0, "links": 0, "internal": 0, "fragments": 0, "svg": 0, "graph_table": 0, "search_urls": 0,
           "external": 0, "relocated": 0, "relocated_links": 0}
    layouts = {}
    known_hits, shapes, optcombos, errors = {}, set(), set(), 0
    for job, res in zip(jobs, results):
        spec = job["spec"]
        o = spec["options"]
        shapes.add(spec["name"])
        layouts[job.get("layout", "plain")] = layouts.get(job.get("layout", "plain"), 0) + 1
        combo = (o["incl_src"], o["search"], o["graph"], o["proc_internals"], tuple(o["display"]), o["sort"],
                 bool(spec["pages"]), o.get("graph_maxnodes"), o.get("graph_maxdepth"))
        optcombos.add(combo)
        chk.count(("e2e", spec["name"], combo, job["rseed"]), nontrivial=True,
                  sample={"shape": spec["name"], "options": o, "pages": spec["pages"],
                          "links_checked": res["stats"].get("internal"), "problems": len(res["problems"])})
        if res["error"]:
            errors += 1
            if True:
                chk.violation("failing-input", {"what": "FORD failed on a valid generated project",
                                                "error": res["error"], "log": res["log"], "job": _job_json(job)}, True)
            continue
        for k in tot:
            tot[k] += res["stats"].get(k, 0)
        for p in res["problems"]:
            key = classify(p, spec)
            if key is not None and chk.known(key, True):
                known_hits[key] = known_hits.get(key, 0) + 1
                chk.disagreements += 1
            else:
                chk.violation("failing-input",
                              {"what": "a generated URL does not resolve / is not relative", "problem": p,
                               "finding_key": (p["page_class"], p["pattern"], p["problem"]), "job": _job_json(job)}, True)
        if res["nav"]:
            nv = res["nav"]
            nav_cases.append(f"CNav {counts_term(fields, nv['vals'])} {bools(nv['emitted'])} {bools(nv['pages'])} "
                             f"{bools(nv['exist'])}")
            nav_meta.append((job, nv))
    chk.extra["walker"] = dict(tot, projects=len(jobs), failed_runs=errors, shapes=len(shapes),
                               option_combinations=len(optcombos), known_finding_hits=known_hits, layouts=layouts)
    res = chk.coq_judge(IMPORTS, "case", "judge", nav_cases)
    if res is not None:
        chk.traces += len(nav_cases)
        for idx, code in sorted(res.items()):
            job, nv = nav_meta[idx]
            region = code >> 2
            if code & 1:
                chk.violation("failing-input" if (code & 2 and not region) else "broken-correspondence",
                              {"what": "navigation links emitted / list pages written differ from Gen/NavConds.v",
                               "nav": nv, "code": code, "job": _job_json(job)}, bool(code & 2 and not region))
            elif code & 2:
                if True:
                    chk.violation("failing-input", {"what": "an emitted navigation link has no target page",
                                                    "nav": nv, "code": code, "job": _job_json(job)}, True)


def _job_json(job):
    return {"spec": job["spec"], "rseed": job["rseed"], "layout": job.get("layout", "plain"),
            "relocate": job.get("relocate", False)}


# ----------------------------------------------------------------------------- protocol

def judge_cases(chk, cases, what):
    res = chk.coq_judge(IMPORTS, "case", "judge", [t for t, _ in cases], shard=250)
    if res is None:
        return
    chk.traces += len(cases)
    items = sorted(res.items(), key=lambda kv: (not kv[1] & 2, kv[0]))     # failing inputs first
    for idx, code in items[:3]:
        payload = {"what": what, "case": cases[idx][1], "coq_case": cases[idx][0], "code": code,
                   "meaning": "bit0 model!=impl, bit1 impl output violates the property"}
        if code & 2:
            chk.violation("failing-input", payload, True)
        else:       # model != impl only: reported after the end-to-end search had its chance to find an input
            chk._c09_deferred = getattr(chk, "_c09_deferred", []) + [payload]


def run(chk):
    chk.translate(["t4_navconds.py"])
    chk.build(["theories/Corr/C09.vo", "theories/Props/C09.vo"])
    chk.props("theories/Props/C09.v", THEOREMS)
    rng = chk.rng
    quick = chk.tier == "quick"
    try:
        x = load_translator().extract()
        chk.extra["navconds"] = {"fields": len(x["counts"]) + len(x["flags"]) + len(x["nums"]),
                                 "list_pages": len(x["list_pages"]), "nav_links": len(x["links"])}
    except Exception as e:  # noqa  (already a broken obligation through chk.translate): search goes on without NavConds
        chk.obligation("translator-extract", False, f"{type(e).__name__}: {e}")
        x = None
    cases = unit_cases(chk, rng, 300 if quick else 4000)
    cases += url_cases(chk, rng, 6 if quick else 40)
    byf = {}
    for _, d in cases:
        byf[d["f"]] = byf.get(d["f"], 0) + 1
    chk.extra["cases_by_function"] = byf
    judge_cases(chk, cases, "URL function (relpath / project_url / relative_url / get_url / docstring link)")
    end_to_end(chk, rng, 170 if quick else 1600, x)
    if not quick:
        chk.coqchk(["Ford.Props.C09"])
    for payload in getattr(chk, "_c09_deferred", []):
        chk.violation("broken-correspondence", payload, False)
    # recorded findings: replay each witness on the implementation
    chk.extra["fixed_witness_replay"] = {}
    for key, (files, options, pred) in FIXED_WITNESSES.items():
        probs, err = run_files(files, options)
        back = bool(pred(probs, err))
        chk.extra["fixed_witness_replay"][key] = "FAILS AGAIN" if back else "stays fixed"
        chk.count(("fixed-witness", key), nontrivial=True)
        if back:
            chk.violation("failing-input", {"what": f"repaired defect {key} is back", "files": files,
                                            "options": options, "problems": probs[:5], "error": err}, True)
    chk.extra["witness_replay"] = {}
    for key, (files, options, pred) in WITNESSES.items():       # open findings (none at present)
        probs, err = run_files(files, options)
        still = bool(pred(probs, err))
        chk.extra["witness_replay"][key] = "still fails" if still else "no longer fails"
        if not chk.known(key, still):
            chk.notes.append(f"witness {key} has no open entry in known_findings.d/C09.json")


def replay(chk, rep):
    chk.build(["theories/Corr/C09.vo"])
    if "coq_case" in rep:
        res = chk.coq_judge(IMPORTS, "case", "judge", [rep["coq_case"]])
        print("recorded implementation output judged again:", res)
        c = rep.get("case", {})
        if c.get("f") == "relpath":
            print("impl now:", R.impl_relpath(c["target"], c["start"]))
        return 1 if res else 0
    if "job" in rep:
        x = load_translator().extract()
        job = dict(rep["job"])
        job["nav"] = {"fields": {"counts": x["counts"], "flags": x["flags"], "nums": x["nums"]},
                      "links": [list(l) for l in x["links"]], "list_pages": [list(p) for p in x["list_pages"]]}
        res = R.run_spec(job)
        print("error:", res["error"])
        bad = [p for p in res["problems"] if classify(p, job["spec"]) is None]
        for p in bad:
            print("unresolved:", p)
        print("nav:", res["nav"])
        return 1 if (bad or res["error"]) else 0
    print(json.dumps(rep, indent=1)[:2000])
    return 1


def finish(chk):
    return chk.finish(
        level_note="Coq proofs over all absolute paths / page depths (relpath, per-page project_url, relurl, the "
                   "sibling-directory trick, graph and search URLs) and over all collection sizes for the navigation "
                   "conditions regenerated from the source; models tied to FORD by differential evaluation; link walker "
                   "over generated projects x option combinations",
        trusted_base=["Coq 8.16.1 kernel (vm_compute for case evaluation and witnesses)",
                      "translate/t4_navconds.py (Python ast + Jinja-condition reader)",
                      "harness/props/c09.py, harness/impl/c09run.py, harness/impl/c09walk.py (HTML link walker), "
                      "harness/gen/c09proj.py", "hand-written models Base/Path.v, Out/Urls.v, Out/Nav.v",
                      "POSIX paths, 7-bit names; identifiers without '/' and '#'"],
        rule="distinct = distinct (function, input) case for the URL functions, distinct (kind, parent kind, url shape) "
             "for get_url, distinct (shape, option combination, seed) for whole runs",
        checker_cmd="make theories/Props/C09.vo && coqc theories/Props/C09.v (Print Assumptions)",
        assumptions=["os.path / pathlib normalisation modelled for absolute POSIX paths without symlinks",
                     "python-markdown, Jinja2, BeautifulSoup and graphviz are not modelled: their effect is covered by "
                     "the link walker on real runs", "max_frontpage_items is a non-negative integer"])
