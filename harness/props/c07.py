"""C07 — cross-references resolve to the entity Fortran scoping designates."""
import json
import time

from harness import core
from harness.gen import c07gen as G
from harness.impl import c07impl as I

IMPORTS = "From Ford Require Import Base.Str Sem.Scope Corr.C07."
THEOREMS = ["C07_full", "C07_fixed_abs_over_proc", "C07_fixed_sub_shadow", "C07_fixed_proc_shadow",
            "C07_fixed_sibling_leak", "C07_unresolved_stays_text", "C07_example_hypotheses",
            "C07_example_submodules", "C07_example_hiding"]


def coq_slot(d):
    k = d[0]
    if k in ("SVar", "SExtends", "SCtor"):
        return f"({k} {G.cs(d[1])})"
    if k in ("SComp", "SBindProto"):
        return f"({k} {G.cs(d[1])} {G.cs(d[2])})"
    if k == "SBindTarget":
        return f"({k} {G.cs(d[1])} {G.cs(d[2])} {d[3]})"
    if k in ("SFinal", "SModproc"):
        return f"({k} {G.cs(d[1])} {d[2]})"
    raise ValueError(d)


def coq_obs(obs):
    return G.clist("O %s %s %s" % (G.cpath(p), coq_slot(d), "None" if e is None else f"(Some {G.cpath(e)})")
                   for p, d, e in obs)


def coq_case(prog, u, obs):
    evs = G.coq_submodule(prog, u) if u["kind"] == "submodule" else G.coq_unit(prog["units"], u)
    return "(%s,\n  %s)" % (evs, coq_obs(obs))


# ----------------------------------------------------------------------------- fixed programs
def sc(name, kind, **kw):
    s = G.new_scope(name, kind)
    s.update(kw)
    return s


def var(name, what=None, ident=None, pointer=True):
    return {"name": name, "ref": {"what": what, "id": ident} if what else None, "pointer": pointer}


def ty(name, extends=None, comps=(), binds=(), finals=()):
    return {"name": name, "extends": extends, "comps": list(comps), "binds": list(binds), "finals": list(finals)}


def witness_proc_shadow():
    """module m: subroutine helper; subroutine a with its own internal helper and procedure(helper) :: p"""
    a = sc("a", "subroutine", vars=[var("p", "proc", "helper")], procs=[sc("helper", "subroutine")])
    return {"units": [sc("m", "module", procs=[sc("helper", "subroutine"), a])], "submodules": []}


def witness_abs_over_proc():
    """module m: subroutine x; subroutine a declares an abstract interface x and procedure(x), pointer :: p"""
    a = sc("a", "subroutine", vars=[var("p", "proc", "x")], absints=[sc("x", "absbody")])
    return {"units": [sc("m", "module", procs=[sc("x", "subroutine"), a])], "submodules": []}


def witness_sub_shadow():
    """module m: type t; submodule (m) s1: its own type t and type(t) :: v"""
    m = sc("m", "module", types=[ty("t")])
    s1 = sc("s1", "submodule", types=[ty("t")], vars=[var("v", "type", "t")])
    s1.update({"ancestor": "m", "parent": None})
    return {"units": [m], "submodules": [s1]}


def witness_sub_chain():
    """lib: type u.  module m: types t, u.  submodule (m) s1: use lib, only: u.  submodule (m:s1) s2 refers
    to t (m's), u (lib's, through s1's USE) and to s1's procedure"""
    lib = sc("lib", "module", types=[ty("u")])
    m = sc("m", "module", types=[ty("t"), ty("u")], procs=[sc("helper", "subroutine")])
    s1 = sc("s1", "submodule", uses=[{"target": "lib", "only": [["u", "u"]]}], procs=[sc("local1", "subroutine")],
            vars=[var("v1", "type", "t"), var("v2", "type", "u")])
    s1.update({"ancestor": "m", "parent": None})
    s2 = sc("s2", "submodule", vars=[var("x1", "type", "t"), var("x2", "type", "u"), var("x3", "proc", "helper"),
                                     var("x4", "proc", "local1"), var("x5", "type", "nosuch_t")])
    s2.update({"ancestor": "M", "parent": "S1"})
    return {"units": [lib, m], "submodules": [s1, s2]}


def witness_sibling_leak():
    """module m: subroutine a declares type t; sibling b and the module itself declare type(t) variables"""
    a = sc("a", "subroutine", types=[ty("t")], vars=[var("x", "type", "t")])
    b = sc("b", "subroutine", vars=[var("y", "type", "t")])
    return {"units": [sc("m", "module", vars=[var("z", "type", "t")], procs=[a, b])], "submodules": []}


def witness_local_overrides_host():
    """module m has type t; subroutine a declares its own t: afterwards the module's and sibling b's
    type(t) denote a's t"""
    a = sc("a", "subroutine", types=[ty("t")], vars=[var("x", "type", "t")])
    b = sc("b", "subroutine", vars=[var("y", "type", "t")])
    return {"units": [sc("m", "module", types=[ty("t")], vars=[var("z", "type", "t")], procs=[a, b])], "submodules": []}


def abs_hides_binding_target():
    """module m: subroutines x, z.  submodule (m) s1: abstract interface x; a type with bindings => x (x is not
    a procedure in s1: the target stays text) and => z; procedure(x), procedure(z) variables"""
    m = sc("m", "module", procs=[sc("x", "subroutine"), sc("z", "subroutine")])
    s1 = sc("s1", "submodule", absints=[sc("x", "absbody")],
            types=[ty("t", binds=[{"name": "b", "deferred": False, "proto": None, "targets": ["x"]},
                                  {"name": "c", "deferred": False, "proto": None, "targets": ["z"]}])],
            vars=[var("p", "proc", "x"), var("r", "proc", "z")])
    s1.update({"ancestor": "m", "parent": None})
    return {"units": [m], "submodules": [s1]}


def imported_abs_hides_host_proc():
    """module lib: abstract interfaces x, w.  module m: subroutines x, y; subroutine a: use lib, only: x;
    procedure(x) (lib's abstract interface), procedure(y) (m's), procedure(w) (not imported) -- and an internal
    procedure of a sees the same"""
    lib = sc("lib", "module", absints=[sc("x", "absbody"), sc("w", "absbody")])
    inner = sc("inner", "subroutine", vars=[var("p2", "proc", "x"), var("q2", "proc", "y")])
    a = sc("a", "subroutine", uses=[{"target": "lib", "only": [["x", "x"]]}], procs=[inner],
           vars=[var("p", "proc", "x"), var("q", "proc", "y"), var("r", "proc", "w")])
    m = sc("m", "module", procs=[sc("x", "subroutine"), sc("y", "subroutine"), a], vars=[var("pm", "proc", "x")])
    return {"units": [lib, m], "submodules": []}


def special_named_modules(lib="mpi", other="extlib"):
    """project modules named like an intrinsic module (settings.INTRINSIC_MODS) / an `extra_mods` entry:
    module <lib>: type t, subroutine helper, abstract interface cb.  module <other>: use <lib> (re-export),
    type u.  module m has its own t, helper, cb; its subroutine a uses <lib> (its names hide the module's),
    subroutine b uses <other> with ONLY and a rename, the internal procedure c of b uses
    `use, non_intrinsic :: <lib>, tl => t`; the program uses <other>.  Every USE must bind to the project's
    module: the references are to <lib>'s entities, not to m's and not plain text"""
    L = sc(lib, "module", types=[ty("t")], procs=[sc("helper", "subroutine")], absints=[sc("cb", "absbody")])
    O = sc(other, "module", uses=[{"target": lib, "only": None, "renames": [], "prefix": ""}], types=[ty("u")])
    a = sc("a", "subroutine", uses=[{"target": lib.upper(), "only": None, "renames": [], "prefix": "::"}],
           vars=[var("a1", "type", "t"), var("a2", "proc", "helper"), var("a3", "proc", "cb")])
    c = sc("c", "subroutine", uses=[{"target": lib, "only": None, "renames": [["tl", "t"]], "prefix": "non_intrinsic"}],
           vars=[var("c1", "type", "tl"), var("c2", "type", "t"), var("c3", "proc", "helper")])
    b = sc("b", "subroutine", uses=[{"target": other, "only": [["t", "t"], ["hl", "helper"], ["u", "u"]], "renames": [],
                                     "prefix": "non_intrinsic"}],
           vars=[var("b1", "type", "t"), var("b2", "proc", "hl"), var("b3", "type", "u"), var("b4", "proc", "helper")],
           procs=[c])
    m = sc("m", "module", types=[ty("t")], procs=[sc("helper", "subroutine"), a, b], absints=[sc("cb", "absbody")],
           vars=[var("m1", "type", "t")])
    main = sc("main", "program", uses=[{"target": other, "only": None, "renames": [], "prefix": ""},
                                       {"target": "iso_c_binding", "only": None, "renames": [], "prefix": "intrinsic"}],
              vars=[var("p1", "type", "t"), var("p2", "type", "u"), var("p3", "proc", "helper"), var("p4", "proc", "cb")])
    return {"units": [L, O, m, main], "submodules": []}


def fixed_programs():
    out = [("fixed:special:mpi+extlib", special_named_modules("mpi", "extlib")),
           ("fixed:special:iso_fortran_env+omp_lib", special_named_modules("iso_fortran_env", "omp_lib")),
           ("fixed:special:netcdf+ieee_arithmetic", special_named_modules("netcdf", "ieee_arithmetic")),
           ("witness:proc_shadow", witness_proc_shadow()), ("witness:sibling_leak", witness_sibling_leak()),
           ("witness:abs_over_proc", witness_abs_over_proc()), ("witness:sub_shadow", witness_sub_shadow()),
           ("fixed:abs_hides_binding_target", abs_hides_binding_target()),
           ("fixed:imported_abs_hides_host_proc", imported_abs_hides_host_proc()),
           ("fixed:sub_chain", witness_sub_chain()),
           ("witness:local_overrides_host", witness_local_overrides_host())]
    # every slot kind once, unique names, two modules, an external procedure, undeclared names
    ma = sc("ma", "module",
            types=[ty("base", comps=[var("c1", "type", "nosuch_t")]),
                   ty("child", "base", comps=[var("c2", "type", "base"), var("c3", "proc", "cb")],
                      binds=[{"name": "b1", "deferred": False, "proto": None, "targets": ["worker"]},
                             {"name": "b2", "deferred": True, "proto": "cb", "targets": []},
                             {"name": "b3", "deferred": False, "proto": None, "targets": ["phantom"]}],
                      finals=["fin"])],
            generics=[{"name": "child", "modprocs": ["make_child"]}, {"name": "gen", "modprocs": ["worker", "fin"]}],
            absints=[sc("cb", "absbody", args=[var("a1", "type", "base", pointer=False)])],
            vars=[var("v1", "type", "child"), var("v2", "proc", "cb"), var("v3", "type", "ghost")],
            procs=[sc("worker", "subroutine", vars=[var("w1", "type", "Base")],
                      procs=[sc("inner", "subroutine", vars=[var("i1", "type", "child"), var("i2", "proc", "worker")])]),
                   sc("fin", "subroutine", args=[var("self", "type", "child", pointer=False)]),
                   sc("make_child", "subroutine")],
            ifbodies=[sc("extp", "ifbody", args=[var("e1", "type", "base", pointer=False)])])
    mb = sc("mb", "module", uses=[{"target": "MA", "only": None}],
            types=[ty("grand", "Child", comps=[var("g1", "proc", "extp")])],
            vars=[var("u1", "type", "base"), var("u2", "proc", "worker")])
    ext = sc("outside", "subroutine", uses=[{"target": "mb", "only": [["grand", "grand"], ["kid", "child"]]}],
             vars=[var("o1", "type", "kid"), var("o2", "type", "child"), var("o3", "type", "grand")])
    main = sc("main", "program", uses=[{"target": "ma", "only": None}],
              vars=[var("p1", "type", "child"), var("p2", "proc", "outside"), var("p3", "proc", "gen")],
              procs=[sc("local", "subroutine", vars=[var("l1", "type", "base")])])
    out.append(("fixed:all_slots", {"units": [ma, mb, ext, main],
                                    "submodules": [{"name": "sub1", "ancestor": "MA", "parent": None},
                                                   {"name": "sub2", "ancestor": "ma", "parent": "SUB1"},
                                                   {"name": "sub3", "ancestor": "nomod", "parent": None}]}))
    return out


# ----------------------------------------------------------------------------- running
class Runner:
    def __init__(self, chk):
        self.chk = chk
        self.cases = []      # (label, prog, unit, files, obs)
        self.subs = []
        self.nprog = 0

    def add(self, label, prog, nontrivial=True):
        files = G.render_files(prog)
        r, detail = I.observe(prog, files)
        self.nprog += 1
        self.chk.count(("prog", json.dumps(prog, sort_keys=True)), nontrivial=nontrivial,
                       sample={"label": label, "units": [u["name"] for u in prog["units"]]})
        if isinstance(r, str):
            self.chk.violation("failing-input", {"what": "Project.correlate raised " + r, "detail": detail,
                                                 "label": label, "prog": prog, "files": files}, True)
            return
        obs, subs, problems = r
        if problems:
            self.chk.violation("failing-input", {"what": "observation does not fit the abstract program",
                                                 "problems": problems[:10], "label": label, "prog": prog,
                                                 "files": files}, True)
            return
        for u in prog["units"]:
            self.cases.append((label, prog, u, files, obs[u["name"].lower()]))
        for sm in prog["submodules"]:
            # a submodule is judged together with the units whose dictionaries it inherits
            chain = G.host_chain(prog, sm)
            o = [x for h in chain for x in obs[h["name"].lower()]] + obs[sm["name"].lower()]
            self.cases.append((label, prog, G.sub_scope(sm), files, o))
        for s in subs:
            self.subs.append((label, prog, files, s))

    def judge(self):
        chk = self.chk
        stats = {"units": len(self.cases), "slots": sum(len(c[4]) for c in self.cases), "model_mismatch": 0,
                 "spec_violation": 0, "model_differs_from_spec": 0, "not_legal_spec_skipped": 0,
                 "resolved_slots": sum(1 for c in self.cases for o in c[4] if o[2] is not None)}
        terms = [coq_case(p, u, obs) for _, p, u, _, obs in self.cases]
        res = chk.coq_judge(IMPORTS, "case", "judge", terms, shard=max(8, len(terms) // 16 + 1))
        if res is None:
            return stats
        chk.traces += len(terms)
        stats["agreeing_with_spec"] = len(terms) - len(res)
        for j, code in sorted(res.items(), key=lambda jc: (not (jc[1] & 2), jc[0])):
            label, prog, u, files, obs = self.cases[j]
            deviates = (code >> 5) & 1
            if (code >> 3) & 1:
                stats["not_legal_spec_skipped"] += 1
            if (code >> 4) & 1:
                chk.violation("broken-correspondence", {"what": "projection is not a well-formed event list",
                                                        "label": label, "unit": u["name"], "files": files}, False)
            payload = {"label": label, "unit": u["name"], "prog": prog, "files": files, "code": code,
                       "observed": [[p, list(d), e] for p, d, e in obs],
                       "meaning": "bit0 model!=impl, bit1 impl differs from the Spec on a slot where the model agrees with "
                                  "the Spec, bits>=2: 2 not a legal unit (Spec not asked), 4 projection not well formed, "
                                  "8 impl differs from the Spec somewhere"}
            if code & 2:
                chk.disagreements += 1
                stats["spec_violation"] += 1
                chk.violation("failing-input", payload, True)
            elif deviates:
                # implementation and model both differ from the Spec on a legal unit: no recorded defect
                # is left that could explain it (C07_full)
                chk.disagreements += 1
                stats["model_differs_from_spec"] += 1
                chk.violation("failing-input", payload, True)
            if code & 1:
                stats["model_mismatch"] += 1
                if not code & 2:
                    chk.violation("broken-correspondence", payload, False)
        # submodule ancestors / parents
        if self.subs:
            terms = ["(%s, %s, %s)" % (G.clist(G.cs(x) for x in units), G.cs(n), "None" if f is None else f"(Some {G.cs(f)})")
                     for _, _, _, (units, n, f) in self.subs]
            res = chk.coq_judge(IMPORTS, "list str * str * option str", "judge_unit", terms)
            stats["submodule_slots"] = len(terms)
            for j, code in sorted((res or {}).items()):
                label, prog, files, s = self.subs[j]
                chk.violation("failing-input" if code & 2 else "broken-correspondence",
                              {"label": label, "what": "ancestor_module / parent_submodule", "slot": s, "files": files,
                               "prog": prog, "code": code}, bool(code & 2))
        return stats


def distribution(units):
    d = {"unit_kinds": {}, "scopes_by_depth": {}, "scope_kinds": {}, "uses": 0, "types": 0, "bindings": 0, "finals": 0,
         "generics": 0, "references": 0, "names_declared_in_several_scopes_of_a_unit": 0, "use_forms": {},
         "modules_named_like_intrinsic_or_extra_mods": 0}
    special = {u["name"].lower() for u in units if u["kind"] == "module" and u["name"].lower() in G.SPECIAL_NAMES}

    def walk(s, depth, names):
        d["scopes_by_depth"][depth] = d["scopes_by_depth"].get(depth, 0) + 1
        d["scope_kinds"][s["kind"]] = d["scope_kinds"].get(s["kind"], 0) + 1
        d["uses"] += len(s["uses"])
        for x in s["uses"]:
            form = ("only+rename" if any(l != r for l, r in x["only"]) else "only") if x["only"] is not None else (
                "rename" if x.get("renames") else "plain")
            for f in (form, "prefix:" + (x.get("prefix") or "none")) + (
                    ("of-a-project-module-named-like-intrinsic-or-extra_mods",) if x["target"].lower() in special else ()):
                d["use_forms"][f] = d["use_forms"].get(f, 0) + 1
        d["types"] += len(s["types"])
        d["generics"] += len(s["generics"])
        for t in s["types"]:
            d["bindings"] += len(t["binds"])
            d["finals"] += len(t["finals"])
            d["references"] += sum(1 for c in t["comps"] if c["ref"]) + (1 if t["extends"] else 0)
        d["references"] += sum(1 for v in s["vars"] + s["args"] if v["ref"])
        for c, ns in G.own_names(s).items():
            for n in ns:
                names.setdefault((c != "CType", n), 0)
                names[(c != "CType", n)] += 1
        for c in s["procs"] + s["ifbodies"] + s["absints"]:
            walk(c, depth + 1, names)
    for u in units:
        d["unit_kinds"][u["kind"]] = d["unit_kinds"].get(u["kind"], 0) + 1
        d["modules_named_like_intrinsic_or_extra_mods"] += u["kind"] == "module" and u["name"].lower() in G.SPECIAL_NAMES
        names = {}
        walk(u, 0, names)
        d["names_declared_in_several_scopes_of_a_unit"] += sum(1 for v in names.values() if v > 1)
    return d


def run(chk):
    chk.build(["theories/Corr/C07.vo", "theories/Props/C07.vo"])
    chk.props("theories/Props/C07.v", THEOREMS)
    rng = chk.rng
    quick = chk.tier == "quick"
    if not quick:
        chk.coqchk(["Ford.Props.C07"])
    R = Runner(chk)
    t0 = time.time()
    for f in sorted((core.VERIF / "corpus" / "C07").glob("*.json")):
        R.add("corpus:" + f.name, json.load(open(f))["prog"])
    for label, prog in fixed_programs():
        R.add(label, prog)
    n = 400 if quick else 3000
    progs = []
    for k in range(n):
        prog = G.Gen(rng).program()
        progs.append(prog)
        R.add(f"random:{k}", prog)
    t1 = time.time()
    stats = R.judge()
    # HTML level: unresolved names are plain text, resolved ones link to the page of the entity
    rows = 0
    nhtml = 10 if quick else 80
    for label, prog in fixed_programs() + [(f"random:{k}", progs[k]) for k in range(min(nhtml, len(progs)))]:
        nrows, seen, problems = I.html_check(prog, G.render_files(prog))
        rows += nrows
        if problems and all("Unknown entity" in x for x in problems) and has_unresolved_binding(prog):
            # the recorded template-level finding: an unresolved binding target aborts the rendering
            chk.disagreements += 1
            if chk.known("unresolved-binding-target-aborts-rendering", False):
                continue
        if problems:
            chk.violation("failing-input", {"what": "generated HTML does not show the reference as resolved by "
                                                    "correlate()", "problems": problems[:10], "label": label,
                                            "prog": prog, "files": G.render_files(prog)}, True)
    stats["distribution"] = distribution([c[2] for c in R.cases])
    chk.extra["c07"] = {"programs": R.nprog, "impl_s": round(t1 - t0, 1), "judge_s": round(time.time() - t1, 1),
                        "html_rows_checked": rows, **stats}
    replay_findings(chk)


def has_unresolved_binding(prog):
    files = G.render_files(prog)
    r, _ = I.observe(prog, files)
    if isinstance(r, str):
        return False
    return any(d[0] in ("SBindTarget", "SBindProto") and e is None for obs in r[0].values() for _, d, e in obs)


def witness_unresolved_binding():
    m = sc("m", "module", uses=[{"target": "extlib", "only": [["impl", "impl"]]}],
           types=[ty("t", binds=[{"name": "run", "deferred": False, "proto": None, "targets": ["impl"]}])])
    return {"units": [m], "submodules": []}


def slot_of(prog, unit, path, slot):
    files = G.render_files(prog)
    r, _ = I.observe(prog, files)
    if isinstance(r, str):
        return "EXC"
    for p, d, e in r[0][unit]:
        if p == path and tuple(d) == tuple(slot):
            return e
    return "missing"


def replay_findings(chk):
    # repaired in /repo (fixed: entries in known_findings.d/C07.json): reported as failing inputs if they return
    e = slot_of(witness_proc_shadow(), "m", ["m", "a"], ("SVar", "p"))
    if e != ["m", "a", "helper"]:
        chk.violation("failing-input", {"what": "a contained procedure does not shadow the host's procedure of the same name",
                                        "slot": e, "prog": witness_proc_shadow(),
                                        "files": G.render_files(witness_proc_shadow())}, True)
    p = witness_sibling_leak()
    e1 = slot_of(p, "m", ["m", "b"], ("SVar", "y"))
    e2 = slot_of(p, "m", ["m"], ("SVar", "z"))
    if e1 is not None or e2 is not None:
        chk.violation("failing-input", {"what": "a type declared inside one procedure is visible in a sibling or in the host",
                                        "slots": [e1, e2], "prog": p, "files": G.render_files(p)}, True)
    e = slot_of(witness_abs_over_proc(), "m", ["m", "a"], ("SVar", "p"))
    if e != ["m", "a", "x"]:
        chk.violation("failing-input", {"what": "procedure(x) where x is an abstract interface of the scope and also a "
                                                "procedure of the host does not resolve to the abstract interface",
                                        "slot": e, "prog": witness_abs_over_proc(),
                                        "files": G.render_files(witness_abs_over_proc())}, True)
    e = slot_of(witness_sub_shadow(), "s1", ["s1"], ("SVar", "v"))
    if e != ["s1", "t"]:
        chk.violation("failing-input", {"what": "a type declared in a submodule does not hide the type of the same name "
                                                "of its ancestor module", "slot": e, "prog": witness_sub_shadow(),
                                        "files": G.render_files(witness_sub_shadow())}, True)
    prog = witness_unresolved_binding()
    _, _, problems = I.html_check(prog, G.render_files(prog))
    # repaired in /repo 1b07a9c (fixed: entry in known_findings.d/C07.json): reported again if it returns
    if problems:
        chk.violation("failing-input", {"what": "an unresolved type-bound procedure target does not stay plain text",
                                        "problems": problems[:10], "prog": prog, "files": G.render_files(prog)}, True)


def replay(chk, rep):
    prog = rep.get("prog")
    if not prog:
        print("nothing to replay")
        return 0
    chk.build(["theories/Corr/C07.vo"])
    R = Runner(chk)
    R.add("replay", prog)
    terms = [coq_case(p, u, obs) for _, p, u, _, obs in R.cases]
    res = chk.coq_judge(IMPORTS, "case", "judge", terms)
    print("judge codes:", res, "pending violations:", getattr(chk, "nviol", 0))
    return 1 if res or getattr(chk, "nviol", 0) else 0


def finish(chk):
    return chk.finish(
        level_note="Coq proof over all event sequences of the scope-table model; model tied to "
                   "FortranCodeUnit.correlate and the slot resolvers by differential runs on generated programs "
                   "that reuse names across scopes",
        trusted_base=["Coq 8.16.1 kernel (vm_compute for case evaluation and witnesses)",
                      "harness/gen/c07gen.py (generator, renderer, projection incl. the use-associated names of "
                      "every scope), harness/impl/c07impl.py (adapter)",
                      "hand-written model Sem/Scope.v; Spec written from Fortran 2018 19.4/19.5"],
        rule="a case = one top-level unit of a generated program (distinct after JSON canonicalisation of the "
             "program); every reference slot of the unit is compared by identity path",
        checker_cmd="make theories/Props/C07.vo && coqc theories/Props/C07.v (Print Assumptions)",
        assumptions=["use-associated names of a scope are an input of the model (property C06)",
                     "interface bodies are given host association (the generator writes IMPORT)",
                     "pairing of separate module procedures, generic bindings, namelists are outside the model; "
                     "a submodule whose ancestor module is not in the project is generated empty (FORD drops its "
                     "USE dependencies from the processing order)"])
