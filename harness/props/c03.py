"""C03 — each doc comment lands on its entity, complete, once and in order."""
import shutil
import tempfile

from harness import core
from harness.core import coq_str, coq_list
from harness.gen import doclayout as D
from harness.gen import ftree as T
from harness.impl import tree as I
from harness.impl.reader import run_reader
from harness.props import c01
from harness.props.c02 import coq_impl

IMPORTS = "From Ford Require Import Base.Str Lex.Quote Lex.Reader Corr.C02 Corr.C03."
THEOREMS = ["C03_reader_docs", "C03_reader_docs4", "C03_attach", "C03_file_docs"]
# fixed inputs of the reader part: (marks, lines, items)
DEFAULT = ("!", ">", "*", "|")
READER_CORPUS = [
    # all four styles in one file (Lex/ReaderDoc4Proofs.v example_docs4, without its empty documentation lines)
    (DEFAULT, ["! header", "!| about m", "! more about m", "!   indented", "module m", "  !* after m, a block",
               "  ! second line of the block", "", "  ! an ordinary comment", "  !> pre for x",
               "  !! with a plain-marked line", "  ! ordinary", "", "  !| then an alternate block", "  ! its second line", " ",
               "  integer :: x !! and inline ! text", "    !! a following line for x",
               "  call f('a!b') ; y = 1! ordinary trailing", "  !* block for the call", "  ! its end",
               "!| one", "!> two", "!| three", "", "  ", "end module m", "! trailer"],
     [("module m", [" about m", " more about m", "   indented"], [" after m, a block", " second line of the block"]),
      ("integer :: x", [" pre for x", " with a plain-marked line", " then an alternate block", " its second line"],
       [" and inline ! text", " a following line for x"]),
      ("call f('a!b')", [], []), ("y = 1", [], [" block for the call", " its end"]),
      ("end module m", [" one", " two", " three"], [])]),
    # a blank line does not end a pre-alt block, it does end an alt block (Lex/ReaderDoc4Proofs.v prealt_blank)
    (DEFAULT, ["!| about x", "", "! more", "x = 1", "!* after x", "", "! ordinary", "y = 2"],
     [("x = 1", [" about x", " more"], [" after x"]), ("y = 2", [], [])]),
]
try:
    from harness.props import c03doc
except Exception:  # noqa  (the documentation-text half is developed separately)
    c03doc = None


def ascii_ok(x):
    return all(core.is_ascii(l) for l in x)


def fixed_project_case(chk, rng, n):
    from harness.impl import fordrun
    def words(tag, k):
        return [f"{tag}w{j}" for j in range(k)]
    ext = rng.choice(["f", "for"])
    lines, expect = ["      module fx_m"], {}
    styles = ["doc", "pre", "alt", "prealt"]
    rng.shuffle(styles)
    for vi, sty in enumerate(styles):
        name = f"v{vi}"
        ind = " " * rng.choice(D.FIXED_COMMENT_COLUMNS)
        d1, d2 = words(f"t{n}{name}a", rng.randint(9, 14)), words(f"t{n}{name}b", rng.randint(9, 14))
        l1, l2 = " " + " ".join(d1), " " + " ".join(d2)
        decl = f"      integer :: {name}"
        if sty == "doc":
            lines += [decl, f"{ind}!!{l1}", f"{ind}!!{l2}"]
        elif sty == "pre":
            lines += [f"{ind}!>{l1}", f"{ind}!>{l2}", decl]
        elif sty == "alt":
            lines += [decl, f"{ind}!*{l1}", f"{ind}!{l2}", ""]
        else:
            lines += [f"{ind}!|{l1}", f"{ind}!{l2}", decl]
        expect[name] = d1 + d2
    lines.append("      end module fx_m")
    assert any(len(l) > 72 for l in lines)
    with fordrun.Work({f"src/fx.{ext}": "\n".join(lines) + "\n"}) as w:
        try:
            p = fordrun.parse_project(str(w.root), predocmark=">", docmark_alt="*", predocmark_alt="|")
            got = {v.name: " ".join(v.doc_list).split() for v in p.modules[0].variables}
        except Exception as e:  # noqa
            got = {"EXC": [type(e).__name__]}
    chk.count(("fixedproject", tuple(lines)), nontrivial=True)
    if got != expect:
        chk.violation("failing-input", {"what": "words of the documentation of the variables of a fixed-form module "
                                        "(Project): every word once and in order", "lines": lines, "fixed": True,
                                        "project": True, "ext": ext, "impl": got, "expected": expect}, True)


def run(chk):
    targets = ["theories/Corr/C03.vo", "theories/Corr/C01.vo", "theories/Props/C03.vo"]
    if c03doc is not None:
        targets += list(getattr(c03doc, "BUILD_TARGETS", ["theories/Corr/C03doc.vo", "theories/Props/C03doc.vo"]))
    chk.build(targets)
    chk.props("theories/Props/C03.v", THEOREMS)
    if chk.tier == "thorough":
        chk.coqchk(["Ford.Props.C03", "Ford.Props.C03doc"])
    if c03doc is not None:
        chk.props(getattr(c03doc, "PROPS_FILE", "theories/Props/C03doc.v"), c03doc.THEOREMS)
    rng = chk.rng
    quick = chk.tier == "quick"
    work = tempfile.mkdtemp(prefix="verif_c03_")
    try:
        # A. reader: every statement followed by exactly its documentation, four styles, any markers
        cases, terms = [], []
        shape_counts = {}
        gens = list(READER_CORPUS) + [None] * (900 if quick else 30000)
        for g in gens:
            if g is not None:
                marks, lines, items = g
            else:
                marks, lines, items, shapes = D.gen_case(rng)
                for sh in shapes:
                    shape_counts[sh] = shape_counts.get(sh, 0) + 1
            if not ascii_ok(lines):
                continue
            res = run_reader(lines, marks, workdir=work)
            cases.append((marks, lines, items, res))
            chk.count(("docs", marks, tuple(lines)), nontrivial=any(p or q for _, p, q in items),
                      sample={"marks": marks, "lines": lines, "impl": res} if len(cases) < 3 else None)
            its = coq_list(f"({coq_str(st)}, {coq_list(coq_str(d) for d in pre)}, {coq_list(coq_str(d) for d in post)})"
                           for st, pre, post in items)
            terms.append(f"(mkcfg {' '.join(coq_str(m) for m in marks)}, {coq_list(coq_str(l) for l in lines)}, "
                         f"{its}, {coq_impl(res)})")
        out = chk.coq_judge(IMPORTS, "cfg * list str * list (str * list str * list str) * (list str + nat)",
                            "judge_docs", terms)
        if out is not None:
            chk.traces += len(cases)
            for idx, code in sorted(out.items()):
                marks, lines, items, res = cases[idx]
                chk.violation("failing-input" if code & 2 else "broken-correspondence",
                              {"what": "documentation lines delivered by FortranReader", "marks": marks, "lines": lines,
                               "items": items, "impl": res, "code": code,
                               "meaning": "bit0 model!=impl, bit1 statements/doc lines differ from the documented rule"},
                              bool(code & 2))
        chk.extra["reader_doc_shapes"] = shape_counts
        # A2. the same documented statements written as fixed-form files (read through ford.fixed2free2): indented
        #     own-line documentation lines of every style, up to ~120 columns wide (no part of a comment line is
        #     cut at column 72), forced at least once per style and run
        fx_cases, fx_terms = [], []
        fx_stats = {"cases": 0, "with_indented_doc_line_wider_than_72": 0, "forced": {}}
        fgens = [("forced", sty) for sty in ("doc", "pre", "alt", "prealt") for _ in range(2)] \
            + [("gen", None)] * (300 if quick else 10000)
        for kind, sty in fgens:
            if kind == "forced":
                marks, lines, items = D.forced_fixed_case(rng, sty)
                wide = max(len(l) for l in lines if l.lstrip().startswith("!"))
                assert wide > 72 and all(l.startswith(" ") for l in lines if l.lstrip().startswith("!"))
                fx_stats["forced"][sty] = fx_stats["forced"].get(sty, 0) + 1
            else:
                marks, lines, items, _shapes, wide = D.gen_case_fixed(rng)
            if not ascii_ok(lines):
                continue
            ll = True if kind == "forced" else rng.random() < 0.8
            res = run_reader(lines, marks, fixed=True, length_limit=ll, workdir=work)
            fx_cases.append((marks, ll, lines, items, res))
            fx_stats["cases"] += 1
            fx_stats["with_indented_doc_line_wider_than_72"] += wide > 72
            chk.count(("fixeddocs", marks, ll, tuple(lines)), nontrivial=any(p or q for _, p, q in items),
                      sample={"marks": marks, "lines": lines, "impl": res} if len(fx_cases) < 2 else None)
            its = coq_list(f"({coq_str(st)}, {coq_list(coq_str(d) for d in pre)}, {coq_list(coq_str(d) for d in post)})"
                           for st, pre, post in items)
            fx_terms.append(f"(mkcfg {' '.join(coq_str(m) for m in marks)}, {'true' if ll else 'false'}, "
                            f"{coq_list(coq_str(l + chr(10)) for l in lines)}, {its}, {coq_impl(res)})")
        out = chk.coq_judge(IMPORTS, "cfg * bool * list str * list (str * list str * list str) * (list str + nat)",
                            "judge_docs_fixed", fx_terms)
        if out is None:
            # the judge could not be evaluated: decide the Spec side here
            out = {}
            for idx, (marks, ll, lines, items, res) in enumerate(fx_cases):
                want = [x for st, pre, post in items for x in [st] + ["!" + marks[0] + d for d in pre + post]]
                got = [o for o in res[1] if o != "!" + marks[0]] if res[0] == "ok" else None
                if got != want:
                    out[idx] = 2
        else:
            chk.traces += len(fx_cases)
        for idx, code in sorted(out.items()):
            marks, ll, lines, items, res = fx_cases[idx]
            chk.violation("failing-input" if code & 2 else "broken-correspondence",
                          {"what": "documentation lines delivered by FortranReader(fixed=True)", "marks": marks,
                           "length_limit": ll, "lines": lines, "fixed": True, "items": items, "impl": res, "code": code,
                           "meaning": "bit0 model!=impl, bit1 statements/doc lines differ from the documented rule "
                                      "(= those of the free-form rendering)"}, bool(code & 2))
        chk.extra["fixed_form_docs"] = fx_stats
        # A3. ... and through Project: a fixed-form module whose variables are documented in the four styles with
        #     indented lines wider than 72 columns; every tracer word of each variable's comment once and in order
        for n in range(3 if quick else 40):
            fixed_project_case(chk, rng, n)
        # B. attach: the documentation lands on the declared entity (whole files, all four styles)
        tcases, tterms = [], []
        for i in range(150 if quick else 4000):
            cx = T.Ctx(rng, docs=True, spell=rng.random() < 0.3, styles=True)
            f = T.gen_file(cx, f"d{i % 5}.f90", [])
            events = T.render_file(cx, f)
            text = "\n".join(t for _, t in events if t is not None) + "\n"
            if not core.is_ascii(text):
                continue
            res = I.parse_text(text, f["name"], workdir=work)
            tcases.append((text, res))
            tterms.append(c01.case_term(f["name"], events, res, T.spec_tree(f)))
            chk.count(("attach", text), sample={"text": text[:500]} if i < 1 else None)
        out = chk.coq_judge(c01.IMPORTS, c01.CASE_T, "judge", tterms, shard=40)
        if out is not None:
            chk.traces += len(tcases)
            for idx, code in sorted(out.items()):
                text, res = tcases[idx]
                chk.violation("failing-input" if code & 2 else "broken-correspondence",
                              {"what": "documentation attached to the entities of a generated file", "code": code,
                               "impl": res[0], "text": text}, bool(code & 2))
        # C/D. documentation text: metadata split, note boxes, rendered words
        if c03doc is not None:
            c03doc.run_part(chk)
    finally:
        shutil.rmtree(work, ignore_errors=True)


def replay(chk, rep):
    if c03doc is not None and rep.get("part") in ("admon", "meta", "e2e"):
        return c03doc.replay(chk, rep)
    if "lines" in rep and rep.get("project"):
        print("expected:", rep.get("expected"))
        print("recorded:", rep.get("impl"))
    elif "lines" in rep:
        print(run_reader(rep["lines"], tuple(rep.get("marks", ("!", ">", "*", "|"))), fixed=bool(rep.get("fixed")),
                         length_limit=rep.get("length_limit", True)))
    elif "text" in rep:
        r = I.parse_text(rep["text"])
        print(r[0], T.tree_term(r[1])[:3000] if r[0] == "ok" else r[1])
    return 0


def finish(chk):
    return chk.finish(
        level_note="Coq theorems about the reader model (documentation markers) and the structural parser model "
                   "(attachment), plus the documentation-text models; tied to the code by differential runs",
        trusted_base=["Coq 8.16.1 kernel (+ vm_compute)", "models Lex/Reader.v, Sem/Tree.v, Doc/*.v",
                      "harness generators/adapters", "7-bit ASCII"] + list(getattr(c03doc, "TRUSTED_BASE", [])),
        rule="documented statement sequences in the four marker styles with alternative marker characters, blank and "
             "ordinary comment lines in between; generated files with per-entity documentation in all styles; "
             "documentation bodies with note boxes / lists / code / metadata (see c03doc)",
        checker_cmd="make theories/Props/C03.vo theories/Props/C03doc.vo && coqc (Print Assumptions)",
        assumptions=["python-markdown's block parsing is outside the models (end-to-end word search only)"]
        + list(getattr(c03doc, "ASSUMPTIONS", [])))
