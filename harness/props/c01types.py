"""C01, declaration layer: type specs, declarations, attribute statements, typed function prefixes,
argument order.  Exposes THEOREMS and run_part(chk) for harness/props/c01.py (which builds and
checks the Props files); harness/props/c01typesx.py is a stand-alone driver."""
import json

from harness import core
from harness.core import coq_list, coq_opt
from harness.gen import c01decl as G
from harness.impl import c01types as I

IMPORTS = "From Coq Require Import ZArith.\nFrom Ford Require Import Base.Str Base.StrX Sem.TypeSpec Sem.DeclSpec Corr.C01types."
THEOREMS = [
    "C01_type_spellings", "C01_character_spellings", "C01_case_invariance", "C01_case_invariance_refuted_attribute",
    "C01_attr_stmt_equiv", "C01_attr_stmt_equiv_optional", "C01_attr_stmt_equiv_intent", "C01_attr_stmt_equiv_parameter",
    "C01_attr_stmt_equiv_refuted_dimension", "C01_argument_order",
]
PROPS_FILE = "theories/Props/C01types.v"
BUILD_TARGETS = ["theories/Corr/C01types.vo", "theories/Props/C01types.vo"]
REGIONS = {5: "attribute-text-spelling", 7: "dimension-attribute-vs-array-spec", 10: "dimension-attribute-vs-array-spec"}
UNMODELLED, MALFORMED = 1000, 2000


def ipt_coq(o):
    if o[0] == "ok":
        proto = "None" if o[5] is None else f"(Some ({G.cstr(o[5][0])}, {G.cstr(o[5][1])}))"
        return f"(IPOk {G.cstr(o[1])} {G.cstr(o[2])} {G.copt(o[3])} {G.copt(o[4])} {proto})"
    return f"(IPErr {G.cstr(o[1])})"


def ivars_coq(o):
    if o[0] == "ok":
        return "(IVOk " + coq_list(G.var_coq(v) for v in o[1]) + ")"
    return f"(IVErr {G.cstr(o[1])})"


def vars_ok(o):
    return o[0] != "ok" or all(G.var_ok(v) for v in o[1])


PTYPE_STRINGS = [
    "integer", "integer x", "real(8) :: x", "real(kind=8), intent(in) :: x", "REAL*8 x", "real * 8 x", "real*  8 x",
    "double precision x", "doubleprecision x", "double  precision :: x", "DOUBLE\tPRECISION x", "double complex z",
    "doublecomplex z", "character", "character c", "character*10 c", "character*(*) c", "character * 10 c",
    "character(10) c", "character(len=10) c", "character(LEN = 10) :: c", "character(len=*) c", "character(len=:), allocatable :: c",
    "character(len=n+1) c", "character(2*n) c", "character(n+1) c", "character(kind=ck) c", "character(kind=ck,len=3) c",
    "character(len=3,kind=ck) c", "character(3,ck) c", "character(3,kind=ck) c", "character(len=3,kind=ck,foo=1) c",
    "character(len=len(x)) c", "character() c", "character(  ) c", "character( len = 10 , kind = ck ) :: c",
    "type(t) :: x", "type ( t ) x", "TYPE(my_t(8)) :: x", "class(*) :: x", "class(shape), pointer :: p", "type() x",
    "type x", "procedure(iface), pointer :: p", "procedure() :: p", "procedure(real) :: f", "enumerator :: red = 1",
    "integer(kind=selected_int_kind(5)) i", "real(kind=selected_real_kind(6,37)) r", "real(selected_real_kind(6,37)) r",
    "real(kind = 8) r", "real( 8 ) :: r", "real(8)x", "real() x", "real(( 8 )) x", "real(8", "real(8)) x", "real*(8) x",
    "integer*4 function f()", "integer(int32)", "logical(1)::l", "complex*16 z", "complex(kind=kind(1d0)) z", "realx",
    "integerfoo(3)", "real[8] x", "real(a[1]) x", "foo", "", "  integer x", "integer, parameter :: n = 10",
    "real(kind=8_4) x", "real(KIND=8) x", "real(Kind =8) x", "real(kind= 8) x", "integer(kind=c_int),value::v",
    "character(len=10)(3) c", "character*10(3) c", "character*10, parameter :: c = \"0\"", "integer(kind=\"0\") x",
]


def gen_ptype_strings(rng, n):
    """rendered type specs with tails, and near-misses obtained by editing them"""
    out = []
    tails = [" x", " :: x", ", intent(in) :: x", ",save::x", "", "x", " function f(a)", "\tx", "::x(3)", " , pointer :: p"]
    for _ in range(n):
        t = G.gen_type(rng)
        sp = G.gen_tspell(rng)
        if not G.type_form_ok(sp, t):
            sp["form"] = 0
        text = G.render_type(sp, t) + rng.choice(tails)
        out.append(text)
        if rng.random() < 0.5 and text:
            i = rng.randrange(len(text))
            r = rng.random()
            if r < 0.4:
                text2 = text[:i] + text[i + 1:]
            elif r < 0.8:
                text2 = text[:i] + rng.choice(" ()*=,:8k") + text[i:]
            else:
                text2 = text[:i] + text[i].swapcase() + text[i + 1:]
            out.append(text2)
    return out


def iunit_coq(o):
    if o[0] == "ok":
        u = o[1]
        rv = "None" if u["retvar"] is None else f"(Some {G.var_coq(u['retvar'])})"
        return (f"(IUOk {G.cstrs(u['attribs'])} {coq_list(G.var_coq(v) for v in u['args'])} {rv} "
                f"{coq_list(G.var_coq(v) for v in u['vars'])})")
    return f"(IUErr {G.cstr(o[1])})"


def unit_out_ok(o):
    if o[0] != "ok":
        return True
    u = o[1]
    vs = list(u["args"]) + list(u["vars"]) + ([u["retvar"]] if u["retvar"] else [])
    return all(G.var_ok(v) for v in vs)


def header_groups(kind, header):
    """the groups of FORD's own header patterns (the model takes them as input)"""
    import ford.sourceform as sf
    if kind == "module":
        m = sf.FortranContainer.MODULE_RE.match(header)
        return {"name": m.group("name")} if m else None
    rx = sf.FortranContainer.SUBROUTINE_RE if kind == "subroutine" else sf.FortranContainer.FUNCTION_RE
    m = rx.match(header)
    if not m:
        return None
    g = m.groupdict()
    return {k: g.get(k) for k in ("attributes", "name", "arguments", "result")}


RAW_UNITS = [
    ("subroutine", "subroutine s(a, b, c, d)",
     ["integer a, b", "real c, d", "integer x, y, z, w, p, q", "character(len=5) str", "real arr, arr2, al",
      "optional b", "intent(in) :: a", "intent ( out ) c", "parameter (x = 5, str = 'a  b')",
      "dimension arr(3), arr2( 2 , 2 )", "allocatable al(:)", "save y, z", "target :: w", "pointer p", "volatile q"],
     "end subroutine s"),
    ("subroutine", "subroutine t(a,b)", ["real, external :: a", "real, EXTERNAL :: b", "integer, save :: k", "external k2"],
     "end subroutine"),
    ("function", "function f(n) result(r)", ["real r", "dimension r(3)", "save r", "integer n", "intent(in) n"], "end function"),
    ("function", "double precision function f1(x)", [], "end function"),
    ("function", "real(WP) function f2(y, x) result(res)", ["integer x"], "end function"),
    ("function", "type(module_t) function f3()", [], "end function"),
    ("function", "pure integer function f4(i)", [], "end function"),
    ("function", "character(len=10) function f5()", [], "end function"),
    ("function", "function f6() result(r)", ["double precision r"], "end function"),
    ("function", "elemental real(kind=8) function f7(x)", ["real(kind=8), intent(in) :: x"], "end function"),
    ("function", "type(pure_t) function f8(a)", ["type(Pure_T), intent(in) :: a"], "end function"),
    ("function", "integer*8 function f9()", [], "end function"),
    ("function", "recursive function fact(n) result(r)", ["integer, intent(in) :: n", "integer :: r"], "end function fact"),
    ("function", "function g(I, x, Kmax)", [], "end function"),
    ("function", "character*(*) function h(s)", ["character(len=*) s"], "end function"),
    ("function", "impure elemental function k(x)", ["real x, k"], "end function"),
    ("subroutine", "pure subroutine p(x, y, x)", ["real, intent(in) :: x", "real, intent(out) :: y"], "end subroutine"),
    ("subroutine", "subroutine q( a ,b, )", ["integer A", "real B"], "end subroutine"),
    ("subroutine", "subroutine noargs", ["integer :: local = 1"], "end subroutine"),
    ("subroutine", "subroutine e()", ["integer, parameter :: n = 3", "real :: a(n) = [1., 2., 3.]", "public :: a",
                                      "private n", "protected a"], "end subroutine"),
    ("module", "module mm", ["integer, public :: a", "integer, private :: b", "real, protected :: c = 1.0", "private :: a",
                             "public b, c", "parameter (p = 3, q = 'x,y')", "integer p", "character(3) q"], "end module"),
    ("function", "type(pure_t) function f8(a)", ["type,(Pure_T), intent(in) :: a"], "end function"),
    ("subroutine", "subroutine dup(a)", ["integer a", "real b, a", "intent(in) :: a", "save b"], "end subroutine"),
    ("module", "module m2", ["integer x", "dimension x(pointer_count)", "real y", "allocatable :: y(:,:)", "data x /1/",
                             "integer z", "pointer :: z ( : )", "real w", "intent(inout) w", "value w"], "end module"),
]


def mutate_line(rng, line):
    if not line:
        return line
    i = rng.randrange(len(line))
    r = rng.random()
    if r < 0.35:
        return line[:i] + line[i + 1:]
    if r < 0.7:
        return line[:i] + rng.choice(" (),:=*") + line[i:]
    return line[:i] + line[i].swapcase() + line[i + 1:]


def is_open(chk, key):
    return any(f["key"] == key and f.get("status", "open") == "open" for f in chk.findings)


def classify(chk, res, cases, payload_of, what_bad, what_mismatch, stats, seen, pending):
    unm = 0
    if res is None:
        return 0
    for idx, c in enumerate(cases):
        code = res.get(idx, 0)
        if code == UNMODELLED:
            unm += 1
            continue
        chk.traces += 1
        payload = dict(payload_of(c), code=code,
                       meaning="bit0 model!=impl, bit1 FORD's report differs from the declaration, bits>=2 region")
        if code == MALFORMED:
            pending.append(("broken-correspondence", dict(payload, what="harness renderer differs from the Coq renderer, "
                                                          "or the abstract input is not well formed"), False))
            continue
        mismatch, viol, region = code & 1, code & 2, code >> 2
        outside = False
        if viol:
            chk.disagreements += 1
            key = REGIONS.get(region)
            stats[key or "none"] = stats.get(key or "none", 0) + 1
            if key is None or not is_open(chk, key):      # reported once by witnesses()
                outside = True
                pending.append(("failing-input", dict(payload, what=what_bad, region=region), True))
            else:
                seen.add(key)
        if mismatch and not outside:
            pending.append(("broken-correspondence", dict(payload, what=what_mismatch), False))
    return unm


def run_units(chk, judge, P, stats, seen, pending):
    rng = chk.rng
    quick = chk.tier == "quick"
    # (3) raw units: hand-written shapes and edited copies
    raws = list(RAW_UNITS)
    for _ in range(300 if quick else 4000):
        kind, header, lines, end = rng.choice(RAW_UNITS)
        lines = list(lines)
        if lines and rng.random() < 0.8:
            j = rng.randrange(len(lines))
            lines[j] = mutate_line(rng, lines[j])
        else:
            header = mutate_line(rng, header)
        raws.append((kind, header, lines, end))
    rcases = []
    for kind, header, lines, end in raws:
        g = header_groups(kind, header)
        if g is None or not all(core.is_ascii(x) for x in [header] + lines):
            continue
        out = P.unit(kind, header, lines, end)
        if not unit_out_ok(out):
            continue
        rcases.append((kind, header, lines, g, out))
        chk.count(("unit", header, tuple(lines)), sample={"header": header, "lines": lines, "ford": out})
    terms = [f"({G.header_coq(k, g)}, {G.cstrs(lines)}, {iunit_coq(out)})" for k, h, lines, g, out in rcases]
    res = judge(IMPORTS, "header * list str * iunit", "judge_unit", terms, shard=40)
    unm = classify(chk, res, rcases, lambda c: {"header": c[1], "lines": c[2], "ford": c[4]}, "", 
                   "model and FORD disagree on a small unit", stats, seen, pending)
    # (4) abstract units in random spellings
    ucases = []
    for _ in range(500 if quick else 8000):
        u = G.gen_unit(rng)
        sp = G.gen_uspell(rng, u, plain=rng.random() < 0.15)
        header, body, end = G.render_header(sp, u), G.render_body(sp, u["decls"]), G.render_end(sp, u)
        g = header_groups(u["kind"], header)
        if g is None:
            continue
        out = P.unit(u["kind"], header, body, end)
        if not unit_out_ok(out):
            continue
        ucases.append((u, sp, header, body, end, g, out))
        chk.count(("aunit", header, tuple(body)), sample={"header": header, "lines": body, "ford": out})
    terms = [f"(mkuc {G.unit_coq(u)} {G.uspell_coq(sp)} {G.cstr(h)} {G.cstrs(b)} {G.cstr(e)} {G.header_coq(u['kind'], g)} "
             f"{iunit_coq(out)})" for u, sp, h, b, e, g, out in ucases]
    res = judge(IMPORTS, "ucase", "judge_uspec", terms, shard=30)
    unm += classify(chk, res, ucases, lambda c: {"header": c[2], "lines": c[3], "abstract": c[0], "spelling": c[1], "ford": c[6]},
                    "a declared entity of a unit is reported differently from its declaration",
                    "model and FORD disagree on a generated unit", stats, seen, pending)
    return len(rcases), len(ucases), unm


def witnesses(chk, P):
    """open findings: replay the witness (KNOWN-FINDING lines); repaired defects: their former witnesses are
    regression inputs -- the defect coming back is a failing input"""
    def mv(*lines):
        o = P.module_vars(list(lines))
        return {v["name"]: v for v in o[1]} if o[0] == "ok" else o

    def un(kind, header, lines, end):
        o = P.unit(kind, header, lines, end)
        return o[1] if o[0] == "ok" else None

    def regression(key, text, bad, got):
        chk.count(("regression", key), sample=None)
        if bad:
            chk.violation("failing-input", {"what": "a repaired defect is back: " + key, "text": text, "ford": got}, True)
    e = mv("integer, TARGET :: w")
    chk.known("attribute-text-spelling", isinstance(e, dict) and e["w"]["attribs"] == ["TARGET"])
    f = mv("real, dimension(3) :: a", "real :: b(3)")
    chk.known("dimension-attribute-vs-array-spec", isinstance(f, dict) and f["a"]["dimension"] != f["b"]["dimension"])
    a = mv("doubleprecision x", "double precision y", "doublecomplex z")
    regression("double-without-blank", "doubleprecision x / double precision y / doublecomplex z",
               not (isinstance(a, dict) and a["x"]["vartype"] == a["y"]["vartype"] == "double precision"
                    and a["z"]["vartype"] == "double complex"), a)
    b = mv("character * 10 c", "real * 8 x", "character * ( * ) d")
    regression("blank-after-star", "character * 10 c / real * 8 x / character * ( * ) d",
               not (isinstance(b, dict) and b.get("c", {}).get("strlen") == "10" and b.get("x", {}).get("kind") == "8"
                    and b.get("d", {}).get("strlen") == "*"), b)
    c = mv("character(len=n+1) c", "character(2*n) d", "character(len = 2*n) e")
    regression("len-expression-truncated", "character(len=n+1) c / character(2*n) d / character(len = 2*n) e",
               not (isinstance(c, dict) and c["c"]["strlen"] == "n+1" and c["d"]["strlen"] == "2*n" and c["e"]["strlen"] == "2*n"), c)
    d = mv("real(kind=selected_real_kind(6,37)) r")
    regression("kind-comma-truncated", "real(kind=selected_real_kind(6,37)) r",
               not (isinstance(d, dict) and d["r"]["kind"] == "selected_real_kind(6,37)"), d)
    body = ["integer b", "optional b", "real d", "intent(in out) d", "character(len=5) str", "parameter (str = 'a  b')"]
    g = un("subroutine", "subroutine s(b, d)", body, "end subroutine")
    regression("optional-statement", body, not (g and g["args"][0]["optional"] and g["args"][0]["attribs"] == []), g)
    regression("intent-in-out-statement", body, not (g and g["args"][1]["intent"] == "inout"), g)
    regression("parameter-statement", body,
               not (g and g["vars"][0]["parameter"] and g["vars"][0]["attribs"] == []
                    and g["vars"][0]["initial"] == "'a" + G.NBSP * 2 + "b'"), g)
    h = un("function", "function f() result(r)", ["real r", "save r", "pointer r"], "end function")
    regression("result-attribute-statements-ignored", "function f() result(r) / real r / save r / pointer r",
               not (h and h["retvar"]["attribs"] == ["save", "pointer"]), h)
    i = un("function", "real(WP) function f()", [], "end function")
    regression("prefix-type-lower-cased", "real(WP) function f()", not (i and i["retvar"]["kind"] == "WP"), i)
    j = un("function", "type(module_t) function f3()", [], "end function")
    regression("prefix-keyword-inside-type", "type(module_t) function f3()",
               not (j and j["attribs"] == [] and j["retvar"]["proto"] == ["module_t", ""]), j)
    m = mv('integer(kind=kind("x")) f', 'character*(len("abc")) c', 'character(len=len("abc")) d', 'character(len("abc")) e')
    regression("masked-literal-in-kind-selector", 'integer(kind=kind("x")) f / character*(len("abc")) c / character(len=len("abc")) d',
               not (isinstance(m, dict) and m["f"]["kind"] == 'kind("x")' and m["c"]["strlen"] == m["d"]["strlen"] == m["e"]["strlen"] == 'len("abc")'), m)
    k = un("function", "double precision function f1()", [], "end function")
    regression("double-without-blank", "double precision function f1()", not (k and k["retvar"]["vartype"] == "double precision"), k)


def replay_part(chk, rep, judge=None):
    """replay of a violation recorded by run_part; returns None when the replay file is not one of this part's"""
    judge = judge or chk.coq_judge
    P = I.Parser()
    try:
        if "string" in rep:
            o = I.parse_type_direct(rep["string"])
            print("ford parse_type:", o)
            res = judge(IMPORTS, "str * ipt", "judge_ptype", [f"({G.cstr(rep['string'])}, {ipt_coq(o)})"])
        elif "declaration" in rep:
            out = P.module_vars([rep["declaration"]])
            print("ford:", json.dumps(out)[:2000])
            g = header_groups("module", "module m")
            res = judge(IMPORTS, "header * list str * iunit", "judge_unit",
                        [f"({G.header_coq('module', g)}, {G.cstrs([rep['declaration']])}, "
                         f"{iunit_coq(['ok', {'attribs': [], 'args': [], 'retvar': None, 'vars': out[1]}] if out[0] == 'ok' else out)})"])
        elif "header" in rep:
            header, lines = rep["header"], rep["lines"]
            kind = "module" if header.lower().startswith("module") else ("function" if "function" in header.lower() else "subroutine")
            g = header_groups(kind, header)
            out = P.unit(kind, header, lines, "end " + kind)
            print("ford:", json.dumps(out)[:2000])
            res = judge(IMPORTS, "header * list str * iunit", "judge_unit",
                        [f"({G.header_coq(kind, g)}, {G.cstrs(lines)}, {iunit_coq(out)})"])
        else:
            return None
        print("judge code (bit0 model!=FORD):", res)
        return 1 if res else 0
    finally:
        P.close()


def run_part(chk, judge=None):
    """everything except chk.build / chk.props"""
    judge = judge or chk.coq_judge
    rng = chk.rng
    quick = chk.tier == "quick"
    P = I.Parser()
    try:
        # (1) parse_type called directly
        strings = list(PTYPE_STRINGS) + gen_ptype_strings(rng, 600 if quick else 8000)
        strings = [x for x in dict.fromkeys(strings) if core.is_ascii(x) and "\n" not in x]
        outs = [I.parse_type_direct(x) for x in strings]
        for x, o in zip(strings, outs):
            chk.count(("ptype", x), nontrivial=len(x) > 5, sample={"parse_type": x, "ford": o})
        res = judge(IMPORTS, "str * ipt", "judge_ptype", [f"({G.cstr(x)}, {ipt_coq(o)})" for x, o in zip(strings, outs)],
                    shard=250)
        unm = 0
        if res is not None:
            for idx, code in sorted(res.items()):
                if code == UNMODELLED:
                    unm += 1
                    continue
                chk.violation("broken-correspondence", {"what": "parse_type on a string", "string": strings[idx],
                                                        "ford": outs[idx], "code": code}, False)
            chk.traces += len(strings) - unm
        # (2) abstract declarations in random spellings, observed as the variables of a module
        cases = []
        # forced in every run: array specs on the entity with "=" inside the parentheses (keyword arguments, relational
        # operators), with and without an initial value / pointer initialisation
        drawn = G.forced_eq_decls(rng)
        for _ in range(900 if quick else 12000):
            d = G.gen_decl(rng)
            drawn.append((d, G.gen_dspell(rng, d, plain=rng.random() < 0.15)))
        for d, sp in drawn:
            text = G.render_decl(sp, d)
            out = P.module_vars([text])
            if not vars_ok(out):
                continue
            cases.append((d, sp, text, out))
            chk.count(("decl", text), sample={"declaration": text, "ford": out})
        terms = [f"(mksc {G.decl_coq(d)} {G.dspell_coq(sp)} {G.cstr(text)} {ivars_coq(out)})" for d, sp, text, out in cases]
        res = judge(IMPORTS, "scase", "judge_spec", terms, shard=60)
        stats = {}
        pending = []
        seen = set()
        if res is not None:
            for idx, (d, sp, text, out) in enumerate(cases):
                code = res.get(idx, 0)
                if code == UNMODELLED:
                    unm += 1
                    continue
                chk.traces += 1
                payload = {"declaration": text, "abstract": d, "spelling": sp, "ford": out, "code": code,
                           "meaning": "bit0 model!=impl, bit1 FORD's report differs from the declaration, bits>=2 region"}
                if code == MALFORMED:
                    pending.append(("broken-correspondence", dict(payload, what="harness renderer differs from render_decl, "
                                                                  "or the abstract declaration is not well formed"), False))
                    continue
                mismatch, viol, region = code & 1, code & 2, code >> 2
                outside = False
                if viol:
                    chk.disagreements += 1
                    key = REGIONS.get(region)
                    stats[key or "none"] = stats.get(key or "none", 0) + 1
                    if key is None or not is_open(chk, key):      # reported once by witnesses()
                        outside = True
                        pending.append(("failing-input", dict(payload, what="a declared variable is reported differently "
                                                              "from its declaration"), True))
                    else:
                        seen.add(key)
                if mismatch and not outside:
                    pending.append(("broken-correspondence", dict(payload, what="model and FORD disagree on a declaration"), False))
        nraw, nunits, unm2 = run_units(chk, judge, P, stats, seen, pending)
        witnesses(chk, P)
        for kind, payload, found in sorted(pending, key=lambda x: not x[2]):
            chk.violation(kind, payload, found)
        chk.extra["c01types"] = {"parse_type_strings": len(strings), "declarations": len(cases), "raw_units": nraw,
                                 "abstract_units": nunits, "unmodelled": unm + unm2, "regions": stats}
    finally:
        P.close()
