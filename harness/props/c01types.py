"""C01, declaration layer: type specs, declarations, attribute statements, typed function prefixes,
argument order.  Exposes THEOREMS and run_part(chk) for harness/props/c01.py (which builds and
checks the Props files); harness/props/c01typesx.py is a stand-alone driver."""
import json

from harness import core
from harness.core import coq_list, coq_opt
from harness.gen import c01decl as G
from harness.impl import c01types as I

IMPORTS = "From Coq Require Import ZArith.\nFrom Ford Require Import Base.Str Base.StrX Sem.TypeSpec Sem.DeclSpec Corr.C01types."
THEOREMS = []
REGIONS = {1: "double-without-blank", 2: "blank-after-star", 3: "len-expression-truncated", 4: "kind-comma-truncated",
           5: "attribute-text-spelling", 7: "dimension-attribute-vs-array-spec"}
UNMODELLED, MALFORMED = 1000, 2000


def ipt_coq(o):
    if o[0] == "ok":
        proto = "None" if o[5] is None else f"(Some ({G.cstr(o[5][0])}, {G.cstr(o[5][1])}))"
        return f"(IPOk {G.cstr(o[1])} {G.cstr(o[2])} {G.copt(o[3])} {G.copt(o[4])} {proto})"
    return f"(IPErr {G.cstr(o[1])})"


def ivars_coq(o):
    if o[0] == "ok":
        return "(IVOk " + coq_list(G.var_coq(v) for v in o[1]) + ")"
    return f"(IVErr {G.cstr(o[1])})"


def vars_ok(o):
    return o[0] != "ok" or all(G.var_ok(v) for v in o[1])


PTYPE_STRINGS = [
    "integer", "integer x", "real(8) :: x", "real(kind=8), intent(in) :: x", "REAL*8 x", "real * 8 x", "real*  8 x",
    "double precision x", "doubleprecision x", "double  precision :: x", "DOUBLE\tPRECISION x", "double complex z",
    "doublecomplex z", "character", "character c", "character*10 c", "character*(*) c", "character * 10 c",
    "character(10) c", "character(len=10) c", "character(LEN = 10) :: c", "character(len=*) c", "character(len=:), allocatable :: c",
    "character(len=n+1) c", "character(2*n) c", "character(n+1) c", "character(kind=ck) c", "character(kind=ck,len=3) c",
    "character(len=3,kind=ck) c", "character(3,ck) c", "character(3,kind=ck) c", "character(len=3,kind=ck,foo=1) c",
    "character(len=len(x)) c", "character() c", "character(  ) c", "character( len = 10 , kind = ck ) :: c",
    "type(t) :: x", "type ( t ) x", "TYPE(my_t(8)) :: x", "class(*) :: x", "class(shape), pointer :: p", "type() x",
    "type x", "procedure(iface), pointer :: p", "procedure() :: p", "procedure(real) :: f", "enumerator :: red = 1",
    "integer(kind=selected_int_kind(5)) i", "real(kind=selected_real_kind(6,37)) r", "real(selected_real_kind(6,37)) r",
    "real(kind = 8) r", "real( 8 ) :: r", "real(8)x", "real() x", "real(( 8 )) x", "real(8", "real(8)) x", "real*(8) x",
    "integer*4 function f()", "integer(int32)", "logical(1)::l", "complex*16 z", "complex(kind=kind(1d0)) z", "realx",
    "integerfoo(3)", "real[8] x", "real(a[1]) x", "foo", "", "  integer x", "integer, parameter :: n = 10",
    "real(kind=8_4) x", "real(KIND=8) x", "real(Kind =8) x", "real(kind= 8) x", "integer(kind=c_int),value::v",
    "character(len=10)(3) c", "character*10(3) c", "character*10, parameter :: c = \"0\"", "integer(kind=\"0\") x",
]


def gen_ptype_strings(rng, n):
    """rendered type specs with tails, and near-misses obtained by editing them"""
    out = []
    tails = [" x", " :: x", ", intent(in) :: x", ",save::x", "", "x", " function f(a)", "\tx", "::x(3)", " , pointer :: p"]
    for _ in range(n):
        t = G.gen_type(rng)
        sp = G.gen_tspell(rng)
        if not G.type_form_ok(sp, t):
            sp["form"] = 0
        text = G.render_type(sp, t) + rng.choice(tails)
        out.append(text)
        if rng.random() < 0.5 and text:
            i = rng.randrange(len(text))
            r = rng.random()
            if r < 0.4:
                text2 = text[:i] + text[i + 1:]
            elif r < 0.8:
                text2 = text[:i] + rng.choice(" ()*=,:8k") + text[i:]
            else:
                text2 = text[:i] + text[i].swapcase() + text[i + 1:]
            out.append(text2)
    return out


def run_part(chk, judge=None):
    """everything except chk.build / chk.props"""
    judge = judge or chk.coq_judge
    rng = chk.rng
    quick = chk.tier == "quick"
    P = I.Parser()
    try:
        # (1) parse_type called directly
        strings = list(PTYPE_STRINGS) + gen_ptype_strings(rng, 300 if quick else 6000)
        strings = [x for x in dict.fromkeys(strings) if core.is_ascii(x) and "\n" not in x]
        outs = [I.parse_type_direct(x) for x in strings]
        for x, o in zip(strings, outs):
            chk.count(("ptype", x), nontrivial=len(x) > 5, sample={"parse_type": x, "ford": o})
        res = judge(IMPORTS, "str * ipt", "judge_ptype", [f"({G.cstr(x)}, {ipt_coq(o)})" for x, o in zip(strings, outs)],
                    shard=250)
        unm = 0
        if res is not None:
            for idx, code in sorted(res.items()):
                if code == UNMODELLED:
                    unm += 1
                    continue
                chk.violation("broken-correspondence", {"what": "parse_type on a string", "string": strings[idx],
                                                        "ford": outs[idx], "code": code}, False)
            chk.traces += len(strings) - unm
        # (2) abstract declarations in random spellings, observed as the variables of a module
        cases = []
        for _ in range(500 if quick else 10000):
            d = G.gen_decl(rng)
            sp = G.gen_dspell(rng, d, plain=rng.random() < 0.15)
            text = G.render_decl(sp, d)
            out = P.module_vars([text])
            if not vars_ok(out):
                continue
            cases.append((d, sp, text, out))
            chk.count(("decl", text), sample={"declaration": text, "ford": out})
        terms = [f"(mksc {G.decl_coq(d)} {G.dspell_coq(sp)} {G.cstr(text)} {ivars_coq(out)})" for d, sp, text, out in cases]
        res = judge(IMPORTS, "scase", "judge_spec", terms, shard=60)
        stats = {}
        pending = []
        seen = set()
        if res is not None:
            for idx, (d, sp, text, out) in enumerate(cases):
                code = res.get(idx, 0)
                if code == UNMODELLED:
                    unm += 1
                    continue
                chk.traces += 1
                payload = {"declaration": text, "abstract": d, "spelling": sp, "ford": out, "code": code,
                           "meaning": "bit0 model!=impl, bit1 FORD's report differs from the declaration, bits>=2 region"}
                if code == MALFORMED:
                    pending.append(("broken-correspondence", dict(payload, what="harness renderer differs from render_decl, "
                                                                  "or the abstract declaration is not well formed"), False))
                    continue
                mismatch, viol, region = code & 1, code & 2, code >> 2
                outside = False
                if viol:
                    chk.disagreements += 1
                    key = REGIONS.get(region)
                    stats[key or "none"] = stats.get(key or "none", 0) + 1
                    if key is None or not chk.known(key, True):
                        outside = True
                        pending.append(("failing-input", dict(payload, what="a declared variable is reported differently "
                                                              "from its declaration"), True))
                    else:
                        seen.add(key)
                if mismatch and not outside:
                    pending.append(("broken-correspondence", dict(payload, what="model and FORD disagree on a declaration"), False))
        for kind, payload, found in sorted(pending, key=lambda x: not x[2]):
            chk.violation(kind, payload, found)
        chk.extra["c01types"] = {"parse_type_strings": len(strings), "declarations": len(cases), "unmodelled": unm,
                                 "regions": stats}
    finally:
        P.close()
