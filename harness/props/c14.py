"""C14 — fixed-form sources document the same as their free-form equivalent."""
import shutil
import tempfile

from harness import core
from harness.core import coq_str, coq_list, coq_bool
from harness.gen import fixedlayout as FL
from harness.impl.fixed import run_convert
from harness.impl.reader import run_reader
from harness.props.c02 import coq_piece, coq_impl

IMPORTS = "From Ford Require Import Base.Str Lex.Quote Lex.Reader Lex.ReaderSpec Lex.Fixed Corr.C02 Corr.C14."
THEOREMS = ["C14_fixed_as_free", "C14_fixed_statements", "C14_partial", "C14_refuted_inline_comment",
            "C14_refuted_blank6", "C14_refuted_literal_split"]
REGIONS = {"inline_comment_continued": 1, "blank6_before_continuation": 2}
KEYS = {1: "inline-comment-on-continued-line", 2: "blank-line-of-6-columns-before-continuation",
        3: "inline-comment-on-continued-line"}
RAW_POOL = ["      x = 1", "     1   + 2", "C comment", "c", "*", "! x", "  ! y", "#if A", "", "     ", "      ",
            "   10 continue", "10    y = 2", "      z = 'abc", "     &def'", "      a = 1 ! c", "     +  + b",
            "!$omp parallel", "c$omp do", "C$OMPX", "\t x = 1", "     0 w = 3", "12345 v = 4",
            "      call f(a,                                                    bcdefghijklmnop)qrs",
            "      long = 1                                                          SEQ00010",
            "     2     + 3                                                          SEQ00020"]


def nlines(lines):
    return [l + "\n" for l in lines]


def run(chk):
    chk.build(["theories/Corr/C14.vo", "theories/Props/C14.vo"])
    chk.props("theories/Props/C14.v", THEOREMS)
    rng = chk.rng
    quick = chk.tier == "quick"
    work = tempfile.mkdtemp(prefix="verif_c14_")
    try:
        # A. converter alone on raw line soups (incl. irregular lines, OMP, cpp, short, long, no final newline)
        cases = []
        for _ in range(500 if quick else 20000):
            ll = rng.random() < 0.7
            lines = nlines([rng.choice(RAW_POOL) for _ in range(rng.choice([1, 2, 3, 5, 8]))])
            if rng.random() < 0.1:
                lines[-1] = lines[-1][:-1]
                if not lines[-1]:
                    lines.pop()
            if not lines:
                continue
            out = run_convert(lines, ll)
            cases.append((ll, lines, out))
            chk.count(("conv", ll, tuple(lines)), nontrivial=len(lines) > 1, sample={"lines": lines, "impl": out})
        terms = [f"({coq_bool(ll)}, {coq_list(coq_str(l) for l in lines)}, {coq_list(coq_str(o) for o in out)})"
                 for ll, lines, out in cases if all(core.is_ascii(o) for o in out)]
        res = chk.coq_judge(IMPORTS, "bool * list str * list str", "judge_convert", terms)
        if res is not None:
            chk.traces += len(terms)
            for idx, code in sorted(res.items()):
                ll, lines, out = cases[idx]
                chk.violation("broken-correspondence", {"what": "convertToFree vs model", "length_limit": ll,
                                                        "lines": lines, "impl": out}, False)
        # B. generated fixed-form statements through converter + reader; statements must equal the tokens'
        fcases = []
        hits = {1: 0, 2: 0, 3: 0}
        for _ in range(700 if quick else 20000):
            ll = rng.random() < 0.8
            lines, pss, regions, ncont = FL.gen_file(rng, {"length_limit": ll})
            res = run_reader(lines, fixed=True, length_limit=ll, workdir=work)
            region = sum(REGIONS[r] for r in regions)
            fcases.append((ll, lines, pss, region, res))
            chk.count(("fixed", ll, tuple(lines)), nontrivial=ncont > 0,
                      sample={"lines": lines, "impl": res} if ncont else None)
        terms = [f"({coq_bool(ll)}, {coq_list(coq_str(l + chr(10)) for l in lines)}, "
                 f"{coq_list(coq_list(coq_piece(p) for p in ps) for ps in pss)}, {region}, {coq_impl(res)})"
                 for ll, lines, pss, region, res in fcases]
        res = chk.coq_judge(IMPORTS, "bool * list str * list (list piece) * nat * (list str + nat)",
                            "judge_fixed", terms)
        if res is not None:
            chk.traces += len(terms)
            for idx, code in sorted(res.items()):
                ll, lines, pss, region, out = fcases[idx]
                if code & 1:
                    chk.violation("failing-input" if (code & 2 and not region) else "broken-correspondence",
                                  {"what": "fixed-form file through FortranReader(fixed=True) vs model",
                                   "length_limit": ll, "lines": lines, "impl": out, "code": code},
                                  bool(code & 2) and not region)
                elif code & 2:
                    chk.disagreements += 1
                    if region and chk.known(KEYS[region], True):
                        hits[region] += 1
                    else:
                        chk.violation("failing-input", {"what": "fixed-form statements differ from the free-form "
                                                        "equivalent", "length_limit": ll, "lines": lines,
                                                        "impl": out, "region": region}, True)
        chk.extra["known_region_cases"] = hits
        # known findings still present?
        r = run_reader(["      x = 1 ! c", "     &  + 2"], fixed=True, workdir=work)
        chk.known("inline-comment-on-continued-line", r != ("ok", ["x = 1 + 2"]))
        r = run_reader(["      x = 1", "       ", "     &  + 2"], fixed=True, workdir=work)
        chk.known("blank-line-of-6-columns-before-continuation", r != ("ok", ["x = 1 + 2"]))
        r = run_reader(["      s = 'ab", "     &cd'"], fixed=True, workdir=work)
        chk.known("literal-continued-across-lines", r != ("ok", ["s = 'abcd'"]))
    finally:
        shutil.rmtree(work, ignore_errors=True)


def replay(chk, rep):
    lines = rep["lines"]
    ll = rep.get("length_limit", True)
    print("converter:", run_convert([l if l.endswith("\n") else l + "\n" for l in lines], ll))
    print("reader:", run_reader([l.rstrip("\n") for l in lines], fixed=True, length_limit=ll))
    return 0


def finish(chk):
    return chk.finish(
        level_note="Coq theorems about the converter model composed with the reader model; tied to "
                   "ford.fixed2free2 and FortranReader(fixed=True) by differential runs",
        trusted_base=["Coq 8.16.1 kernel (+ vm_compute)", "hand-written models Lex/Fixed.v, Lex/Reader.v",
                      "harness generators/adapters", "7-bit ASCII; lines end with a newline"],
        rule="raw fixed-form line soups (regular/irregular/long/short/OMP/cpp) for the converter; generated "
             "token statements rendered in fixed form with labels, continuation characters, comment-line "
             "styles, sequence fields, blank and short lines; non-trivial = has a continuation line",
        checker_cmd="make theories/Props/C14.vo && coqc theories/Props/C14.v (Print Assumptions)",
        assumptions=["breaks only between tokens (a token split at column 72 is outside the generator)"])
