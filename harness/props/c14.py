"""C14 — fixed-form sources document the same as their free-form equivalent."""
import json
import shutil
import tempfile

from harness import core
from harness.core import coq_str, coq_list, coq_bool
from harness.gen import fixedlayout as FL
from harness.impl.fixed import run_convert
from harness.impl.reader import run_reader
from harness.props.c02 import coq_piece, coq_impl

IMPORTS = "From Ford Require Import Base.Str Lex.Quote Lex.Reader Lex.ReaderSpec Lex.Fixed Corr.C02 Corr.C14."
THEOREMS = ["C14_fixed_as_free", "C14_fixed_statements", "C14_seq_not_in_statements", "C14_std_equivalent",
            "C14_partial", "C14_partial_seq", "C14_refuted_literal_split"]
# the one open finding: a character literal continued across lines
REGIONS = {"literal_split": 1}
KEYS = {1: "literal-continued-across-lines"}
# documentation-level regression inputs (the judge's Spec compares statements only): fixed-form lines with text in
# columns 73+ and what the reader must yield for them (blanks at the end of a line not counted)
DOC_REGRESSIONS = [
    (["      integer :: n  !! the number of iterations of the outer loop that run before convergence"],
     ["integer :: n", "!! the number of iterations of the outer loop that r"]),
    (["      integer :: m !! the count".ljust(72) + "SEQ00010", "     & , k".ljust(72) + "!note"],
     ["integer :: m , k", "!! the count"]),
    (["      x = 1".ljust(72) + "!note", "      y = 2".ljust(72) + ">pre", "      z = 3".ljust(72) + "*alt"],
     ["x = 1", "y = 2", "z = 3"]),
]
RAW_POOL = ["      x = 1", "     1   + 2", "C comment", "c", "*", "! x", "  ! y", "#if A", "", "     ", "      ",
            "   10 continue", "10    y = 2", "      z = 'abc", "     &def'", "      a = 1 ! c", "     +  + b",
            "!$omp parallel", "c$omp do", "C$OMPX", "\t x = 1", "     0 w = 3", "12345 v = 4",
            "      call f(a,                                                    bcdefghijklmnop)qrs",
            "      long = 1                                                          SEQ00010",
            "     2     + 3                                                          SEQ00020",
            # inline comments (plain, documentation, with quotes, '!' inside literals), with and without text in 73+
            "      a = 1 !! doc", "      s = 'a!b' ! c", "      s = \"it's\" ! isn't", "      s = 'open ! c",
            "      a = 1 ! 'q' ! r", "      a = 1!c", "   20 b = 2 ! c", "      !", "      a = '!' // \"!\" !x",
            "      x = 1 ! c                                                         SEQ00030",
            "      x = 'a!b'   !! doc                                                SEQ00040",
            "      x = 1                                                           ! cSEQ00050",
            "      x = 1                                                            !SEQ00060",
            "   30 y = 'lit                                                        ! SEQ00070",
            # whitespace-only lines of every kind
            "       ", "        ", " " * 20, " " * 66, " " * 72, " " * 73, " " * 74, " " * 80, "\t", "      \t",
            "\t\t\t\t\t\t\t", " ", "  ", "    ", "     1", "     1 ", "     !", "      ! only a comment",
            "c$omp parallel do", "c$omp& private(x) ! c", "*$OMP  end", "C$OMP parallel do ! note",
            "!$omp+ if ('a!b' == s) ! c", "c$omp&",
            "c$omp parallel do                                                       SEQ00080",
            "c$omp& shared(y)  ! c                                                   SEQ00090", "   10", "12345", "  end", "   10 ",
            # '!' in column 6 is a continuation mark; '!' in columns 2-5 or 7+ as first character is a comment line
            "     !  + 2", "     !", "     ! ", "     !! doc?", "      ! note", "         ! far", "   ! x = 1", " !", "    !x",
            "     '  + 3", "     c  + 4", "     ;  + 5"]


def nlines(lines):
    return [l + "\n" for l in lines]


FIXED_EXTS = ["f", "for", "F", "FOR"]     # the default fixed_extensions of the settings


def small_program(rng):
    """one small program unit in fixed form and its free-form equivalent (same statements, same docs)"""
    nm = rng.choice(["work", "Solve", "AREA", "step2"])
    arg = rng.choice(["x", "val", "N"])
    loc = rng.choice(["tmp", "acc", "K"])
    mark = rng.choice("&1+$*x")
    cm = rng.choice(["C", "c", "*", "!"])
    docs = rng.random() < 0.7
    fixed = [f"{cm} a {nm} routine", f"      subroutine {nm}({arg},"]
    free = [f"! a {nm} routine", f"subroutine {nm}({arg}, &"]
    fixed += [f"     {mark}   other)"]
    free += ["   other)"]
    if docs:
        fixed += [f"      !! does the {nm} work"]
        free += [f"  !! does the {nm} work"]
    fixed += [f"      integer {arg}", "      real other !! second argument" if docs else "      real other",
              f"      real {loc}(3)", f"      {loc}(1) = other +", f"     {mark}    1.0", "   10 continue",
              f"      call helper({loc}(1))", "      end"]
    free += [f"  integer {arg}", "  real other !! second argument" if docs else "  real other",
             f"  real {loc}(3)", f"  {loc}(1) = other + &", "    1.0", "10 continue",
             f"  call helper({loc}(1))", "end"]
    return "\n".join(fixed) + "\n", "\n".join(free) + "\n"


def parse_preprocessed(root):
    """Project(...) + correlate() with the default preprocessing of .F/.FOR files left on (pcpp is on PATH)"""
    import os, pathlib
    import ford.fortran_project
    from ford.settings import ProjectSettings
    from harness.impl import fordrun as F
    F.reset_globals()
    st = ProjectSettings(src_dir=[pathlib.Path(root) / "src"], preprocess=True, dbg=True,
                         output_dir=pathlib.Path(root) / "doc")
    cwd = os.getcwd()
    os.chdir(root)
    try:
        with F.quiet() as buf:
            p = ford.fortran_project.Project(st)
            p.correlate()
    finally:
        os.chdir(cwd)
    p._verif_log = buf.getvalue()
    return p


def project_level(chk, rng, quick):
    """E. through Project: a fixed-form file under every default fixed-form extension documents the same
    entities (names, arguments, variables, documentation, calls) as its free-form equivalent"""
    from harness.impl import fordrun as F
    from harness.impl import tree as I
    from harness.gen import ftree as T

    def snapshot(fname, text, preprocess=False):
        with F.Work({f"src/{fname}": text}) as w:
            try:
                if preprocess:
                    p = parse_preprocessed(w.root)
                else:
                    p = F.parse_project(w.root, correlate=True)
            except BaseException as e:  # noqa
                if isinstance(e, (KeyboardInterrupt, SystemExit)):
                    raise
                return ("EXC", type(e).__name__, str(e)[:200])
            if not p.files:
                return ("rejected", p._verif_log[-300:])
            node = I.file_node(p.files[0])
            node = dict(node, name="FILE")
            calls = sorted(str(getattr(c, "name", c)).lower() for u in list(p.files[0].subroutines) + list(p.files[0].functions)
                           for c in getattr(u, "calls", []))
            return ("ok", T.tree_term(node), calls)
    for k in range(6 if quick else 60):
        fixed, free = small_program(rng)
        # sequence numbers in columns 73-80 on some statement lines: no part of the statements
        seq = rng.random() < 0.5
        if seq:
            fixed = "\n".join(l.ljust(72) + f"SEQ{n:05d}" if (l[:1] == " " and len(l) <= 72 and l.strip()
                                                              and "!" not in l) else l
                              for n, l in enumerate(fixed.split("\n"))) + ("" if fixed.endswith("\n") else "")
        ref = snapshot("unit.f90", free)
        for ext in FIXED_EXTS:
            # upper-case extensions are preprocessed by default: with and without the preprocessor
            pre = ext.isupper() and rng.random() < 0.5
            got = snapshot(f"unit.{ext}", fixed, preprocess=pre)
            chk.count(("project-level", ext, fixed), sample={"ext": ext, "fixed": fixed} if k == 0 and ext == "F" else None)
            if ref[0] != "ok":
                chk.violation("failing-input", {"what": "FORD does not document the free-form reference program",
                                                "free": free, "result": ref}, True)
                break
            if got != ref:
                chk.violation("failing-input", {"what": f"a fixed-form file with extension .{ext} is not documented "
                                                "like its free-form equivalent", "preprocessed": pre,
                                                "sequence_numbers": seq, "fixed": fixed, "free": free,
                                                "fixed_result": got[:2], "free_result": ref[:2]}, True)


def run(chk):
    chk.build(["theories/Corr/C14.vo", "theories/Props/C14.vo"])
    chk.props("theories/Props/C14.v", THEOREMS)
    if chk.tier == "thorough":
        chk.coqchk(["Ford.Props.C14"])
    rng = chk.rng
    quick = chk.tier == "quick"
    work = tempfile.mkdtemp(prefix="verif_c14_")
    try:
        # repaired (f4ed78d): with the length limit on, the text of columns 73+ must not reach the documentation
        for lines, want in DOC_REGRESSIONS:
            r = run_reader(lines, fixed=True, workdir=work)
            got = ("ok", [x.rstrip() for x in r[1]]) if r[0] == "ok" else r
            chk.count(("fixed-doc", tuple(lines)), nontrivial=True, sample={"lines": lines, "impl": r})
            if got != ("ok", want):
                chk.violation("failing-input", {"what": "text of columns 73+ reaches the documentation "
                                                "(statements and documentation lines expected: %r)" % (want,),
                                                "length_limit": True, "lines": lines, "impl": r}, True)
        # A. converter alone on raw line soups (incl. irregular lines, OMP, cpp, short, long, no final newline)
        cases = []
        for _ in range(500 if quick else 20000):
            ll = rng.random() < 0.7
            lines = nlines([rng.choice(RAW_POOL) for _ in range(rng.choice([1, 2, 3, 5, 8]))])
            if rng.random() < 0.1:
                lines[-1] = lines[-1][:-1]
                if not lines[-1]:
                    lines.pop()
            if not lines:
                continue
            out = run_convert(lines, ll)
            cases.append((ll, lines, out))
            chk.count(("conv", ll, tuple(lines)), nontrivial=len(lines) > 1, sample={"lines": lines, "impl": out})
        terms = [f"({coq_bool(ll)}, {coq_list(coq_str(l) for l in lines)}, {coq_list(coq_str(o) for o in out)})"
                 for ll, lines, out in cases if all(core.is_ascii(o) for o in out)]
        res = chk.coq_judge(IMPORTS, "bool * list str * list str", "judge_convert", terms)
        if res is not None:
            chk.traces += len(terms)
            for idx, code in sorted(res.items()):
                ll, lines, out = cases[idx]
                chk.violation("broken-correspondence", {"what": "convertToFree vs model", "length_limit": ll,
                                                        "lines": lines, "impl": out}, False)
        # B. generated fixed-form statements through converter + reader; statements must equal the tokens'
        fcases = []
        hits = {1: 0}
        shape_counts = {}
        # fixed regression inputs first (former witnesses of repaired defects): no region, judged like any other
        corpus = json.load(open(core.VERIF / "corpus" / "C14" / "regressions.json"))["cases"]
        for c in corpus:
            pss = [[tuple(p) for p in ps] for ps in c["pieces"]]
            res = run_reader(c["lines"], fixed=True, length_limit=c["length_limit"], workdir=work)
            fcases.append((c["length_limit"], c["lines"], pss, 0, res))
            chk.count(("fixed", c["length_limit"], tuple(c["lines"])), nontrivial=True,
                      sample={"lines": c["lines"], "impl": res})
        for _ in range(700 if quick else 20000):
            ll = rng.random() < 0.8
            lines, pss, regions, ncont, shapes = FL.gen_file(rng, {"length_limit": ll})
            res = run_reader(lines, fixed=True, length_limit=ll, workdir=work)
            region = sum(REGIONS[r] for r in regions)
            fcases.append((ll, lines, pss, region, res))
            for sh in shapes:
                shape_counts[sh] = shape_counts.get(sh, 0) + 1
            chk.count(("fixed", ll, tuple(lines)), nontrivial=ncont > 0,
                      sample={"lines": lines, "impl": res} if ncont else None)
        terms = [f"({coq_bool(ll)}, {coq_list(coq_str(l + chr(10)) for l in lines)}, "
                 f"{coq_list(coq_list(coq_piece(p) for p in ps) for ps in pss)}, {region}, {coq_impl(res)})"
                 for ll, lines, pss, region, res in fcases]
        res = chk.coq_judge(IMPORTS, "bool * list str * list (list piece) * nat * (list str + nat)",
                            "judge_fixed", terms)
        if res is not None:
            chk.traces += len(terms)
            for idx, code in sorted(res.items()):
                ll, lines, pss, region, out = fcases[idx]
                if code & 1:
                    chk.violation("failing-input" if (code & 2 and not region) else "broken-correspondence",
                                  {"what": "fixed-form file through FortranReader(fixed=True) vs model",
                                   "length_limit": ll, "lines": lines, "impl": out, "code": code},
                                  bool(code & 2) and not region)
                elif code & 2:
                    chk.disagreements += 1
                    if region:
                        for bit in KEYS:
                            if region & bit and chk.known(KEYS[bit], True):
                                hits[bit] += 1
                    else:
                        chk.violation("failing-input", {"what": "fixed-form statements differ from the free-form "
                                                        "equivalent", "length_limit": ll, "lines": lines,
                                                        "impl": out, "region": region}, True)
        chk.extra["known_region_cases"] = hits
        chk.extra["layout_shapes"] = dict(sorted(shape_counts.items()))
        project_level(chk, rng, quick)
        # the known finding still present?  (by the standard the literal is ab, 59 blanks up to column 72, cd)
        r = run_reader(["      s = 'ab", "     &cd'"], fixed=True, workdir=work)
        chk.known("literal-continued-across-lines", r != ("ok", ["s = 'ab" + " " * 59 + "cd'"]))
    finally:
        shutil.rmtree(work, ignore_errors=True)


def replay(chk, rep):
    lines = rep["lines"]
    ll = rep.get("length_limit", True)
    print("converter:", run_convert([l if l.endswith("\n") else l + "\n" for l in lines], ll))
    print("reader:", run_reader([l.rstrip("\n") for l in lines], fixed=True, length_limit=ll))
    return 0


def finish(chk):
    return chk.finish(
        level_note="Coq theorems about the converter model composed with the reader model; tied to "
                   "ford.fixed2free2 and FortranReader(fixed=True) by differential runs",
        trusted_base=["Coq 8.16.1 kernel (+ vm_compute)", "hand-written models Lex/Fixed.v, Lex/Reader.v",
                      "harness generators/adapters", "7-bit ASCII; lines end with a newline"],
        rule="raw fixed-form line soups (regular/irregular/long/short/blank/OMP/cpp, inline comments) for the "
             "converter; generated token statements rendered in fixed form with labels, continuation characters, "
             "comment-line styles, sequence fields, whitespace-only lines of width 0..80 and inline comments "
             "(plain, documentation, '!' in literals) on last and continued lines; recorded regression inputs "
             "first; non-trivial = has a continuation line",
        checker_cmd="make theories/Props/C14.vo && coqc theories/Props/C14.v (Print Assumptions)",
        assumptions=["breaks only between tokens (a token split at column 72 is outside the generator), except "
                     "for one character literal continued across lines (an open finding's region)"])
