"""C18 — rendered declarations say what the source says, and stay inert text."""
import importlib.util
import json
import random
import re
from concurrent.futures import ProcessPoolExecutor

from harness import core
from harness.core import coq_str, coq_list, coq_bool, coq_opt
from harness.gen import c18decl as G
from harness.impl import fordrun as F
from harness.impl import c18run as R

IMPORTS = "From Ford Require Import Base.Str Out.Names Lex.Mask Gen.EscapeSites Out.Escape Corr.C18."
THEOREMS = ["C18_mask_spec", "C18_mask_roundtrip", "C18_unmask_any_code", "C18_lower_keeps_literals", "C18_escape_inert",
            "C18_sites_classified", "C18_sites_escaped", "C18_escape_text_inert"]
NB = "\xa0"
VIEW_CORPUS = ["k<n))", "a<b>c", "s<u>name", "x < y", "1<2", "a&b", "&lt;", "<)", "<b", "a<b c", "<i>",
               "merge(2,3,k<n)) :: x>", "plain text", "a > b", "&amp;&#39;", "k<=n", "<<b>>"]


# saved initial values (run first): several literals with 3+ backslashes before another placeholder, short gaps
EXPR_CORPUS = ["['C:\\a\\b\\c', 'D:\\<x>  ']", "merge('\\\\\\\\\\', '1', k<n)", "[\"&\",\"\\1\\2\\g<0>\",'']",
               "\"C:\\a\\b\\c\"//'    *x*'", "'\\\\\\'//'\\\\\\'//\"it's\"", "['a\\\\b\\','',\"' <  _ abc\",'']"]


def tr(x):
    """transport encoding: U+00A0 -> ~"""
    return x.replace(NB, "~")


def known_unescaped_keys():
    text = (core.COQ / "theories" / "Out" / "Escape.v").read_text()
    body = text[text.index("Definition known_unescaped"):]
    body = body[:body.index(".\n")]
    return [m.replace('""', '"') for m in re.findall(r's "((?:[^"]|"")*)"', body)]


# ----------------------------------------------------------------------------- unit cases

def gen_expr(rng):
    """an initial-value expression: literals joined by code without top-level '=' or ','"""
    k = rng.choice([1, 1, 2, 3, 4])
    parts = []
    for i in range(k):
        parts.append(G.lit(rng))
        if i < k - 1:
            parts.append(rng.choice([" // ", "//", " //  ", "//repeat('x',2)//" if False else " // "]))
    text = "".join(parts)
    r = rng.random()
    if r < 0.15:
        text = f"merge({G.lit(rng)}, {G.lit(rng)}, k<n)"
    elif r < 0.25:
        text = f"trim({text})//{G.lit(rng)}"
    elif r < 0.3:
        text = f"[{G.lit(rng)}]"
    elif 0.5 <= r < 0.58:            # relational operators spelled with "=" at the top level of the value
        op = rng.choice(["<=", ">=", "==", "/=", " <= ", " == "])
        a, b = rng.choice([("1", "2"), ("k", "n"), (G.lit(rng), G.lit(rng)), ("k+1", "2*n")])
        text = f"{a}{op}{b}"
    elif r < 0.5:                    # short gaps between several literals
        k = rng.choice([2, 3, 4, 5])
        sep = rng.choice([", ", ",", "//"])
        inner = sep.join(G.lit(rng) for _ in range(k))
        text = inner if sep == "//" else "[" + inner + "]"
    return text


def upper_outside(text):
    """upper-case the code outside character literals (to give the `lower` option something to do)"""
    out, q = [], None
    for c in text:
        if q is None:
            out.append(c if c in "'\"" else c.upper())
            if c in "'\"":
                q = c
        else:
            out.append(c)
            if c == q:
                q = None
    return "".join(out)


def ok_text(x):
    return core.is_ascii(x) and "~" not in x and "\n" not in x and "\t" not in x and "!" not in x and ";" not in x


def unit_cases(chk, rng, n):
    cases = []

    def add(term, desc, nontrivial=True):
        cases.append((term, desc))
        chk.count(json.dumps(desc, sort_keys=True), nontrivial=nontrivial, sample=desc)

    # --- masking + initial values, through the real parser
    decls = [(f"uc{i}", f"character(len=*), parameter :: uc{i} = ", e) for i, e in enumerate(EXPR_CORPUS)]
    for i in range(n):
        e = gen_expr(rng)
        if rng.random() < 0.3:
            e = upper_outside(e)
        if ok_text(e) and not e.rstrip().endswith("&"):
            decls.append((f"u{i}", f"character(len=*), parameter :: u{i} = ", e))
    for ci, chunk in enumerate([decls[i:i + 25] for i in range(0, len(decls), 25)]):
        lw = ci % 2 == 1                 # the project option `lower`
        got = _parse_chunk(chunk, lw)
        for (name, prefix, expr), (call, initial) in zip(chunk, got):
            line = prefix + expr
            if call is not None:
                masked, strs = call
                add(f"CMask {coq_bool(lw)} {coq_str(line)} {coq_str(masked)} {coq_list(coq_str(x) for x in strs)}",
                    {"f": "mask", "lower": lw, "line": line, "masked": masked, "strings": strs},
                    nontrivial=len(strs) > 0)
            out = None if initial is None else tr(initial)
            if out is None or core.is_ascii(out):
                add(f"CInitial {coq_bool(lw)} {coq_str(prefix)} {coq_str(expr)} {coq_opt(out, coq_str)}",
                    {"f": "initial", "lower": lw, "line": line, "impl": out})
    # --- kind / length selectors with literals: declarations, typed FUNCTION statements (prefix parsed with the
    #     line's literal table), typed functions inside interface blocks
    sels = []
    for i in range(max(6, n // 5)):
        k = rng.choice([1, 1, 2])
        fn = rng.choice(["kind", "len"])
        sel = "+".join(f"{fn}({G.lit_selector(rng)})" for _ in range(k)) if fn == "len" else f"kind({G.lit_selector(rng)})"
        if not ok_text(sel):
            continue
        where = rng.choice(["decl", "function", "function", "interface", "dim", "proto"])
        typ, key = ("integer", "kind") if fn == "kind" else ("character", "len")
        if where == "dim":
            sels.append((f"s{i}", where, f"integer :: s{i}(", sel, "dim"))
        elif where == "proto":
            sels.append((f"s{i}", where, "type(seltype_t(", sel, "proto"))
        else:
            sels.append((f"s{i}", where, f"{typ}({key}=", sel, key))
    for ci, chunk in enumerate([sels[i:i + 8] for i in range(0, len(sels), 8)]):
        lw = ci % 2 == 1
        for (name, where, pre, sel, key), out in zip(chunk, _parse_selectors(chunk, lw)):
            post = {"decl": f") :: {name}", "function": f") function {name}()", "interface": f") function {name}()",
                    "dim": ")", "proto": f")) :: {name}"}[where]
            out = None if out is None else tr(out)
            if out is not None and not core.is_ascii(out):
                continue
            add(f"CSelector {coq_bool(lw)} {coq_str(pre)} {coq_str(sel)} {coq_str(post)} {coq_opt(out, coq_str)}",
                {"f": "selector", "lower": lw, "where": where, "statement": pre + sel + post, "impl": out})
    # --- PARAMETER statements
    pst = []
    for i in range(max(4, n // 6)):
        e = gen_expr(rng) if rng.random() < 0.7 else rng.choice(["merge(1,2,k<n)", "2*k+1", "k", "1 <= 2", "k==n", "3 >= 2"])
        if ok_text(e) and "[" not in e:
            pst.append((f"q{i}", e))
    for lw in (False, True):
        half = [pe for k, pe in enumerate(pst) if (k % 2 == 1) == lw]
        lines = []
        for name, e in half:
            e2 = upper_outside(e) if name.endswith(("3", "7")) else e
            lines += [f"character(len=20) :: {name}", f"parameter ({name} = {e2})"]
        mod, _calls, _log = R.parse_lines(lines, lower=lw)
        vals = {v.name: v.initial for v in mod.variables} if mod is not None else {}
        for name, e in half:
            e2 = upper_outside(e) if name.endswith(("3", "7")) else e
            out = vals.get(name)
            out = None if out is None else tr(out)
            if out is not None and not core.is_ascii(out):
                continue
            add(f"CParamStmt {coq_bool(lw)} {coq_str(name)} {coq_str(e2)} {coq_opt(out, coq_str)}",
                {"f": "parameter-statement", "lower": lw, "name": name, "expr": e2, "impl": out})
    # --- the e filter and the HTML reader
    for _ in range(n):
        x = "".join(rng.choice("<>&\"'\\ ab;#1/=") for _ in range(rng.choice([0, 1, 3, 6, 12])))
        if rng.random() < 0.3:
            x = G.lit_body(rng)
        out = R.impl_escape(x)
        add(f"CEscape {coq_str(x)} {coq_str(out)}", {"f": "escape", "x": x, "impl": out}, nontrivial=x != out)
        text, nt = R.html_view(out)
        add(f"CView {coq_str(out)} {coq_str(text)} {nt}", {"f": "html-view", "x": out, "text": text, "tags": nt})
    for _ in range(n // 2):
        x = "".join(rng.choice("<>&\"'\\ abk(),=1") for _ in range(rng.choice([0, 1, 3, 6, 12])))
        out = R.impl_escape_text(x)
        add(f"CEscapeText {coq_str(x)} {coq_str(out)}", {"f": "escape-text", "x": x, "impl": out}, nontrivial=x != out)
    for x in VIEW_CORPUS:
        text, nt = R.html_view(x)
        add(f"CView {coq_str(x)} {coq_str(text)} {nt}", {"f": "html-view", "x": x, "text": text, "tags": nt})
    return cases


def _parse_selectors(chunk, lw=False):
    """-> kind / strlen as stored by the real parser for each (name, where, pre, sel, key); None when the
    statement (or, with it, the whole file) could not be parsed"""
    decl = [f"{pre}{sel}) :: {name}" for (name, where, pre, sel, key) in chunk if where == "decl"]
    decl += [f"{pre}{sel})" for (name, where, pre, sel, key) in chunk if where == "dim"]
    if any(where == "proto" for (_n, where, _p, _s, _k) in chunk):
        decl = ["type :: seltype_t", "integer :: z", "end type seltype_t"] + decl
        decl += [f"{pre}{sel})) :: {name}" for (name, where, pre, sel, key) in chunk if where == "proto"]
    iface = []
    for (name, where, pre, sel, key) in chunk:
        if where == "interface":
            iface += [f"{pre}{sel}) function {name}()", f"end function {name}"]
    body = []
    for (name, where, pre, sel, key) in chunk:
        if where == "function":
            body += [f"{pre}{sel}) function {name}()", f"{name} = {'1' if key == 'kind' else chr(39) + 'x' + chr(39)}",
                     f"end function {name}"]
    lines = decl + (["interface"] + iface + ["end interface"] if iface else []) + ["contains"] + body
    mod, _calls, _log = R.parse_lines(lines, lower=lw)
    if mod is None:
        if len(chunk) == 1:
            return [None]
        return [x for c in chunk for x in _parse_selectors([c], lw)]
    vals = {}
    for v in mod.variables:
        vals[v.name] = v
    for f in mod.functions:
        vals[f.name] = f.retvar
    for it in mod.interfaces:
        pr = getattr(it, "procedure", None)
        if pr is not None:
            vals[pr.name] = pr.retvar
    out = []
    for (name, where, pre, sel, key) in chunk:
        v = vals.get(name)
        if v is None or isinstance(v, str):
            out.append(None)
        elif key == "dim":
            out.append(v.dimension[1:-1] if v.dimension.startswith("(") and v.dimension.endswith(")") else v.dimension)
        elif key == "proto":
            out.append(v.proto[1] if v.proto else None)
        else:
            out.append(v.kind if key == "kind" else v.strlen)
    return out


def _parse_chunk(chunk, lw=False):
    """-> per declaration (spied (masked, strings) | None, initial | None)"""
    lines = [prefix + expr for (_n, prefix, expr) in chunk]
    mod, calls, _log = R.parse_lines(lines, lower=lw)
    if mod is None or len(calls) != len(chunk):
        if len(chunk) == 1:
            return [(calls[0] if calls else None, None)]
        out = []
        for c in chunk:
            out += _parse_chunk([c], lw)
        return out
    vals = {v.name: v.initial for v in mod.variables}
    return [(calls[i], vals.get(chunk[i][0])) for i in range(len(chunk))]


# ----------------------------------------------------------------------------- end to end

def markup(text):
    return any(c in str(text) for c in "<>&")


def classify(pb, p, known):
    """known-finding key of one page problem (None = not a known finding).  Every recorded C18 finding is
    repaired: each page problem is a violation."""
    return None


# key: (module body lines, options, predicate over the generated pages' text)
def _page(doc, rel):
    f = doc / rel
    return f.read_text(encoding="utf8") if f.exists() else ""


WITNESS_SRC = """module m
  implicit none
  integer, parameter :: k = 1, n = 2
  integer :: arr(merge(2,3,k<n))
  integer, dimension(merge(2,3,k<n)) :: arr2
  integer(kind=kind(k<n)) :: kk
  integer(kind=8/2) :: kslash
  logical :: frel = 1 <= 2
  logical, parameter :: feq = "a<b" == 'a<b'
  integer :: dlit(len("a<b  c"))
  character(len=2*k) :: cstar
  character(len=len('<u>')) :: clen
  character(len=5) :: p3
  parameter (p3 = '<b>y')
  integer, bind(c, name="a<b>c") :: bv
  integer :: nv = 1
  type(t_t(4, merge(1, 2, k<n .and. n>k))) :: pc
  character(len=9) :: nlc = '<u>x</u>'
  character(len=*), parameter :: lit1 = '<u>x</u>' // "a  b & c"
  type :: t_t
    integer :: c = 0
  contains
    procedure, nopass :: tb => f
    procedure, nopass :: tb2 => s
  end type t_t
  interface
    function g1(a) result(res)
      integer, intent(in) :: a
      import :: k, n
      integer(kind=kind(k<n)) :: res
    end function g1
    function g2(a) result(res)
      integer, intent(in) :: a
      import :: k, n
      character(kind(k<n)) :: res
    end function g2
    function g3(a) result(res)
      integer, intent(in) :: a
      import :: k, n
      integer, dimension(merge(2,3,k<n)) :: res
    end function g3
    function g4(a) result(res)
      integer, intent(in) :: a
      import :: k, n
      integer :: res(merge(2,3,k<n))
    end function g4
    function g5(a) result(res)
      integer, intent(in) :: a
      import :: k, n
      type(t_t(k<n)) :: res
    end function g5
    function g6(a) result(res)
      integer, intent(in) :: a
      type(t_t(4)) :: res
    end function g6
  end interface
contains
  subroutine s(a) bind(c, name="s<u>name")
    integer, intent(in) :: a
    namelist /nl/ kk, nv, nlc, pc
  end subroutine s
  subroutine s2(a) bind(c, name="two  blanks")
    integer, intent(in) :: a
  end subroutine s2
  function f(x) result(r)
    integer, intent(in) :: x
    integer(kind=kind(k<n)) :: r
    r = x
  end function f
  function mkbox(a, b) result(res)
    integer, intent(in) :: a, b
    type(t_t) :: res(merge(1, 2, a<b), merge(1, 2, b>a))
  end function mkbox
  real function axis(i)
    integer, intent(in) :: i
    dimension axis(3)
    axis = 0.0
  end function axis
  character(len=8) function tag()
    pointer :: tag
  end function tag
  integer function cnt(nitems)
    cnt = nitems
  end function cnt
  function untyped(j)
    untyped = j
  end function untyped
  character(len=len("re<s>")) function fl()
    fl = "x"
  end function fl
  integer(kind=kind("x\\y")) function fk()
    fk = 1
  end function fk
end module m
"""


def witness_facts():
    """run the fixed witness project once; -> {finding key: still fails?}"""
    from bs4 import BeautifulSoup
    facts = {}
    with F.Work({"src/m.f90": WITNESS_SRC}) as w:
        data, out, err = F.full_run_inprocess(w.root, {"proc_internals": "true", "display": ["public", "private"]})
        if err:
            return {"__error__": err}
        doc = w.root / "doc"
        mod = _page(doc, "module/m.html")
        soup = BeautifulSoup(mod, "html.parser")

        def row(name):
            for tr_ in soup.select("table.varlist tbody > tr"):
                st = tr_.find("strong")
                if st and R.browser_text(st) == name:
                    return R.browser_text(tr_)
            return None
        r = row("arr")
        facts["probe:macros.html:var.dimension | e#1"] = r is None or "k<n" not in r
        r = row("arr2")
        facts["probe:macros.html:var.attribs | join(\", \") | e#1"] = r is None or "k<n" not in r
        r = row("kk")
        facts["probe:macros.html:var.full_type | relurl(page_url)#1"] = r is None or "kind(k<n)" not in R.squash(r)
        # declarations whose displayed type links to a type of the project (link + source text through relurl)
        r = row("pc")
        facts["fixed:linked-type-text/module-variable"] = r is None or "type(t_t(4,merge(1,2,k<n.and.n>k)))" not in R.squash(r)
        rvm = [R.squash(R.browser_text(h)).replace(",", "") for h in soup.find_all(["h3", "h4"])
               if R.browser_text(h).startswith("Return Value")]
        facts["fixed:linked-type-text/function-result"] = not any("type(t_t)(merge(12a<b)merge(12b>a))" in x for x in rvm)
        rvp = [R.squash(R.browser_text(h)).replace(",", "") for h in
               BeautifulSoup(_page(doc, "proc/mkbox.html"), "html.parser").find_all(["h3", "h4"])
               if R.browser_text(h).startswith("Return Value")]
        facts["fixed:linked-type-text/function-result-page"] = not any("type(t_t)(merge(12a<b)merge(12b>a))" in x for x in rvp)
        r = row("frel")
        facts["fixed:initial-relational-truncated"] = r is None or "=1<=2" not in R.squash(r)
        r = row("feq")
        facts["fixed:initial-relational-truncated/literals"] = r is None or "=\"a<b\"=='a<b'" not in R.squash(r)
        r = row("dlit")
        facts["fixed:dimension-proto-literal-masked"] = r is None or 'dlit(len("a<b  c"))' not in R.squash(r)
        r = row("kslash")
        facts["fixed:relurl-plain-text"] = r is None or not R.squash(r).startswith("integer(kind=8/2)")
        r, r2 = row("cstar"), row("clen")
        facts["fixed:strlen-expression-truncated"] = (r is not None and "len=2*k" not in R.squash(r)) or \
            (r2 is not None and "'<u>'" not in r2)
        r = row("p3")
        facts["fixed:param-stmt-literal-masked"] = r is not None and "'<b>y'" not in r
        r = row("bv")
        facts["fixed:attr-literal-masked"] = r is not None and 'name="a<b>c"' not in r
        r = row("lit1")
        facts["probe:macros.html:var.initial|e#1"] = r is None or "'<u>x</u>'//\"a  b & c\"" not in R.squash(r) \
            or bool(soup.select("table.varlist u"))
        heads = [R.browser_text(h) for h in soup.find_all(["h2", "h3"])]
        facts["probe:macros.html:proc.bindC | e#1"] = not any('name="s<u>name"' in h for h in heads)
        facts["fixed:bindc-blanks-collapse"] = not any('name="two  blanks"' in h for h in heads)
        rv = [R.squash(R.browser_text(h)) for h in soup.find_all(["h3", "h4"]) if R.browser_text(h).startswith("Return Value")]
        facts["probe:macros.html:proc.retvar.full_declaration | relurl(page_url)#1"] = \
            not any("integer(kind=kind(k<n))" in x for x in rv)
        tp = BeautifulSoup(_page(doc, "type/t_t.html"), "html.parser")
        rv = [R.squash(R.browser_text(h)) for h in tp.find_all(["h3", "h4"]) if R.browser_text(h).startswith("Return Value")]
        facts["probe:macros.html:proc.retvar.full_declaration | relurl(page_url)#2"] = \
            bool(rv) and not any("integer(kind=kind(k<n))" in x for x in rv)
        for fname, want in (("fl", 'character(len=len("re<s>"))'), ("fk", 'integer(kind=kind("x\\y"))')):
            fp = BeautifulSoup(_page(doc, f"proc/{fname}.html"), "html.parser")
            rv = [R.squash(R.browser_text(h)) for h in fp.find_all(["h3", "h4"]) if R.browser_text(h).startswith("Return Value")]
            facts["fixed:function-prefix-literal/" + fname] = not any(want in x for x in rv)
        # every function result / implicit argument shows its OWN declaration (no attribute of another one)
        for fname, want in (("axis", "real,dimension(3)"), ("tag", "character(len=8),pointer"), ("cnt", "integer"),
                            ("untyped", "real"), ("fl", 'character(len=len("re<s>"))'), ("fk", 'integer(kind=kind("x\\y"))')):
            fp = BeautifulSoup(_page(doc, f"proc/{fname}.html"), "html.parser")
            rv = [R.squash(R.browser_text(h))[len("ReturnValue"):] for h in fp.find_all(["h3", "h4"])
                  if R.browser_text(h).startswith("Return Value")]
            facts["fixed:own-declaration/result-of-" + fname] = rv != [want]
            if fname in ("cnt", "untyped"):
                cells = [R.browser_text(td) for tr_ in fp.select("table.varlist tbody > tr")
                         for td in tr_.find_all("td", recursive=False)]
                facts["fixed:own-declaration/implicit-argument-of-" + fname] = any("dimension" in c or "pointer" in c for c in cells)
        pp = BeautifulSoup(_page(doc, "proc/f.html"), "html.parser")
        rv = [R.squash(R.browser_text(h)) for h in pp.find_all(["h3", "h4"]) if R.browser_text(h).startswith("Return Value")]
        facts["probe:proc_page.html:procedure.retvar.full_declaration | relurl(page_url)#1"] = \
            bool(rv) and not any("integer(kind=kind(k<n))" in x for x in rv)
        tbh = [R.browser_text(h) for h in tp.find_all(["h2", "h3", "h4"])]
        facts["probe:macros.html:proc.bindC | e#2"] = not any('name="s<u>name"' in h for h in tbh)
        for name, key, want in (("g1", "nongenint_page.html:var.kind | e#1", "integer(kind=kind(k<n))"),
                                ("g2", "nongenint_page.html:var.strlen | e#1", "character(len=kind(k<n))"),
                                ("g3", "nongenint_page.html:attrib | e#1", "dimension(merge(2,3,k<n))"),
                                ("g4", "nongenint_page.html:var.dimension | e#1", "(merge(2,3,k<n))"),
                                ("g5", "nongenint_page.html:var.proto[1] | e#1", "(k<n)")):
            ip = BeautifulSoup(_page(doc, f"interface/{name}.html"), "html.parser")
            rv = [R.squash(R.browser_text(h)) for h in ip.find_all(["h3", "h4"]) if R.browser_text(h).startswith("Return Value")]
            facts["probe:" + key] = not rv or not any(want in x for x in rv)
        ip = BeautifulSoup(_page(doc, "interface/g6.html"), "html.parser")
        rv = [R.squash(R.browser_text(h)) for h in ip.find_all(["h3", "h4"]) if R.browser_text(h).startswith("Return Value")]
        facts["fixed:nongenint-proto-args-parens"] = bool(rv) and not any("type(t_t(4))" in x for x in rv)
        nl = BeautifulSoup(_page(doc, "namelist/nl.html"), "html.parser")
        t = R.squash(R.browser_text(nl))
        facts["probe:macros.html:variable.full_type | relurl(page_url)#1"] = "integer(kind=kind(k<n))" not in t
        facts["fixed:linked-type-text/namelist-member"] = "type(t_t(4,merge(1,2,k<n.and.n>k)))" not in t
        facts["probe:macros.html:variable.initial | e#1"] = "'<u>x</u>'" not in t or bool(nl.find_all("u"))
    return facts


def end_to_end(chk, rng, n, known):
    jobs = [{"seed": rng.randrange(1 << 30), "mode": ("initial-only" if i % 3 == 0 else "all"), "lower": i % 4 == 1}
            for i in range(n)]
    corpus = core.VERIF / "corpus" / "C18" / "jobs.json"
    if corpus.exists():
        jobs = json.load(open(corpus))["jobs"] + jobs
    with ProcessPoolExecutor(max_workers=core.NCPU - 2) as ex:
        try:
            results = list(ex.map(R.run_project, jobs, chunksize=2, timeout=1500))
        except Exception as e:  # noqa
            chk.obligation("end-to-end-runs", False, f"{type(e).__name__}: {e}")
            return
    tot, hits = {}, {}
    exposed, created = {}, {}
    for job, res in zip(jobs, results):
        chk.count(("e2e", job["seed"], job.get("mode"), bool(job.get("lower"))), nontrivial=True,
                  sample={"seed": job["seed"], "mode": job.get("mode"), "lower": bool(job.get("lower")), "cells": res["stats"].get("cells"),
                          "problems": len(res["problems"])})
        if res["error"]:
            chk.violation("failing-input", {"what": "FORD failed on a generated project", "error": res["error"],
                                            "source": res.get("source"), "job": job}, True)
            continue
        for k, v in res["stats"].items():
            if isinstance(v, int):
                tot[k] = tot.get(k, 0) + v
        for k, v in res["stats"].get("exposed", {}).items():
            exposed[k] = exposed.get(k, 0) + v
        for k, v in res["stats"].get("created", {}).items():
            created[k] = created.get(k, 0) + v
        for pb in res["problems"]:
            key = classify(pb, res["project"], known)
            if key is not None and chk.known(key, True):
                hits[key] = hits.get(key, 0) + 1
                chk.disagreements += 1
            else:
                chk.violation("failing-input", {"what": "a displayed declaration differs from the source text / "
                                                        "source text changed the page structure",
                                                "problem": pb, "classified_as": key, "source": res.get("source"),
                                                "job": job}, True)
    chk.extra["pages"] = dict(tot, projects=len(jobs), known_finding_hits=hits,
                              sites_exposed_to_markup=exposed, sites_where_markup_was_created=created)


def judge_cases(chk, cases, what):
    res = chk.coq_judge(IMPORTS, "case", "judge", [t for t, _ in cases], shard=250)
    if res is None:
        return
    chk.traces += len(cases)
    deferred = []
    shown = 0
    for idx, code in sorted(res.items(), key=lambda kv: (not kv[1] & 2, kv[0])):
        region = code >> 2
        payload = {"what": what, "case": cases[idx][1], "coq_case": cases[idx][0], "code": code,
                   "meaning": "bit0 model!=impl, bit1 impl output violates the property, bits>=2 known region"}
        if code & 1:
            if code & 2 and not region:
                chk.violation("failing-input", payload, True)
            else:
                deferred.append(payload)
        elif code & 2:
            chk.violation("failing-input", payload, True)
        shown += 1
    chk._c18_deferred = deferred[:3]


def run(chk):
    chk.translate(["t5_escapesites.py"])
    chk.build(["theories/Corr/C18.vo", "theories/Props/C18.vo"])
    chk.props("theories/Props/C18.v", THEOREMS)
    rng = chk.rng
    quick = chk.tier == "quick"
    known = known_unescaped_keys()
    chk.extra["known_unescaped_sites"] = len(known)
    # the fixed witness project runs FIRST in this process (state that survives between projects shows up in the
    # second run at the end and in the later projects of the worker processes)
    first_facts = witness_facts()
    cases = unit_cases(chk, rng, 300 if quick else 2500)
    byf = {}
    for _, d in cases:
        byf[d["f"]] = byf.get(d["f"], 0) + 1
    chk.extra["cases_by_function"] = byf
    judge_cases(chk, cases, "masking / initial value / escape / HTML reading")
    end_to_end(chk, rng, 120 if quick else 1200, known)
    for payload in getattr(chk, "_c18_deferred", []):
        chk.violation("broken-correspondence", payload, False)
    facts = witness_facts()
    for k, v in first_facts.items():         # a fact that fails in either run fails
        if v and k != "__error__":
            facts[k] = True
    if "__error__" in first_facts:
        facts["__error__"] = first_facts["__error__"]
    chk.extra["witness_replay"] = {k: ("FAILS" if v else "ok") for k, v in facts.items()}
    if "__error__" in facts:
        chk.violation("failing-input", {"what": "FORD failed on the fixed witness project", "error": facts["__error__"]}, True)
        facts = {}
    # site probes: markup is created exactly at the sites that Gen/EscapeSites.v + Out/Escape.v call unescaped
    probes = [(k.split(":", 1)[1], bool(v)) for k, v in sorted(facts.items()) if k.startswith(("site:", "probe:"))]
    pcases = [(f"CSite {coq_str(site)} {coq_bool(seen)}", {"f": "site-probe", "site": site, "markup_created": seen})
              for site, seen in probes]
    for _, d in pcases:
        chk.count(("site", d["site"]), nontrivial=True, sample=d)
    res = chk.coq_judge(IMPORTS, "case", "judge", [tm for tm, _ in pcases])
    if res is not None:
        chk.traces += len(pcases)
        for idx, code in sorted(res.items()):
            d = pcases[idx][1]
            if code & 1:
                chk.violation("failing-input" if code & 2 else "broken-correspondence",
                              {"what": "markup created / not created at a printing site, against Gen/EscapeSites.v and "
                                       "the classification of Out/Escape.v", "case": d, "code": code,
                               "witness_source": WITNESS_SRC}, bool(code & 2))
            elif code & 2 and not ((code >> 2) == 1 and chk.known("site:" + d["site"], True)):
                chk.violation("failing-input", {"what": "declaration text created markup at a printing site",
                                                "case": d, "code": code, "witness_source": WITNESS_SRC}, True)
    for key, still in facts.items():
        if key.startswith("probe:"):
            continue
        if key.startswith("fixed:"):         # repaired defects: regression inputs, they suppress nothing
            chk.count(("fixed-witness", key), nontrivial=True)
            if still:
                chk.violation("failing-input", {"what": f"repaired defect {key[6:]} is back",
                                                "witness_source": WITNESS_SRC}, True)
            continue
        if not chk.known(key, bool(still)):
            chk.notes.append(f"witness {key} has no open entry in known_findings.d/C18.json")
    if not quick:
        chk.coqchk(["Ford.Props.C18"])


def replay(chk, rep):
    chk.build(["theories/Corr/C18.vo"])
    if "coq_case" in rep:
        res = chk.coq_judge(IMPORTS, "case", "judge", [rep["coq_case"]])
        print("recorded implementation output judged again:", res)
        return 1 if res else 0
    if "job" in rep:
        known = known_unescaped_keys()
        res = R.run_project(rep["job"])
        print("error:", res["error"])
        bad = [pb for pb in res["problems"] if classify(pb, res["project"], known) is None] if not res["error"] else []
        for pb in bad:
            print("unexplained:", pb)
        return 1 if (bad or res["error"]) else 0
    print(json.dumps(rep, indent=1)[:2000])
    return 1


def finish(chk):
    return chk.finish(
        level_note="Coq proofs: masking/re-insertion round trip for all statements of quote-free code and well-formed "
                   "literals (any bodies, any number), escape is inert and invertible, finite facts over the complete "
                   "regenerated list of template printing sites (partial: 14 known unescaped sites); models tied to FORD "
                   "by differential evaluation through the real parser / Jinja environment; page checker on generated "
                   "hostile declarations against a control run",
        trusted_base=["Coq 8.16.1 kernel (vm_compute for case evaluation, witnesses and the finite site facts)",
                      "translate/t5_escapesites.py (Jinja expression reader)",
                      "harness/props/c18.py, harness/impl/c18run.py (bs4 page checker), harness/gen/c18decl.py",
                      "hand-written models Lex/Mask.v, Out/Escape.v (incl. the field classification table)",
                      "7-bit inputs; U+00A0 transported as '~'"],
        rule="distinct = distinct (function, input) for mask / initial / parameter statement / escape / html-view cases, "
             "distinct (seed, mode) project for whole runs, distinct site key for site probes",
        checker_cmd="make theories/Props/C18.vo && coqc theories/Props/C18.v (Print Assumptions)",
        assumptions=["Python re backtracking for QUOTES_RE modelled by Lex/Mask.scan", "re.sub template expansion of a "
                     "backslash-doubled literal is the identity", "html.parser's reading of element content modelled by "
                     "Out/Escape.vis for the sampled fragments", "field classes (FreeText/Ident/Markup/Internal) are a "
                     "hand-written table checked for completeness against the regenerated sites"])
